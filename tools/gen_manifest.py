#!/usr/bin/env python3
"""Regenerates /verif/MANIFEST.json from the table below (keeps the interface file in sync)."""
import json, os
ROOT = os.path.dirname(os.path.dirname(os.path.abspath(__file__)))

CHECKS = {
 "C01": ("round-trip monitor: decode(encode(v)) ok, re-encode byte-identical, library PartialEq, hex path == bytes path, over typed generators (all 2^18 body presence masks, width lattice, sized random values of ~125 types, Mint values naming a policy twice)", "4/C01"),
 "C02": ("abort monitor: every parser call runs under catch_unwind with a panic hook that attributes the panic to the innermost library frame; calls that may kill the process (huge declared lengths, deep nesting) run in forked children whose exit status / signal is classified; unexpected fatal signals are caught by a crash marker and the shard is resumed; every accepted value is re-serialized and the bytes re-read by the independent CBOR reader; release and overflow-checking builds", "4/C02"),
 "C03": ("independent CBOR reader + schema-directed Conway CDDL validator + encoding-discipline checker (vkit, shares no code with the library or cbor_event) run over the bytes the library emits for typed values and builder transactions", "4/C03"),
 "C04": ("valid transactions re-encoded NON-canonically by the harness's own CBOR writer (17 mutation kinds: indefinite lengths, non-minimal heads, permuted keys, untagged/duplicated sets, chunked strings, empty-but-present fields, ...) are loaded byte-preservingly; body / aux / untouched witness-field spans of the output are compared byte-for-byte with the input spans found by the independent reader, the hash with Blake2b-256 of the body span, over all signature-operation sequences of length <= 2 (exhaustive) and sampled up to 4; Plutus datums stand-alone and embedded in 7 containers; inputs that are one CBOR item but not an admissible transaction in one part (over-long auxiliary-data array, unknown keys) must be refused or preserved", "4/C04"),
 "C05": ("ledger preservation-of-value (consumed == produced, lovelace and every asset) evaluated by an independent ledger model on the built transaction bytes re-read by the independent CBOR reader against the scenario's UTxO table, over generated builder histories", "4/C05"),
 "C06": ("the built transaction is really signed with exactly the distinct required keys (harness key ring) and the Conway minimum fee (linear + ex-unit cost + tiered reference-script fee, exact rationals) is recomputed on the signed bytes; set_min_fee / set_fee requests checked on the emitted fee field", "4/C06"),
 "C07": ("min_ada_for_output judged against coins_per_byte x (160 + size) with sizes measured on emitted bytes, plus every output / value size / signed size of builder-produced transactions against the scenario parameters; coins-per-byte tuned per output so that the minimum sits next to a CBOR width boundary of the coin", "4/C07"),
 "C09": ("auxiliary-data hash and script-integrity hash recomputed from the emitted witness-set and auxiliary-data bytes with an own language-view encoder; stand-alone hashing helpers against the same definitions", "4/C09"),
 "C10": ("marker integers planted in redeemer data identify the item each Plutus witness was attached to; every emitted (tag, index) is resolved against the emitted body under the ledger's ordering rules (sorted inputs, sorted policies, certificate order, reward accounts and voters in ledger order with script credentials first)", "4/C10"),
 "C11": ("own address codecs (header/var-nat/Bech32/Base58/CRC32/Byron CBOR written with the independent CBOR writer) and a three-valued reference classifier (must-accept / must-reject / don't-care) compared with the stand-alone parsers on all 256 headers x lengths 0..=80, and with the decoders of outputs/bodies/transactions/UTxOs embedding the same byte strings", "4/C11"),
 "C12": ("signatures verified with cryptoxide's Ed25519 verifier called directly (positive and mutated-negative cases), derived keys compared byte-for-byte with the ed25519-bip32 crate, encodings decoded with own Bech32/hex codecs, EMIP-3 container recomputed with cryptoxide (PBKDF2 + ChaCha20-Poly1305) and tampered bit by bit", "4/C12"),
 "C08": ("the random draws of the random-improve strategies are put under a choice tape (patched rand crate inside the harness workspace): every choice sequence of small instances is executed depth-first and each leaf is judged - inputs distinct, subset of offered, pre-existing untouched, real input values cover outputs + min fee; largest-first prefix/minimality; insufficiency errors re-checked with all offered UTxOs", "4/C08"),
 "C13": ("every transaction returned by create_send_all is re-read by the independent reader and judged by the ledger model: exact-once input multiset, target address, balance against the UTxO table, fee against the really witnessed size, size limits, min-ADA; each case repeated to sample hash-order schedules", "4/C13"),
 "C14": ("exact big-integer / map-model reference for every arithmetic and conversion operation of BigNum, Int, BigInt, Value, MultiAsset, Mint, MintBuilder; release build and overflow-checking build", "4/C14"),
 "C16": ("insertion histories with repeats into every set-typed collection through add / from_bytes (own encodings) / from_json judged for duplicates and first-insertion order on getters and emitted bytes; canonical key order of asset maps under all insertion permutations; byte equality of 8 rebuilds of every successful builder state", "4/C16"),
 "C17": ("JSON round-trip monitors: metadata <-> JSON under the three schemas (order-normalised for NoConversions, exact for DetailedSchema), per-schema normal-form JSON grammars, own CBOR->JSON reading of each documented schema as cross-check, Plutus datums through DetailedSchema, chunked arbitrary bytes for every length 0..=1000, out-of-schema documents that must be refused", "4/C17"),
 "C18": ("scripts needed are derived from the emitted body by the ledger model and must be available exactly once (witness set or declared reference input present in the body), with redeemer and datum where Plutus requires; full_size() compared with the size of the transaction signed by exactly the distinct required keys (slack < one key witness)", "4/C18"),
 "C19": ("collateral inputs == collateral return + total collateral as whole values on the emitted body (keys 13/16/17 re-read by the independent reader), min-ADA of the return, percentage bound, and 'failed attempt leaves nothing', over dedicated setter histories and full scenarios", "4/C19"),
 "C20": ("third, independent deposit/refund table (written from the ledger rules, evaluated on the emitted body bytes re-read by the independent CBOR reader) compared with the stand-alone helpers and with TransactionBuilder::get_deposit/get_implicit_input; all 19 certificate kinds alone and in ordered pairs exhaustively, random sequences, totals steered to the 2^64 edge", "4/C20"),
 "C15": ("exact-rational reference (tier-by-tier recursion for the reference-script fee, a different algorithm from the library's closed form) compared with the fee functions on lattice/exhaustive-edge/random arguments", "4/C15"),
}
NOT_APPLICABLE = {}

def main():
    checks = []
    for pid in sorted(CHECKS):
        text, ref = CHECKS[pid]
        checks.append({
            "property_id": pid,
            "quick_cmd": "./check %s --tier quick" % pid,
            "thorough_cmd": "./check %s --tier thorough" % pid,
            "evidence_file": "evidence/%s.json" % pid,
            "replay_cmd_template": "./check %s --replay {path}" % pid,
            "engine": "cslmon",
            "level_claimed": {
                "category": "exploration",
                "text": "Runtime monitoring: the real library code is executed on generated workloads and every execution is judged by an independent oracle: " + text + ". The verdict is 'held on the executions observed' (counts, buckets, exhaustive sub-spaces and samples are in the evidence file); nothing is proved.",
                "design_ref": "DESIGN.md section " + ref,
            },
            "level_note": "Trusted base: rustc, the harness and its oracle library vkit (own CBOR reader, CDDL/ledger transcriptions), cryptoxide, num-bigint/num-rational, ed25519-bip32, serde_json. Only generated executions are judged; bounds and generator assumptions are listed in the evidence file.",
            "technique": "runtime monitoring: generated workload + independent oracle at the API boundary (catch_unwind / exit-status abort monitor, overflow-checking build as arithmetic sanitizer)",
        })
    all_ids = ["C%02d" % i for i in range(1, 21)]
    na = [{"property_id": p, "reason": NOT_APPLICABLE.get(p, "monitor not built yet in this revision of /verif (planned: DESIGN.md section 4); not claimed")} for p in all_ids if p not in CHECKS]
    m = {
        "version": 1,
        "setup_cmd": "./check --setup",
        "hooks": {
            "guard": "none (no source hooks in /repo; all observation happens at the public API; the only instrumentation is the harness workspace's own patched copy of the rand crate, harness/vendor/rand-choice)",
            "enable": "n/a - checks build /repo/rust as a path dependency of /verif/harness, unmodified",
            "baseline_off_cmd": "cd /repo/rust && cargo test --workspace --no-fail-fast --offline",
            "source_commits": [],
            "add_only": True,
        },
        "engines": [{"name": "cslmon", "path": "harness/cslmon", "serves_properties": sorted(CHECKS), "kind_free_text": "Rust monitor binary (workloads + oracles), sharded and aggregated by the python runner ./check"}],
        "checks": checks,
        "not_applicable": na,
        "notes": "Exit codes of every command: 0 held (KNOWN-FINDING lines allowed), 1 violated (VIOLATION line), 2 inconclusive (coverage floor / watchdog; never a VIOLATION line), 3 harness or build error. Env: VERIF_SEED, VERIF_TIER, VERIF_SCALE, VERIF_JOBS. Known findings: known_findings.json.",
    }
    with open(os.path.join(ROOT, "MANIFEST.json"), "w") as f:
        json.dump(m, f, indent=1)
    print("MANIFEST.json written with", len(checks), "checks")

if __name__ == "__main__":
    main()
