#!/usr/bin/env python3
"""Validate MANIFEST.json and evidence/*.json against the given schemas (run with python3-vt)."""
import json, glob, sys, os
import jsonschema
ROOT = os.path.dirname(os.path.dirname(os.path.abspath(__file__)))
ms = json.load(open('/root/.vp/MANIFEST.schema.json'))
es = json.load(open('/root/.vp/EVIDENCE.schema.json'))
jsonschema.validate(json.load(open(os.path.join(ROOT, 'MANIFEST.json'))), ms)
print("MANIFEST ok")
for f in sorted(glob.glob(os.path.join(ROOT, 'evidence', '*.json'))):
    jsonschema.validate(json.load(open(f)), es)
    print("ok", os.path.basename(f))
