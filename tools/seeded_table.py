#!/usr/bin/env python3
"""Print the markdown table of DESIGN.md section 10.5 from seeded/*/meta.json and seeded/*/summary.txt."""
import json, glob, os
rows = []
for d in sorted(glob.glob('/verif/seeded/*/')):
    mid = os.path.basename(d.rstrip('/'))
    m = json.load(open(d + 'meta.json'))
    summ = open(d + 'summary.txt').read().strip() if os.path.exists(d + 'summary.txt') else ''
    checks = m.get('checks', {})
    det = m.get('detected_by', [])
    first = m.get('first_round_result', '')
    sig = ''
    for p in det:
        ls = [l for l in checks[p]['lines'] if 'observation' in l]
        if ls:
            sig = ls[0].strip().replace('observation ', '')[:110]
            break
    status = m.get('status', '')
    if status.startswith('obsolete'):
        res = 'obsolete (see meta.json)'
    elif status.startswith('not a violation'):
        res = 'not a violation of the property as stated (see meta.json)'
    elif det:
        res = 'caught by ' + ', '.join(det)
    elif m.get('confirmed'):
        res = 'MISSED'
    else:
        res = 'not confirmed'
    rows.append((mid, summ, res, first, sig))
print('| id | change (what it needs to manifest) | quick check | first attempt | first signature reported |')
print('|---|---|---|---|---|')
for r in rows:
    print('| %s | %s | %s | %s | `%s` |' % r)
