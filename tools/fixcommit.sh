#!/bin/bash
# usage: fixcommit.sh "<commit message>"  — builds and runs the repository's tests, commits only if both succeed
set -e
cd /repo/rust
if ! cargo build --offline 2>/tmp/fixcommit.build.log; then
  grep -E "^error" -A12 /tmp/fixcommit.build.log | head -40
  echo "BUILD FAILED - not committed"; exit 1
fi
if ! cargo test --offline --lib >/tmp/fixcommit.test.log 2>&1; then
  tail -30 /tmp/fixcommit.test.log
  echo "TESTS FAILED - not committed"; exit 1
fi
grep "test result" /tmp/fixcommit.test.log
cd /repo
git add -A rust/src
git commit -qm "$1"
git log --oneline | head -1
