#!/usr/bin/env python3
"""Confirm a seeded change and run the checks against it.

  eval_mutant.py <deliver_dir> <a|b> <property> [extra properties...]      both phases
  eval_mutant.py --confirm-only [--slot N] [--as <letter>] <deliver_dir> <a|b> <property>  phase 1 only (parallelisable: own worktree / target dir per slot)
  eval_mutant.py --check-only <property>-<a|b> [properties...]              phase 2 only (serial: patches /repo, runs ./check, restores)

1. scratch worktree of /repo under /tmp: the change applies, the repository's 532 tests still pass
   with it, the demonstration test fails with it and passes without it;
2. the change is applied to /repo itself (git apply), the quick check of the property (and of the
   extra properties) is run, and /repo is restored straight afterwards (git checkout -- .);
3. everything is recorded under /verif/seeded/<property>-<letter>/ (patch.diff, demo.rs, meta.json).
"""
import json, os, shutil, subprocess, sys, time

def sh(cmd, cwd=None, timeout=3600):
    r = subprocess.run(cmd, shell=True, cwd=cwd, stdout=subprocess.PIPE, stderr=subprocess.STDOUT, text=True, timeout=timeout)
    return r.returncode, r.stdout

def run_checks(out, meta, props):
    diff = out + "/patch.diff"
    rc, o = sh("git -C /repo status --porcelain --untracked-files=no")
    if o.strip():
        print("refusing: /repo has local modifications:\n" + o); sys.exit(2)
    rc, o = sh("git -C /repo apply %s" % diff)
    if rc != 0:
        print("does not apply to /repo: " + o); sys.exit(2)
    results = meta.get("checks", {})
    try:
        for p in props:
            t0 = time.time()
            rc, o = sh("./check %s --tier quick" % p, cwd="/verif", timeout=3000)
            viol = [l for l in o.splitlines() if l.startswith("VIOLATION") or l.strip().startswith("observation")]
            results[p] = {"exit": rc, "detected": rc == 1, "wall_s": round(time.time() - t0, 1), "lines": [l[:300] for l in viol[:12]]}
            meta["ran"].append("./check %s --tier quick with the change applied to /repo: exit %d" % (p, rc))
    finally:
        sh("git -C /repo checkout -- .")
    meta["checks"] = results
    meta["detected_by"] = [p for p, r in results.items() if r["detected"]]

def main():
    args = sys.argv[1:]
    if args[0] == "--check-only":
        out = "/verif/seeded/%s" % args[1]
        meta = json.load(open(out + "/meta.json"))
        if not meta.get("confirmed"):
            print("not confirmed"); sys.exit(2)
        run_checks(out, meta, args[2:] or [meta["property"]])
        json.dump(meta, open(out + "/meta.json", "w"), indent=1)
        print(json.dumps({"id": meta["id"], "detected_by": meta["detected_by"], "checks": {p: (r["exit"], r["lines"][:4]) for p, r in meta["checks"].items()}}, indent=1)[:3000])
        return
    confirm_only = False
    slot = ""
    if args[0] == "--confirm-only":
        confirm_only = True
        args = args[1:]
    if args[0] == "--slot":
        slot = "-" + args[1]
        args = args[2:]
    as_letter = None
    if args[0] == "--as":
        as_letter = args[1]
        args = args[2:]
    deliver, letter, prop = args[0], args[1], args[2]
    extra = args[3:]
    mid = "%s-%s" % (prop, as_letter or letter)
    out = "/verif/seeded/%s" % mid
    os.makedirs(out, exist_ok=True)
    diff = os.path.join(deliver, "%s.diff" % letter)
    demo = os.path.join(deliver, "demo_%s.rs" % letter)
    meta = {"id": mid, "property": prop, "source": "independent sub-agent given only the property text and a scratch worktree", "ran": []}
    wt = "/tmp/eval-wt" + slot
    sh("git -C /repo worktree remove --force %s" % wt)
    shutil.rmtree(wt, ignore_errors=True)
    rc, o = sh("git -C /repo worktree add -q --detach %s HEAD" % wt)
    if rc != 0:
        print(o); sys.exit(2)
    shutil.copy("/repo/rust/Cargo.lock", wt + "/rust/Cargo.lock")
    env_target = "CARGO_TARGET_DIR=/tmp/eval-target" + slot
    try:
        # demo without the change
        shutil.copy(demo, wt + "/rust/src/tests/mutant_demo.rs")
        with open(wt + "/rust/src/tests/mod.rs", "a") as f:
            f.write("\nmod mutant_demo;\n")
        rc, o = sh("%s cargo test --offline --lib mutant_demo 2>&1 | tail -15" % env_target, cwd=wt + "/rust")
        meta["demo_without_change"] = "pass" if "test result: ok" in o and " 0 passed" not in o else "FAIL"
        meta["ran"].append("demo on unchanged tree: " + o.strip().splitlines()[-1] if o.strip() else "no output")
        # apply
        rc, o = sh("git apply %s" % diff, cwd=wt)
        meta["applies"] = rc == 0
        if rc != 0:
            meta["apply_error"] = o[-500:]
        rc, o = sh("%s cargo test --offline --lib mutant_demo 2>&1 | tail -25" % env_target, cwd=wt + "/rust")
        meta["demo_with_change"] = "fail" if ("FAILED" in o or "panicked" in o) else "PASSES(!)"
        meta["ran"].append("demo with the change: " + (o.strip().splitlines()[-1] if o.strip() else ""))
        # the existing suite (without the demo) with the change
        sh("git checkout -- rust/src/tests/mod.rs && rm -f rust/src/tests/mutant_demo.rs", cwd=wt)
        rc, o = sh("%s cargo test --offline --lib 2>&1 | tail -5" % env_target, cwd=wt + "/rust")
        meta["existing_suite_with_change"] = "pass" if "test result: ok. 532 passed" in o else "FAIL: " + o[-300:]
        meta["ran"].append("existing suite with the change: " + (o.strip().splitlines()[-1] if o.strip() else ""))
    finally:
        sh("git -C /repo worktree remove --force %s" % wt)
        shutil.rmtree(wt, ignore_errors=True)
    confirmed = meta.get("applies") and meta["demo_without_change"] == "pass" and meta["demo_with_change"] == "fail" and meta["existing_suite_with_change"] == "pass"
    meta["confirmed"] = bool(confirmed)
    shutil.copy(diff, out + "/patch.diff")
    shutil.copy(demo, out + "/demo.rs")
    readme = os.path.join(deliver, "README.md")
    if os.path.exists(readme):
        shutil.copy(readme, out + "/author_notes.md")
    if confirmed and not confirm_only:
        run_checks(out, meta, [prop] + extra)
    with open(out + "/meta.json", "w") as f:
        json.dump(meta, f, indent=1)
    print(json.dumps({k: meta[k] for k in meta if k not in ("ran",)}, indent=1)[:3000])

if __name__ == "__main__":
    main()
