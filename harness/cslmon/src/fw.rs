//! Monitor framework: case streams, panic / abort observation, buckets, violations, evidence.
//!
//! A property is a list of *streams*; a stream is `count` cases; case `i` of a stream is a pure
//! function of (seed, stream name, i), so every case can be replayed from its coordinates.
//! Shard k of n executes the cases with i % n == k.

use serde_json::{json, Map, Value};
use std::cell::RefCell;
use std::collections::{BTreeMap, HashMap, HashSet};
use std::io::Write;
use std::panic::{catch_unwind, AssertUnwindSafe};
use std::sync::atomic::{AtomicI32, AtomicU64, Ordering};
use vkit::rng::Rng;

#[derive(Clone, Copy, PartialEq, Debug)]
pub enum Tier {
    Quick,
    Thorough,
}

pub struct Stream {
    pub name: &'static str,
    /// number of cases in (quick, thorough)
    pub count: (u64, u64),
    /// exhaustive streams enumerate a finite space completely and are not scaled by VERIF_SCALE
    pub exhaustive: bool,
    pub run: fn(&mut Ctx, &mut Rng, u64),
}

pub struct PropDef {
    pub id: &'static str,
    pub rule: &'static str,
    pub assumptions: &'static [&'static str],
    pub streams: fn() -> Vec<Stream>,
    /// (bucket, minimum count over the whole run) for quick tier; thorough uses the same floors
    pub floors: &'static [(&'static str, u64)],
    /// optional one-time setup per shard
    pub init: Option<fn(&mut Ctx)>,
}

#[derive(Clone, Debug)]
pub struct PanicRec {
    pub loc: String,
    pub msg: String,
    /// "<file under rust/src>::<innermost named library fn>" or "extern" if no library frame
    pub site: String,
    /// for panics raised in a dependency / the runtime: the innermost frame that is not runtime code
    /// (who asked for it), e.g. "cbor_event::Deserializer::bytes"; empty for panics located in the library
    pub via: String,
}

impl PanicRec {
    pub fn norm_msg(&self) -> String {
        norm_msg(&self.msg)
    }
    /// signature of a panic observed at `entry`: dependency-level defects keep their own signature
    pub fn sig_at(&self, entry: &str) -> String {
        let s = self.sig();
        if s.starts_with("cbor_event/") {
            s
        } else {
            format!("{}/{}", entry, s)
        }
    }
    /// signature used for known-finding matching: site + normalised message
    pub fn sig(&self) -> String {
        // one dependency defect reached below many serializers (overflow-checking build only):
        // keyed by the dependency location, not by whichever library frame called it
        if self.msg.contains("attempt to negate with overflow") && self.loc.contains("cbor_event") && self.loc.contains("se.rs") {
            return "cbor_event/write_negative_integer/negate-overflow-for-minus-2^63".to_string();
        }
        format!("panic@{}:{}", self.site, self.norm_msg())
    }
}

pub fn norm_msg(m: &str) -> String {
    // assertion messages carry the offending values: keep the statement only
    let m = match m.find("\n  left:") {
        Some(i) => &m[..i],
        None => m,
    };
    let m = match m.find("  left:") {
        Some(i) => &m[..i],
        None => m,
    };
    // slicing panics quote the offending text: keep the statement only
    let m = match m.find("; it is inside") {
        Some(i) => &m[..i],
        None => m,
    };
    let mut s = String::new();
    let mut last_hash = false;
    for c in m.chars() {
        if c.is_ascii_digit() {
            if !last_hash {
                s.push('#');
            }
            last_hash = true;
        } else {
            last_hash = false;
            if c == '\n' {
                s.push(' ');
            } else {
                s.push(c);
            }
        }
        if s.len() >= 90 {
            break;
        }
    }
    s
}

thread_local! {
    static LAST_PANIC: RefCell<Option<(String, String, String, String)>> = RefCell::new(None);
    static SITE_CACHE: RefCell<HashMap<String, String>> = RefCell::new(HashMap::new());
    static IN_GUARD: RefCell<u32> = RefCell::new(0);
}

fn site_from_backtrace(bt: &str) -> String {
    // frames look like:
    //   12: cardano_serialization_lib::utils::read_bounded_bytes
    //              at /repo/rust/src/utils.rs:123:5
    let lines: Vec<&str> = bt.lines().collect();
    let mut i = 0;
    let mut found_file: Option<String> = None;
    while i + 1 < lines.len() {
        let l = lines[i].trim_start();
        let nxt = lines[i + 1].trim_start();
        if let Some(pos) = l.find(": ") {
            if l[..pos].chars().all(|c| c.is_ascii_digit()) && nxt.starts_with("at ") {
                let func = &l[pos + 2..];
                let path = &nxt[3..];
                if let Some(p) = path.find("/rust/src/") {
                    if path.starts_with("/repo/") || path.contains("/rust/src/") {
                        let rel = &path[p + "/rust/src/".len()..];
                        let file = rel.split(':').next().unwrap_or(rel).to_string();
                        // skip closures: walk outward to the nearest named function
                        let is_closure = func.contains("{closure") || func.contains("{{closure");
                        if found_file.is_none() {
                            found_file = Some(file.clone());
                        }
                        if !is_closure {
                            let mut f = func.to_string();
                            // strip generic args and hash suffix, keep last path segment(s)
                            if let Some(h) = f.rfind("::h") {
                                if f[h + 3..].chars().all(|c| c.is_ascii_hexdigit()) && f.len() - h == 19 {
                                    f.truncate(h);
                                }
                            }
                            let short = short_fn(&f);
                            return format!("{}::{}", found_file.unwrap_or(file), short);
                        }
                    }
                }
                i += 2;
                continue;
            }
        }
        i += 1;
    }
    match found_file {
        Some(f) => format!("{}::?", f),
        None => "extern".to_string(),
    }
}

/// innermost frame that is neither the Rust runtime (std / core / alloc / hashbrown) nor the monitor's
/// own plumbing: the code that asked for the allocation or raised the panic, as "<crate>/<file>::<fn>"
/// (closures are attributed to the enclosing named function of the same file). Frames are classified
/// by their source path: inlined frames carry bare function names in this build.
pub fn requester_from_backtrace(bt: &str) -> String {
    let lines: Vec<&str> = bt.lines().collect();
    let mut i = 0;
    let mut pending: Option<String> = None; // file label of a closure frame waiting for its named parent
    while i + 1 < lines.len() {
        let l = lines[i].trim_start();
        let nxt = lines[i + 1].trim_start();
        let pos = match l.find(": ") {
            Some(p) if p > 0 && l[..p].chars().all(|c| c.is_ascii_digit()) && nxt.starts_with("at ") => p,
            _ => {
                i += 1;
                continue;
            }
        };
        i += 2;
        let func = &l[pos + 2..];
        let path = nxt[3..].rsplitn(3, ':').last().unwrap_or("");
        if path.starts_with("/rustc/") || path.contains("cslmon/src/fw.rs") || path.contains("/hashbrown-") || path.contains("/library/") {
            continue;
        }
        let file_label = if let Some(p) = path.find("/rust/src/") {
            format!("lib/{}", &path[p + "/rust/src/".len()..])
        } else if let Some(p) = path.find("/registry/src/") {
            // <index dir>/<crate>-<version>/src/<file>
            let rest = &path[p + "/registry/src/".len()..];
            let mut it = rest.splitn(2, '/');
            let _index = it.next();
            let rest = it.next().unwrap_or("");
            let mut it = rest.splitn(2, '/');
            let cv = it.next().unwrap_or("");
            let file = it.next().unwrap_or("").trim_start_matches("src/");
            let name = match cv.rfind('-') {
                Some(d) if cv[d + 1..].chars().next().map_or(false, |c| c.is_ascii_digit()) => &cv[..d],
                _ => cv,
            };
            format!("{}/{}", name, file)
        } else {
            format!("harness/{}", path.trim_start_matches("./"))
        };
        if let Some(pf) = &pending {
            if *pf != file_label {
                return format!("{}::?", pf);
            }
        }
        let mut f = func.to_string();
        if let Some(h) = f.rfind("::h") {
            if f[h + 3..].chars().all(|c| c.is_ascii_hexdigit()) && f.len() - h == 19 {
                f.truncate(h);
            }
        }
        if f.contains("{closure") || f.contains("{{closure") {
            pending = Some(file_label);
            continue;
        }
        let short = short_fn(&f);
        let last = short.rsplit("::").next().unwrap_or(&short).to_string();
        return format!("{}::{}", file_label, last);
    }
    match pending {
        Some(pf) => format!("{}::?", pf),
        None => "unknown".to_string(),
    }
}

fn short_fn(f: &str) -> String {
    // remove generic parameter lists
    let mut out = String::new();
    let mut depth = 0i32;
    for c in f.chars() {
        match c {
            '<' => depth += 1,
            '>' => depth -= 1,
            _ => {
                if depth == 0 {
                    out.push(c)
                }
            }
        }
    }
    // "<impl Trait for Type>::method" was reduced to "::method"; keep last two segments
    let segs: Vec<&str> = out.split("::").filter(|s| !s.is_empty()).collect();
    let n = segs.len();
    if n >= 2 {
        format!("{}::{}", segs[n - 2], segs[n - 1])
    } else {
        segs.join("::")
    }
}

pub fn install_panic_hook() {
    std::panic::set_hook(Box::new(|info| {
        let loc = info.location().map(|l| format!("{}:{}:{}", l.file(), l.line(), l.column())).unwrap_or_default();
        let msg = if let Some(s) = info.payload().downcast_ref::<&str>() {
            s.to_string()
        } else if let Some(s) = info.payload().downcast_ref::<String>() {
            s.clone()
        } else {
            "<non-string panic>".to_string()
        };
        let in_guard = IN_GUARD.with(|g| *g.borrow());
        if in_guard == 0 {
            eprintln!("HARNESS PANIC (outside guard) at {}: {}", loc, msg);
            eprintln!("{}", std::backtrace::Backtrace::force_capture());
            return;
        }
        // a panic located in the library itself is attributed by its location (cached); a panic
        // located in a dependency (cbor_event, alloc, core, ...) can be reached from many library
        // functions, so its backtrace is walked every time
        let in_lib = loc.contains("/rust/src/");
        let key = format!("{}|{}", loc, norm_msg(&msg));
        let mut via = String::new();
        let site = SITE_CACHE.with(|c| {
            let mut c = c.borrow_mut();
            if in_lib {
                if let Some(s) = c.get(&key) {
                    return s.clone();
                }
            }
            let bt = std::backtrace::Backtrace::force_capture().to_string();
            let s = site_from_backtrace(&bt);
            if in_lib {
                c.insert(key.clone(), s.clone());
            } else {
                via = requester_from_backtrace(&bt);
            }
            s
        });
        LAST_PANIC.with(|p| *p.borrow_mut() = Some((loc, msg, site, via)));
    }));
}

/// Run `f`, turning a panic into an observation.
pub fn guard<T>(f: impl FnOnce() -> T) -> Result<T, PanicRec> {
    IN_GUARD.with(|g| *g.borrow_mut() += 1);
    let r = catch_unwind(AssertUnwindSafe(f));
    IN_GUARD.with(|g| *g.borrow_mut() -= 1);
    match r {
        Ok(v) => Ok(v),
        Err(_) => {
            let (loc, msg, site, via) =
                LAST_PANIC.with(|p| p.borrow_mut().take()).unwrap_or(("?".into(), "?".into(), "extern".into(), String::new()));
            if loc.starts_with("cslmon/") || loc.starts_with("vkit/") {
                // a panic in the monitor's own code is a harness error, never an observation
                eprintln!("HARNESS-BUG panic in monitor code at {}: {}", loc, msg);
                std::process::exit(3);
            }
            Err(PanicRec { loc, msg, site, via })
        }
    }
}

// ------------------------------------------------------------------------------------------------
// crash marker: the current case coordinates, written by a signal handler on fatal signals

static CUR_STREAM: AtomicU64 = AtomicU64::new(u64::MAX);
static CUR_CASE: AtomicU64 = AtomicU64::new(u64::MAX);
static CRASH_FD: AtomicI32 = AtomicI32::new(-1);

extern "C" fn on_fatal(sig: libc::c_int) {
    // async-signal-safe: format decimal numbers by hand, write(2), _exit(2)
    let fd = CRASH_FD.load(Ordering::Relaxed);
    if fd >= 0 {
        let mut buf = [0u8; 96];
        let mut p = 0usize;
        fn put(buf: &mut [u8], p: &mut usize, mut v: u64) {
            let mut tmp = [0u8; 20];
            let mut n = 0;
            if v == 0 {
                tmp[0] = b'0';
                n = 1;
            }
            while v > 0 {
                tmp[n] = b'0' + (v % 10) as u8;
                v /= 10;
                n += 1;
            }
            for i in (0..n).rev() {
                buf[*p] = tmp[i];
                *p += 1;
            }
            buf[*p] = b' ';
            *p += 1;
        }
        put(&mut buf, &mut p, sig as u64);
        put(&mut buf, &mut p, CUR_STREAM.load(Ordering::Relaxed));
        put(&mut buf, &mut p, CUR_CASE.load(Ordering::Relaxed));
        buf[p] = b'\n';
        p += 1;
        unsafe {
            libc::write(fd, buf.as_ptr() as *const libc::c_void, p);
        }
    }
    unsafe { libc::_exit(99) }
}

pub fn install_crash_handler(path: &str) {
    let c = std::ffi::CString::new(path).unwrap();
    let fd = unsafe { libc::open(c.as_ptr(), libc::O_WRONLY | libc::O_CREAT | libc::O_TRUNC, 0o644) };
    CRASH_FD.store(fd, Ordering::Relaxed);
    unsafe {
        for s in [libc::SIGSEGV, libc::SIGBUS, libc::SIGABRT, libc::SIGILL, libc::SIGFPE] {
            let mut sa: libc::sigaction = std::mem::zeroed();
            sa.sa_sigaction = on_fatal as usize;
            sa.sa_flags = libc::SA_ONSTACK;
            libc::sigemptyset(&mut sa.sa_mask);
            libc::sigaction(s, &sa, std::ptr::null_mut());
        }
    }
}

// ------------------------------------------------------------------------------------------------
// allocation trap: in a forked child, a request for >= 2^31 bytes (every input is <= 64 KiB) is not
// passed to the system allocator (whether that aborts depends on the host's overcommit state) but
// reported, with the code that asked for it, through a pipe; the child then exits.

pub struct TrapAlloc;
static TRAP_FD: AtomicI32 = AtomicI32::new(-1);
pub const TRAP_BYTES: usize = 1 << 31;

#[cold]
fn alloc_trap(size: usize) -> ! {
    let fd = TRAP_FD.swap(-1, Ordering::SeqCst);
    if fd >= 0 {
        let bt = std::backtrace::Backtrace::force_capture().to_string();
        let who = requester_from_backtrace(&bt);
        let site = site_from_backtrace(&bt);
        if std::env::var("CSLMON_BT_DEBUG").is_ok() {
            let _ = std::fs::write("/tmp/bt-debug.txt", &bt);
        }
        let msg = format!("{}|{}|{}\n", who, site, size);
        unsafe {
            libc::write(fd, msg.as_ptr() as *const libc::c_void, msg.len());
        }
    }
    unsafe { libc::_exit(65) }
}

unsafe impl std::alloc::GlobalAlloc for TrapAlloc {
    unsafe fn alloc(&self, l: std::alloc::Layout) -> *mut u8 {
        if l.size() >= TRAP_BYTES && TRAP_FD.load(Ordering::Relaxed) >= 0 {
            alloc_trap(l.size());
        }
        std::alloc::System.alloc(l)
    }
    unsafe fn alloc_zeroed(&self, l: std::alloc::Layout) -> *mut u8 {
        if l.size() >= TRAP_BYTES && TRAP_FD.load(Ordering::Relaxed) >= 0 {
            alloc_trap(l.size());
        }
        std::alloc::System.alloc_zeroed(l)
    }
    unsafe fn dealloc(&self, p: *mut u8, l: std::alloc::Layout) {
        std::alloc::System.dealloc(p, l)
    }
    unsafe fn realloc(&self, p: *mut u8, l: std::alloc::Layout, n: usize) -> *mut u8 {
        if n >= TRAP_BYTES && TRAP_FD.load(Ordering::Relaxed) >= 0 {
            alloc_trap(n);
        }
        std::alloc::System.realloc(p, l, n)
    }
}

/// Result of running a closure in a forked child.
#[derive(Debug, Clone, PartialEq)]
pub enum ForkOutcome {
    /// child exited normally with this small status byte (0..=63 reserved for the closure)
    Exit(i32),
    Signal(i32),
    Timeout,
    /// the child asked for >= 2^31 bytes: (requesting code, library site, bytes)
    HugeAlloc(String, String, u64),
}

/// Run `f` in a forked child (single-threaded process assumed); the closure's return value
/// (0..=63) becomes the exit status. Used for inputs that may legitimately kill the process.
pub fn fork_case(timeout_ms: u64, f: impl FnOnce() -> i32) -> ForkOutcome {
    unsafe {
        let mut fds = [0 as libc::c_int; 2];
        if libc::pipe(fds.as_mut_ptr()) != 0 {
            panic!("pipe failed");
        }
        let pid = libc::fork();
        if pid < 0 {
            panic!("fork failed");
        }
        if pid == 0 {
            libc::close(fds[0]);
            TRAP_FD.store(fds[1], Ordering::SeqCst);
            // child: default signal dispositions so the parent sees the real signal
            for s in [libc::SIGSEGV, libc::SIGBUS, libc::SIGABRT, libc::SIGILL, libc::SIGFPE] {
                libc::signal(s, libc::SIG_DFL);
            }
            // silence "memory allocation of N bytes failed" noise
            let devnull = libc::open(b"/dev/null\0".as_ptr() as *const libc::c_char, libc::O_WRONLY);
            if devnull >= 0 {
                libc::dup2(devnull, 2);
            }
            let r = catch_unwind(AssertUnwindSafe(f));
            let code = match r {
                Ok(c) => c & 63,
                Err(_) => 64,
            };
            libc::_exit(code);
        }
        libc::close(fds[1]);
        let rfd = fds[0];
        let start = std::time::Instant::now();
        let mut status: libc::c_int = 0;
        loop {
            let r = libc::waitpid(pid, &mut status, libc::WNOHANG);
            if r == pid {
                break;
            }
            if start.elapsed().as_millis() as u64 > timeout_ms {
                libc::kill(pid, libc::SIGKILL);
                libc::waitpid(pid, &mut status, 0);
                libc::close(rfd);
                return ForkOutcome::Timeout;
            }
            // children normally finish in well under a millisecond
            if start.elapsed().as_micros() < 300 {
                std::hint::spin_loop();
            } else {
                libc::usleep(200);
            }
        }
        let mut buf = [0u8; 1024];
        let n = if libc::WIFEXITED(status) && libc::WEXITSTATUS(status) == 65 { libc::read(rfd, buf.as_mut_ptr() as *mut libc::c_void, buf.len()) } else { 0 };
        libc::close(rfd);
        if n > 0 {
            let t = String::from_utf8_lossy(&buf[..n as usize]).trim().to_string();
            let mut p = t.split('|');
            let who = p.next().unwrap_or("unknown").to_string();
            let site = p.next().unwrap_or("").to_string();
            let bytes = p.next().and_then(|x| x.parse::<u64>().ok()).unwrap_or(0);
            return ForkOutcome::HugeAlloc(who, site, bytes);
        }
        if libc::WIFEXITED(status) {
            ForkOutcome::Exit(libc::WEXITSTATUS(status))
        } else if libc::WIFSIGNALED(status) {
            ForkOutcome::Signal(libc::WTERMSIG(status))
        } else {
            ForkOutcome::Exit(-1)
        }
    }
}

// ------------------------------------------------------------------------------------------------

pub struct Viol {
    pub count: u64,
    pub first: Value,
}

pub struct Ctx {
    pub prop: &'static str,
    pub tier: Tier,
    pub seed: u64,
    pub shard: u64,
    pub nshards: u64,
    pub cfg: String,
    pub scale: f64,
    pub cur_stream: &'static str,
    pub cur_stream_ix: usize,
    pub cur_case: u64,
    pub evals: u64,
    pub buckets: BTreeMap<String, u64>,
    pub hashes: HashSet<u64>,
    pub hash_cap: usize,
    pub hash_overflow: u64,
    pub samples: Vec<Value>,
    pub sample_keys: HashSet<String>,
    pub viols: BTreeMap<String, Viol>,
    pub panics: BTreeMap<String, u64>,
    pub exhaustive: BTreeMap<String, u64>,
    pub extra: Map<String, Value>,
    pub stream_stats: BTreeMap<String, (u64, u64)>,
    pub skip: HashSet<(String, u64)>,
    pub replay_mode: bool,
    /// opaque per-property shard state
    pub state: Option<Box<dyn std::any::Any>>,
}

impl Ctx {
    pub fn is_checked(&self) -> bool {
        cfg!(debug_assertions)
    }
    pub fn bucket(&mut self, name: &str) {
        *self.buckets.entry(name.to_string()).or_insert(0) += 1;
    }
    pub fn bucket_n(&mut self, name: &str, n: u64) {
        *self.buckets.entry(name.to_string()).or_insert(0) += n;
    }
    /// count one evaluation (one observed execution judged by a monitor)
    pub fn eval(&mut self) {
        self.evals += 1;
    }
    pub fn evals_n(&mut self, n: u64) {
        self.evals += n;
    }
    /// register a distinct non-trivial case by hash
    pub fn nontrivial(&mut self, h: u64) {
        if self.hashes.len() < self.hash_cap {
            self.hashes.insert(h);
        } else {
            self.hash_overflow += 1;
        }
    }
    pub fn nontrivial_bytes(&mut self, tag: &str, b: &[u8]) {
        let mut v = Vec::with_capacity(tag.len() + b.len());
        v.extend_from_slice(tag.as_bytes());
        v.extend_from_slice(b);
        self.nontrivial(vkit::rng::fnv64(&v));
    }
    /// keep one sample per key (a few keys per property)
    pub fn sample(&mut self, key: &str, v: impl FnOnce() -> Value) {
        if self.sample_keys.len() < 12 && !self.sample_keys.contains(key) {
            self.sample_keys.insert(key.to_string());
            let mut val = v();
            if let Value::Object(m) = &mut val {
                m.insert("sample_of".into(), json!(key));
                m.insert("stream".into(), json!(self.cur_stream));
                m.insert("case".into(), json!(self.cur_case));
            }
            self.samples.push(val);
        }
    }
    /// a refuting observation
    pub fn violation(&mut self, sig: &str, detail: Value) {
        let coords = json!({
            "property": self.prop, "stream": self.cur_stream, "case": self.cur_case,
            "seed": self.seed, "cfg": self.cfg, "tier": if self.tier == Tier::Quick {"quick"} else {"thorough"},
        });
        if self.replay_mode {
            println!("REPLAY-OBSERVATION sig={} detail={}", sig, detail);
        }
        let e = self.viols.entry(sig.to_string()).or_insert(Viol { count: 0, first: Value::Null });
        if e.count == 0 {
            e.first = json!({"coords": coords, "detail": detail});
        }
        e.count += 1;
    }
    /// a panic that does not refute the property (logged for visibility)
    pub fn panic_seen(&mut self, p: &PanicRec) {
        *self.panics.entry(p.sig()).or_insert(0) += 1;
    }
    pub fn set_exhaustive(&mut self, name: &str, n: u64) {
        self.exhaustive.insert(name.to_string(), n);
    }
    pub fn quick(&self) -> bool {
        self.tier == Tier::Quick
    }
}

pub fn stream_count(s: &Stream, tier: Tier, scale: f64) -> u64 {
    let base = if tier == Tier::Quick { s.count.0 } else { s.count.1 };
    if s.exhaustive {
        base
    } else {
        ((base as f64) * scale).ceil() as u64
    }
}

pub struct RunArgs {
    pub tier: Tier,
    pub seed: u64,
    pub shard: u64,
    pub nshards: u64,
    pub out: String,
    pub skip: HashSet<(String, u64)>,
    pub scale: f64,
    pub only_stream: Option<String>,
    pub only_case: Option<u64>,
}

pub fn cfg_name() -> &'static str {
    if cfg!(debug_assertions) {
        "checked"
    } else {
        "release"
    }
}

pub fn run_prop(def: &PropDef, a: RunArgs) -> Ctx {
    let started = std::time::Instant::now();
    let mut ctx = Ctx {
        prop: def.id,
        tier: a.tier,
        seed: a.seed,
        shard: a.shard,
        nshards: a.nshards,
        cfg: cfg_name().to_string(),
        scale: a.scale,
        cur_stream: "",
        cur_stream_ix: 0,
        cur_case: 0,
        evals: 0,
        buckets: BTreeMap::new(),
        hashes: HashSet::new(),
        hash_cap: 400_000,
        hash_overflow: 0,
        samples: vec![],
        sample_keys: HashSet::new(),
        viols: BTreeMap::new(),
        panics: BTreeMap::new(),
        exhaustive: BTreeMap::new(),
        extra: Map::new(),
        stream_stats: BTreeMap::new(),
        skip: a.skip,
        replay_mode: a.only_case.is_some(),
        state: None,
    };
    if let Some(init) = def.init {
        init(&mut ctx);
    }
    let streams = (def.streams)();
    for (six, s) in streams.iter().enumerate() {
        if let Some(only) = &a.only_stream {
            if only != s.name {
                continue;
            }
        }
        let n = stream_count(s, a.tier, a.scale);
        ctx.cur_stream = s.name;
        ctx.cur_stream_ix = six;
        CUR_STREAM.store(six as u64, Ordering::Relaxed);
        let mut executed = 0u64;
        let t0 = std::time::Instant::now();
        let mut i = a.shard;
        if let Some(c) = a.only_case {
            i = c;
        }
        while i < n || a.only_case.is_some() {
            if !ctx.skip.contains(&(s.name.to_string(), i)) {
                ctx.cur_case = i;
                CUR_CASE.store(i, Ordering::Relaxed);
                let mut rng = Rng::derive(a.seed, &format!("{}/{}", def.id, s.name), i);
                (s.run)(&mut ctx, &mut rng, i);
                executed += 1;
            }
            if a.only_case.is_some() {
                break;
            }
            i += a.nshards;
        }
        CUR_CASE.store(u64::MAX, Ordering::Relaxed);
        if s.exhaustive && a.only_case.is_none() {
            // recorded by name with the full size of the enumerated space (all shards together)
            ctx.exhaustive.entry(s.name.to_string()).or_insert(n);
        }
        let e = ctx.stream_stats.entry(s.name.to_string()).or_insert((0, 0));
        e.0 += executed;
        e.1 += t0.elapsed().as_millis() as u64;
    }
    // write summary + hashes
    if !a.out.is_empty() {
        let viols: Vec<Value> =
            ctx.viols.iter().map(|(k, v)| json!({"sig": k, "count": v.count, "first": v.first})).collect();
        let summary = json!({
            "prop": def.id, "cfg": ctx.cfg, "shard": a.shard, "nshards": a.nshards, "seed": a.seed,
            "tier": if a.tier == Tier::Quick {"quick"} else {"thorough"},
            "evals": ctx.evals, "buckets": ctx.buckets, "samples": ctx.samples,
            "violations": viols, "panics": ctx.panics, "exhaustive": ctx.exhaustive,
            "extra": Value::Object(ctx.extra.clone()),
            "streams": ctx.stream_stats.iter().map(|(k,v)| (k.clone(), json!({"executed": v.0, "ms": v.1}))).collect::<Map<String,Value>>(),
            "hash_overflow": ctx.hash_overflow,
            "rule": def.rule, "assumptions": def.assumptions,
            "floors": def.floors.iter().map(|(k,v)| (k.to_string(), json!(v))).collect::<Map<String,Value>>(),
            "wall_s": started.elapsed().as_secs_f64(),
            "done": true,
        });
        let mut hf = std::io::BufWriter::new(std::fs::File::create(format!("{}.hashes", a.out)).unwrap());
        for h in &ctx.hashes {
            hf.write_all(&h.to_le_bytes()).unwrap();
        }
        hf.flush().unwrap();
        let tmp = format!("{}.tmp", a.out);
        std::fs::write(&tmp, serde_json::to_vec(&summary).unwrap()).unwrap();
        std::fs::rename(&tmp, &a.out).unwrap();
    }
    ctx
}

/// count distinct u64s over a set of hash files
pub fn merge_hashes(files: &[String]) -> u64 {
    let mut all: Vec<u64> = Vec::new();
    for f in files {
        if let Ok(b) = std::fs::read(f) {
            for c in b.chunks_exact(8) {
                let mut a = [0u8; 8];
                a.copy_from_slice(c);
                all.push(u64::from_le_bytes(a));
            }
        }
    }
    all.sort_unstable();
    all.dedup();
    all.len() as u64
}

pub fn hx(b: &[u8]) -> String {
    vkit::codec::hex(b)
}
