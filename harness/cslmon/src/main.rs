mod fw;
mod gen;
mod props;
mod scen;

use fw::*;
use std::collections::HashSet;

fn usage() -> ! {
    eprintln!("usage: cslmon run <Cxx> --tier quick|thorough --seed N --shard i/n --out FILE [--skip s:i,..] [--scale F] [--stream S --case I]\n       cslmon merge FILE...\n       cslmon list");
    std::process::exit(64)
}

fn main() {
    let args: Vec<String> = std::env::args().collect();
    if args.len() < 2 {
        usage();
    }
    match args[1].as_str() {
        "list" => {
            for d in props::all() {
                let streams = (d.streams)();
                println!("{} {}", d.id, streams.iter().map(|s| s.name).collect::<Vec<_>>().join(","));
            }
        }
        "merge" => {
            println!("{}", merge_hashes(&args[2..].to_vec()));
        }
        "run" => {
            if args.len() < 3 {
                usage();
            }
            let id = args[2].clone();
            let mut a = RunArgs {
                tier: Tier::Quick,
                seed: 1,
                shard: 0,
                nshards: 1,
                out: String::new(),
                skip: HashSet::new(),
                scale: 1.0,
                only_stream: None,
                only_case: None,
            };
            let mut i = 3;
            while i < args.len() {
                let v = args.get(i + 1).cloned().unwrap_or_default();
                match args[i].as_str() {
                    "--tier" => a.tier = if v == "thorough" { Tier::Thorough } else { Tier::Quick },
                    "--seed" => a.seed = v.parse().unwrap_or(1),
                    "--shard" => {
                        let mut it = v.split('/');
                        a.shard = it.next().unwrap().parse().unwrap();
                        a.nshards = it.next().unwrap().parse().unwrap();
                    }
                    "--out" => a.out = v.clone(),
                    "--scale" => a.scale = v.parse().unwrap_or(1.0),
                    "--stream" => a.only_stream = Some(v.clone()),
                    "--case" => a.only_case = Some(v.parse().unwrap()),
                    "--skip" => {
                        for s in v.split(',') {
                            if let Some((st, ix)) = s.rsplit_once(':') {
                                a.skip.insert((st.to_string(), ix.parse().unwrap()));
                            }
                        }
                    }
                    _ => usage(),
                }
                i += 2;
            }
            let def = match props::all().into_iter().find(|d| d.id == id) {
                Some(d) => d,
                None => {
                    eprintln!("unknown property {}", id);
                    std::process::exit(64)
                }
            };
            install_panic_hook();
            if !a.out.is_empty() {
                install_crash_handler(&format!("{}.crash", a.out));
            }
            let replay = a.only_case.is_some();
            // run on a thread with the same stack size as a default main thread (8 MiB)
            let h = std::thread::Builder::new()
                .stack_size(8 << 20)
                .spawn(move || {
                    let ctx = run_prop(&def, a);
                    (ctx.viols.len(), ctx.evals)
                })
                .unwrap();
            let (nv, evals) = h.join().unwrap();
            if replay {
                println!("REPLAY-DONE evals={} violation_signatures={}", evals, nv);
            }
        }
        _ => usage(),
    }
}
