mod fw;
mod gen;
mod props;
mod scen;

use fw::*;
use std::collections::HashSet;

#[global_allocator]
static GLOBAL: fw::TrapAlloc = fw::TrapAlloc;

fn usage() -> ! {
    eprintln!("usage: cslmon run <Cxx> --tier quick|thorough --seed N --shard i/n --out FILE [--skip s:i,..] [--scale F] [--stream S --case I]\n       cslmon merge FILE...\n       cslmon list");
    std::process::exit(64)
}

fn main() {
    let args: Vec<String> = std::env::args().collect();
    if args.len() < 2 {
        usage();
    }
    match args[1].as_str() {
        "list" => {
            for d in props::all() {
                let streams = (d.streams)();
                println!("{} {}", d.id, streams.iter().map(|s| s.name).collect::<Vec<_>>().join(","));
            }
        }
        "selftest" => {
            // the oracles against a literal mainnet transaction taken from the repository's own tests
            let hexs = "84a700818258208b9c96823c19f2047f32210a330434b3d163e194ea17b2b702c0667f6fea7a7a000d80018182581d6138fe1dd1d91221a199ff0dacf41fdd5b87506b533d00e70fae8dae8f1abfbac06a021a0002b645031a03962de305a1581de1b3cabd3914ef99169ace1e8b545b635f809caa35f8b6c8bc69ae48061abf4009040e80a100828258207dc05ac55cdfb9cc24571d491d3a3bdbd7d48489a916d27fce3ffe5c9af1b7f55840d7eda8457f1814fe3333b7b1916e3b034e6d480f97f4f286b1443ef72383279718a3a3fddf127dae0505b01a48fd9ffe0f52d9d8c46d02bcb85d1d106c13aa048258201b3d6e1236891a921abf1a3f90a9fb1b2568b1096b6cd6d3eaaeb0ef0ee0802f58401ce4658303c3eb0f2b9705992ccd62de30423ade90219e2c4cfc9eb488c892ea28ba3110f0c062298447f4f6365499d97d31207075f9815c3fe530bd9a927402f5f6";
            let bytes = vkit::codec::unhex(hexs).unwrap();
            let lenient = vkit::cddl::Opts { legacy_ok: true, strict_output_assets: false, discipline: false, allow_empty_maps: true };
            let f = vkit::cddl::validate("transaction", &bytes, lenient).expect("well-formed");
            assert!(f.is_empty(), "literal transaction must satisfy the CDDL (lenient): {:?}", f);
            let strict = vkit::cddl::Opts { legacy_ok: false, strict_output_assets: true, discipline: true, allow_empty_maps: false };
            let f = vkit::cddl::validate("transaction", &bytes, strict).expect("well-formed");
            let clauses: Vec<&str> = f.iter().map(|x| x.clause).collect();
            assert!(clauses.contains(&"discipline/set-without-tag-258") && clauses.contains(&"card/nonempty-set-is-empty"), "validator must notice untagged and empty sets: {:?}", clauses);
            // ledger model: withdrawal 3208642825 + one unknown input; fee and outputs are read correctly
            let tx = vkit::ledger::Tx::parse(&bytes).unwrap();
            assert_eq!(tx.fee().unwrap(), 177_733);
            assert_eq!(tx.withdrawals().len(), 1);
            assert_eq!(tx.inputs().unwrap().len(), 1);
            assert_eq!(vkit::codec::hex(&tx.body_hash()).len(), 64);
            // the library agrees on the body hash (Blake2b-256 of the body span)
            let ft = cardano_serialization_lib::FixedTransaction::from_bytes(bytes.clone()).unwrap();
            assert_eq!(ft.transaction_hash().to_bytes(), tx.body_hash());
            println!("selftest ok");
        }
        "merge" => {
            println!("{}", merge_hashes(&args[2..].to_vec()));
        }
        "run" => {
            if args.len() < 3 {
                usage();
            }
            let id = args[2].clone();
            let mut a = RunArgs {
                tier: Tier::Quick,
                seed: 1,
                shard: 0,
                nshards: 1,
                out: String::new(),
                skip: HashSet::new(),
                scale: 1.0,
                only_stream: None,
                only_case: None,
            };
            let mut i = 3;
            while i < args.len() {
                let v = args.get(i + 1).cloned().unwrap_or_default();
                match args[i].as_str() {
                    "--tier" => a.tier = if v == "thorough" { Tier::Thorough } else { Tier::Quick },
                    "--seed" => a.seed = v.parse().unwrap_or(1),
                    "--shard" => {
                        let mut it = v.split('/');
                        a.shard = it.next().unwrap().parse().unwrap();
                        a.nshards = it.next().unwrap().parse().unwrap();
                    }
                    "--out" => a.out = v.clone(),
                    "--scale" => a.scale = v.parse().unwrap_or(1.0),
                    "--stream" => a.only_stream = Some(v.clone()),
                    "--case" => a.only_case = Some(v.parse().unwrap()),
                    "--skip" => {
                        for s in v.split(',') {
                            if let Some((st, ix)) = s.rsplit_once(':') {
                                a.skip.insert((st.to_string(), ix.parse().unwrap()));
                            }
                        }
                    }
                    _ => usage(),
                }
                i += 2;
            }
            let def = match props::all().into_iter().find(|d| d.id == id) {
                Some(d) => d,
                None => {
                    eprintln!("unknown property {}", id);
                    std::process::exit(64)
                }
            };
            install_panic_hook();
            if !a.out.is_empty() {
                install_crash_handler(&format!("{}.crash", a.out));
            }
            let replay = a.only_case.is_some();
            // run on a thread with the same stack size as a default main thread (8 MiB)
            let h = std::thread::Builder::new()
                .stack_size(8 << 20)
                .spawn(move || {
                    let ctx = run_prop(&def, a);
                    (ctx.viols.len(), ctx.evals)
                })
                .unwrap();
            let (nv, evals) = h.join().unwrap();
            if replay {
                println!("REPLAY-DONE evals={} violation_signatures={}", evals, nv);
            }
        }
        _ => usage(),
    }
}
