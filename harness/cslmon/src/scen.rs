//! Builder scenario engine: seed-derived histories of public TransactionBuilder calls, executed
//! against the real builder, with a scenario-side UTxO table (vkit::ledger types) that the oracles
//! use. Every key hash that must sign belongs to a key ring owned by the harness, so built
//! transactions can really be signed.

use crate::fw::*;
use cardano_serialization_lib as csl;
use csl::*;
use std::collections::BTreeMap;
use vkit::ledger::{Params, UtxoEntry, Val};
use vkit::rng::Rng;

pub struct KeyEnt {
    pub sk: PrivateKey,
    pub pk: PublicKey,
    pub hash: Ed25519KeyHash,
}
pub struct ByronEnt {
    pub xprv: Bip32PrivateKey,
    pub addr: ByronAddress,
}
pub struct KeyRing {
    pub keys: Vec<KeyEnt>,
    pub byron: Vec<ByronEnt>,
    pub natives: Vec<NativeScript>,
    pub plutus: Vec<PlutusScript>,
}

impl KeyRing {
    pub fn new() -> KeyRing {
        let mut keys = vec![];
        for i in 0..24u8 {
            let mut seed = [0u8; 32];
            for (j, b) in seed.iter_mut().enumerate() {
                *b = i.wrapping_mul(37).wrapping_add(j as u8).wrapping_add(11);
            }
            let sk = PrivateKey::from_normal_bytes(&seed).unwrap();
            let pk = sk.to_public();
            let hash = pk.hash();
            keys.push(KeyEnt { sk, pk, hash });
        }
        let root = Bip32PrivateKey::from_bip39_entropy(&[7u8; 32], &[]);
        let mut byron = vec![];
        for i in 0..4u32 {
            let xprv = root.derive(0x8000_0000 + 44).derive(0x8000_0000 + 1815).derive(0x8000_0000).derive(0).derive(i);
            let magic = if i % 2 == 0 { 764824073 } else { 1097911063 };
            let addr = ByronAddress::icarus_from_key(&xprv.to_public(), magic);
            byron.push(ByronEnt { xprv, addr });
        }
        // Daedalus-style addresses of the same kind of key: an encrypted derivation path among the
        // attributes makes address and bootstrap witness ~34 bytes longer (built with the independent writer)
        for i in 4..6u32 {
            use vkit::cbor as vc;
            let xprv = root.derive(0x8000_0000 + 44).derive(0x8000_0000 + 1815).derive(0x8000_0000).derive(0).derive(i);
            let root28 = xprv.to_public().to_raw_key().hash().to_bytes();
            let payload = vc::to_vec(&vc::Item::bytes(&[0x5a + i as u8; 28]));
            let mut entries = vec![(vc::Item::u(1), vc::Item::bytes(&payload))];
            if i == 5 {
                entries.push((vc::Item::u(2), vc::Item::bytes(&vc::to_vec(&vc::Item::u(1097911063)))));
            }
            let inner = vc::to_vec(&vc::Item::arr(vec![vc::Item::bytes(&root28), vc::Item::map(entries), vc::Item::u(0)]));
            let outer = vc::to_vec(&vc::Item::arr(vec![vc::Item::tag(24, vc::Item::bytes(&inner)), vc::Item::u(vkit::codec::crc32(&inner) as u64)]));
            let addr = ByronAddress::from_bytes(outer).expect("hand-built Byron address");
            byron.push(ByronEnt { xprv, addr });
        }
        let kh = |i: usize| keys[i].hash.clone();
        let pubkey = |i: usize| NativeScript::new_script_pubkey(&ScriptPubkey::new(&kh(i)));
        let list = |xs: Vec<NativeScript>| {
            let mut l = NativeScripts::new();
            for x in xs {
                l.add(&x);
            }
            l
        };
        let natives = vec![
            pubkey(0),
            NativeScript::new_script_all(&ScriptAll::new(&list(vec![pubkey(1), pubkey(2)]))),
            NativeScript::new_script_any(&ScriptAny::new(&list(vec![pubkey(3), NativeScript::new_timelock_start(&TimelockStart::new_timelockstart(&BigNum::from(5u64)))]))),
            NativeScript::new_script_n_of_k(&ScriptNOfK::new(1, &list(vec![pubkey(4), pubkey(5)]))),
            NativeScript::new_timelock_start(&TimelockStart::new_timelockstart(&BigNum::from(7u64))),
            NativeScript::new_script_all(&ScriptAll::new(&list(vec![pubkey(0), pubkey(6)]))),
            NativeScript::new_timelock_expiry(&TimelockExpiry::new_timelockexpiry(&BigNum::from(1u64 << 40))),
            pubkey(7),
        ];
        let mut plutus = vec![];
        for (i, len) in [10usize, 70, 33, 200, 64, 129, 5, 300, 1].iter().enumerate() {
            let bytes: Vec<u8> = (0..*len).map(|j| (j as u8).wrapping_mul(3).wrapping_add(i as u8)).collect();
            let lang = match i % 3 {
                0 => Language::new_plutus_v1(),
                1 => Language::new_plutus_v2(),
                _ => Language::new_plutus_v3(),
            };
            plutus.push(PlutusScript::new_with_version(bytes, &lang));
        }
        // the same compiled program under another language version is another script (another hash)
        let twin_a = PlutusScript::new_with_version(plutus[0].bytes(), &Language::new_plutus_v2());
        let twin_b = PlutusScript::new_with_version(plutus[1].bytes(), &Language::new_plutus_v3());
        plutus.push(twin_a);
        plutus.push(twin_b);
        KeyRing { keys, byron, natives, plutus }
    }
    pub fn find_key(&self, hash: &[u8]) -> Option<&KeyEnt> {
        self.keys.iter().find(|k| k.hash.to_bytes() == hash)
    }
    pub fn find_byron(&self, addr: &[u8]) -> Option<&ByronEnt> {
        self.byron.iter().find(|b| b.addr.to_bytes() == addr)
    }
}

#[derive(Clone, Debug, PartialEq)]
pub enum ItemId {
    Input(Vec<u8>, u64),
    Policy(Vec<u8>),
    /// CBOR bytes of the certificate
    Cert(Vec<u8>),
    /// reward account bytes
    Reward(Vec<u8>),
    /// CBOR bytes of the voter
    Voter(Vec<u8>),
    /// CBOR bytes of the proposal
    Proposal(Vec<u8>),
}

#[derive(Clone, Debug)]
pub struct Marker {
    pub marker: u64,
    pub purpose: u64,
    pub item: ItemId,
    pub script_hash: Vec<u8>,
}

#[derive(Clone, Copy, Debug, PartialEq)]
pub enum FeeMode {
    Unspecified,
    MinFee(u64),
    Exact(u64),
}

#[derive(Clone, Copy, Debug, PartialEq)]
pub enum Balance {
    AddChange,
    AddChangeWithDatum,
    InputsFromThenChange(u8),
    InputsFromAndChange(u8),
    InputsFromAndChangeWithCollateralReturn(u8, u64),
}

/// knobs a property stream can set to steer generation
#[derive(Clone, Debug)]
pub struct Focus {
    pub plutus: u64,      // probability /16 that plutus items are used
    pub scripts: u64,     // probability /16 for native-script items
    pub certs: u64,       // /16
    pub withdrawals: u64, // /16
    pub votes: u64,
    pub proposals: u64,
    pub mint: u64,
    pub assets: u64,
    pub byron: u64,
    pub refs: u64,
    pub overlap: u64, // probability /16 to reuse key 0..3 instead of a fresh one
    pub coin_select: u64,
    pub small_limits: u64, // tiny max_value_size / max_tx_size
    pub collateral_helpers: u64,
    pub many_assets: u64,
    /// force this maximum transaction size (the "squeeze" workload of C07)
    pub max_tx_size: Option<u64>,
    /// make the first explicit key input this many lovelace poorer (the "tuned change" workloads)
    pub tune_first_key_input: Option<i128>,
}

impl Default for Focus {
    fn default() -> Focus {
        Focus { plutus: 5, scripts: 4, certs: 6, withdrawals: 5, votes: 3, proposals: 3, mint: 5, assets: 6, byron: 3, refs: 4, overlap: 6, coin_select: 6, small_limits: 3, collateral_helpers: 4, many_assets: 2, max_tx_size: None, tune_first_key_input: None }
    }
}

pub struct Outcome {
    pub params: Params,
    pub utxos: Vec<UtxoEntry>,
    pub builder: TransactionBuilder,
    pub balance: Balance,
    pub balance_result: Result<String, String>,
    pub build_result: Result<Transaction, String>,
    pub tx_bytes: Option<Vec<u8>>,
    pub markers: Vec<Marker>,
    pub log: Vec<String>,
    pub fee_mode: FeeMode,
    /// the fee request in force when balancing ran was a fixed fee (a later request may have replaced it)
    pub fee_fixed_at_balancing: bool,
    /// cost models handed to calc_script_data_hash: language tag (1,2,3) -> costs
    pub cost_models: Option<BTreeMap<u8, Vec<i128>>>,
    pub script_hash_called_last: bool,
    /// indices into utxos of the UTxOs offered to coin selection
    pub offered: Vec<usize>,
    /// outpoints present in the builder before the balancing call
    pub pre_inputs: Vec<(Vec<u8>, u64)>,
    pub change_addr: Vec<u8>,
    /// ref scripts declared: script hash -> (ref input outpoint)
    pub declared_refs: Vec<(Vec<u8>, (Vec<u8>, u64))>,
    /// panics observed while executing ops (not refuting for 'whenever the builder reports success')
    pub panics: Vec<PanicRec>,
    pub collateral_op: Option<(String, Result<(), String>)>,
    pub builder_before_balance: Option<TransactionBuilder>,
    /// key hashes the caller declared as additional signers on the inputs builder
    pub extra_signers: Vec<Vec<u8>>,
    /// some input was first registered with a Plutus witness and then re-registered as a key input
    pub superseded: bool,
    /// the tuning of the first key input was applied
    pub tuned: bool,
    /// a script data hash was computed while a later-corrected Plutus registration was in place
    pub interim_hash: bool,
    /// key hashes declared (set_required_signers) for native scripts supplied through reference inputs
    pub declared_signers: Vec<Vec<u8>>,
    /// every script use carries the same unit redeemer (no markers: uses are told apart by pointer only)
    pub unit_redeemers: bool,
    /// (Plutus input, the reference input declared to carry its datum)
    pub datum_refs: Vec<((Vec<u8>, u64), (Vec<u8>, u64))>,
    /// certificates in the order of their first successful registration
    pub cert_order: Vec<Vec<u8>>,
    /// the caller supplied a datum as bytes in a spelling the library itself would not choose (kept verbatim)
    pub verbatim_datums: bool,
    /// the builder's inputs at the time calc_script_data_hash was called
    pub inputs_at_hash_time: Option<Vec<(Vec<u8>, u64)>>,
}

pub struct Scn<'a> {
    /// the key the last Plutus source newly declared (withdrawn again when its item is refused)
    pub last_declared: Option<Vec<u8>>,
    pub r: &'a mut Rng,
    pub ring: &'a KeyRing,
    pub f: Focus,
    pub utxos: Vec<UtxoEntry>,
    pub log: Vec<String>,
    pub markers: Vec<Marker>,
    pub next_marker: u64,
    pub next_tx: u64,
    pub declared_refs: Vec<(Vec<u8>, (Vec<u8>, u64))>,
    pub net: u8,
    pub used_langs: Vec<u8>,
    pub panics: Vec<PanicRec>,
    pub extra_signers: Vec<Vec<u8>>,
    /// some input was first registered with a Plutus witness and then re-registered as a key input
    pub superseded: bool,
    /// the tuning of the first key input was applied
    pub tuned: bool,
    /// a script data hash was computed while a later-corrected Plutus registration was in place
    pub interim_hash: bool,
    /// key hashes declared (set_required_signers) for native scripts supplied through reference inputs
    pub declared_signers: Vec<Vec<u8>>,
    /// every script use carries the same unit redeemer (no markers: uses are told apart by pointer only)
    pub unit_redeemers: bool,
    /// (Plutus input, the reference input declared to carry its datum)
    pub datum_refs: Vec<((Vec<u8>, u64), (Vec<u8>, u64))>,
    /// certificates in the order of their first successful registration
    pub cert_order: Vec<Vec<u8>>,
    /// the caller supplied a datum as bytes in a spelling the library itself would not choose (kept verbatim)
    pub verbatim_datums: bool,
}

pub fn val_to_csl(v: &Val) -> Value {
    let mut ma = MultiAsset::new();
    for ((p, n), q) in &v.assets {
        if *q > 0 {
            ma.set_asset(&ScriptHash::from_bytes(p.clone()).unwrap(), &AssetName::new(n.clone()).unwrap(), &BigNum::from(*q as u64));
        }
    }
    let coin = BigNum::from(v.coin.max(0) as u64);
    if ma.len() == 0 {
        Value::new(&coin)
    } else {
        Value::new_with_assets(&coin, &ma)
    }
}

impl<'a> Scn<'a> {
    pub fn new(r: &'a mut Rng, ring: &'a KeyRing, f: Focus) -> Scn<'a> {
        let net = r.below(2) as u8;
        Scn { r, ring, f, utxos: vec![], log: vec![], markers: vec![], next_marker: 1000, next_tx: 1, declared_refs: vec![], net, used_langs: vec![], panics: vec![], extra_signers: vec![], superseded: false, tuned: false, last_declared: None, interim_hash: false, declared_signers: vec![], unit_redeemers: false, datum_refs: vec![], cert_order: vec![], verbatim_datums: false }
    }
    fn p(&mut self, num: u64) -> bool {
        self.r.below(16) < num
    }
    pub fn key_ix(&mut self) -> usize {
        if self.p(self.f.overlap) {
            self.r.usize(4)
        } else {
            8 + self.r.usize(self.ring.keys.len() - 8)
        }
    }
    fn fresh_outpoint(&mut self) -> (Vec<u8>, u64) {
        let mut id = vec![0u8; 32];
        let k = self.next_tx;
        self.next_tx += 1;
        // ids in an order unrelated to creation order
        let h = vkit::rng::fnv64(&k.to_le_bytes());
        id[..8].copy_from_slice(&h.to_be_bytes());
        id[31] = k as u8;
        let ix = match self.r.below(4) {
            0 => 0,
            1 => self.r.below(3),
            2 => 255 + self.r.below(3),
            _ => self.r.below(40),
        };
        (id, ix)
    }
    pub fn tx_input(o: &(Vec<u8>, u64)) -> TransactionInput {
        TransactionInput::new(&TransactionHash::from_bytes(o.0.clone()).unwrap(), o.1 as u32)
    }
    pub fn key_address(&mut self, k: usize) -> Address {
        let pay = Credential::from_keyhash(&self.ring.keys[k].hash);
        match self.r.below(4) {
            0 => EnterpriseAddress::new(self.net, &pay).to_address(),
            1 => {
                let st = Credential::from_keyhash(&self.ring.keys[self.r.usize(self.ring.keys.len())].hash);
                BaseAddress::new(self.net, &pay, &st).to_address()
            }
            2 => PointerAddress::new(self.net, &pay, &Pointer::new_pointer(&BigNum::from(self.r.below(1 << 20)), &BigNum::from(self.r.below(300)), &BigNum::from(self.r.below(4)))).to_address(),
            _ => BaseAddress::new(self.net, &pay, &Credential::from_scripthash(&self.ring.natives[0].hash())).to_address(),
        }
    }
    pub fn script_address(&mut self, h: &ScriptHash) -> Address {
        let pay = Credential::from_scripthash(h);
        if self.r.bool() {
            EnterpriseAddress::new(self.net, &pay).to_address()
        } else {
            let st = Credential::from_keyhash(&self.ring.keys[self.r.usize(self.ring.keys.len())].hash);
            BaseAddress::new(self.net, &pay, &st).to_address()
        }
    }
    pub fn ada(&mut self) -> u64 {
        match self.r.below(8) {
            0 => 1_000_000 + self.r.below(1_000_000),
            1 => 2_000_000 + self.r.below(100_000_000),
            2 => 65_536u64.wrapping_mul(16 + self.r.below(1000)),
            3 => (1u64 << 32) + self.r.below(1 << 20) - (1 << 19),
            4 => 5_000_000_000 + self.r.below(5_000_000_000),
            _ => 1_500_000 + self.r.below(20_000_000),
        }
    }
    pub fn asset_id(&mut self) -> (Vec<u8>, Vec<u8>) {
        let p = vec![0xa0 + self.r.below(3) as u8; 28];
        let n = match self.r.below(4) {
            0 => vec![],
            1 => vec![0x41; 32],
            _ => vec![0x61 + self.r.below(4) as u8],
        };
        (p, n)
    }
    pub fn gen_val(&mut self, with_assets: bool) -> Val {
        let mut v = Val::coin(self.ada());
        if with_assets {
            let n = if self.p(self.f.many_assets) { 20 + self.r.below(60) } else { 1 + self.r.below(3) };
            for i in 0..n {
                let id = if n > 4 { (vec![0xb0 + (i / 8) as u8; 28], vec![0x30 + (i % 8) as u8; 1 + (i % 5) as usize * 6]) } else { self.asset_id() };
                let q = match self.r.below(4) {
                    0 => 1,
                    1 => 1 + self.r.below(1 << 20),
                    2 => (1 << 32) + self.r.below(100),
                    _ => 1 + self.r.below(1000),
                };
                v.add_asset(id, q as i128);
            }
        }
        v
    }
    /// register a new UTxO in the scenario table
    pub fn new_utxo(&mut self, addr: &Address, val: Val) -> usize {
        let (txid, ix) = self.fresh_outpoint();
        self.utxos.push(UtxoEntry { txid, ix, addr: addr.to_bytes(), val, ref_script_size: 0, ref_script_hash: None, datum_hash: None, inline_datum: false });
        self.utxos.len() - 1
    }
    pub fn outpoint(&self, i: usize) -> (Vec<u8>, u64) {
        (self.utxos[i].txid.clone(), self.utxos[i].ix)
    }
    pub fn csl_utxo(&self, i: usize, datum: Option<&PlutusData>, script_ref: Option<&ScriptRef>) -> TransactionUnspentOutput {
        let u = &self.utxos[i];
        let mut out = TransactionOutput::new(&Address::from_bytes(u.addr.clone()).unwrap(), &val_to_csl(&u.val));
        if let Some(d) = datum {
            if u.inline_datum {
                out.set_plutus_data(d);
            } else {
                out.set_data_hash(&hash_plutus_data(d));
            }
        }
        if let Some(s) = script_ref {
            out.set_script_ref(s);
        }
        TransactionUnspentOutput::new(&Self::tx_input(&(u.txid.clone(), u.ix)), &out)
    }
    /// now and then a caller's bookkeeping lists a token it no longer holds: a zero quantity, or a policy with
    /// no asset under it. The value is the same value
    pub fn sloppy(&mut self, v: Value) -> Value {
        if self.r.below(24) != 0 {
            return v;
        }
        let mut ma = v.multiasset().unwrap_or(MultiAsset::new());
        let pol = ScriptHash::from_bytes(vec![0xEE; 28]).unwrap();
        if self.r.bool() {
            let mut a = Assets::new();
            a.insert(&AssetName::new(vec![0x7a]).unwrap(), &BigNum::from(0u64));
            ma.insert(&pol, &a);
            self.log.push("(the next input's value lists a token with quantity 0)".into());
        } else {
            ma.insert(&pol, &Assets::new());
            self.log.push("(the next input's value lists a policy with no asset under it)".into());
        }
        Value::new_with_assets(&v.coin(), &ma)
    }
    /// now and then the UTxO `i` itself carries a script nobody needs: spending it is charged the
    /// reference-script fee exactly like a reference input (ledger: inputs and reference inputs together)
    pub fn carried_script(&mut self, i: usize) -> Option<ScriptRef> {
        if !(self.p(self.f.refs) && self.r.bool()) {
            return None;
        }
        let sref = if self.r.below(4) == 0 {
            let ns = NativeScript::new_timelock_start(&TimelockStart::new_timelockstart(&BigNum::from(1_000 + self.r.below(1 << 40))));
            self.utxos[i].ref_script_size = ns.to_bytes().len() as u64;
            ScriptRef::new_native_script(&ns)
        } else {
            let n = 20 + self.r.usize(900);
            let bytes = self.r.bytes(n);
            let ps = match self.r.below(3) {
                0 => PlutusScript::new(bytes),
                1 => PlutusScript::new_v2(bytes),
                _ => PlutusScript::new_v3(bytes),
            };
            self.utxos[i].ref_script_size = ps.bytes().len() as u64;
            ScriptRef::new_plutus_script(&ps)
        };
        self.log.push(format!("utxo {}#{} carries a script of {} bytes", hx(&self.utxos[i].txid[..4]), self.utxos[i].ix, self.utxos[i].ref_script_size));
        Some(sref)
    }
    pub fn marker_data(&mut self) -> (u64, PlutusData) {
        let m = self.next_marker;
        self.next_marker += 1;
        let d = match self.r.below(3) {
            0 => PlutusData::new_integer(&BigInt::from_str(&m.to_string()).unwrap()),
            1 => {
                let mut l = PlutusList::new();
                l.add(&PlutusData::new_integer(&BigInt::from_str(&m.to_string()).unwrap()));
                PlutusData::new_list(&l)
            }
            _ => PlutusData::new_single_value_constr_plutus_data(&BigNum::from(self.r.below(3)), &PlutusData::new_integer(&BigInt::from_str(&m.to_string()).unwrap())),
        };
        (m, d)
    }
    pub fn redeemer(&mut self, tag: RedeemerTag) -> (u64, Redeemer) {
        if self.unit_redeemers {
            // the same "unit" redeemer and budget for every script use of the transaction: what tells two
            // uses apart is their purpose and position only
            let d = PlutusData::new_empty_constr_plutus_data(&BigNum::from(0u64));
            let eu = ExUnits::new(&BigNum::from(1_000u64), &BigNum::from(2_000_000u64));
            return (u64::MAX, Redeemer::new(&tag, &BigNum::from(0u64), &d, &eu));
        }
        let (m, d) = self.marker_data();
        let eu = ExUnits::new(&BigNum::from(self.r.below(2_000_000)), &BigNum::from(self.r.below(900_000_000)));
        // the index given here is a placeholder the builder must replace
        (m, Redeemer::new(&tag, &BigNum::from(self.r.below(3)), &d, &eu))
    }
    fn lang_tag(l: &Language) -> u8 {
        match l.kind() {
            LanguageKind::PlutusV1 => 1,
            LanguageKind::PlutusV2 => 2,
            LanguageKind::PlutusV3 => 3,
        }
    }
    /// a plutus script source: inline or through a declared reference input carrying the script; now and then
    /// the caller declares a key the script will ask a signature of (it signs, so it is sized and paid for)
    pub fn plutus_source(&mut self, script_ix: usize) -> PlutusScriptSource {
        let mut src = self.plutus_source_plain(script_ix);
        // a later refusal withdraws the declaration of ITS source only
        self.last_declared = None;
        if self.p(3) {
            let k = self.key_ix();
            let kh = self.ring.keys[k].hash.clone();
            let mut ks = Ed25519KeyHashes::new();
            ks.add(&kh);
            src.set_required_signers(&ks);
            let b = kh.to_bytes();
            self.last_declared = None;
            if !self.extra_signers.contains(&b) {
                self.extra_signers.push(b.clone());
                self.last_declared = Some(b);
            }
            self.log.push(format!("plutus source declares signer key{}", k));
        }
        src
    }
    /// the item the last Plutus source was made for was refused: what it declared does not count
    pub fn undo_last_declared(&mut self) {
        if let Some(b) = self.last_declared.take() {
            self.extra_signers.retain(|x| *x != b);
            self.log.push("(the declaration of the refused item is withdrawn)".into());
        }
    }
    fn plutus_source_plain(&mut self, script_ix: usize) -> PlutusScriptSource {
        let s = self.ring.plutus[script_ix].clone();
        let lt = Self::lang_tag(&s.language_version());
        if !self.used_langs.contains(&lt) {
            self.used_langs.push(lt);
        }
        let h = s.hash().to_bytes();
        // one manner per script hash per scenario
        if let Some((_, o)) = self.declared_refs.iter().find(|(hh, _)| *hh == h) {
            let o = o.clone();
            let size = self.ref_size_for(&o);
            return PlutusScriptSource::new_ref_input(&s.hash(), &Self::tx_input(&o), &s.language_version(), size);
        }
        let already_inline = self.log.iter().any(|l| l.contains(&format!("inline-script {}", hx(&h))));
        if !already_inline && self.p(self.f.refs) {
            let k = self.key_ix();
            let addr = self.key_address(k);
            let v = self.gen_val(false);
            let i = self.new_utxo(&addr, v);
            let sref = ScriptRef::new_plutus_script(&s);
            let declared = sref.to_bytes().len(); // any consistent size works for the builder; the table keeps the inner size
            let _ = declared;
            self.utxos[i].ref_script_size = s.bytes().len() as u64;
            self.utxos[i].ref_script_hash = Some(h.clone());
            let o = self.outpoint(i);
            self.declared_refs.push((h.clone(), o.clone()));
            let size = self.ref_size_for(&o);
            self.log.push(format!("ref-script {} at {}#{} size {}", hx(&h), hx(&o.0), o.1, size));
            PlutusScriptSource::new_ref_input(&s.hash(), &Self::tx_input(&o), &s.language_version(), size)
        } else {
            self.log.push(format!("inline-script {}", hx(&h)));
            PlutusScriptSource::new(&s)
        }
    }
    /// the script size a caller would declare for a reference input: the size of the unwrapped script_ref bytes
    fn ref_size_for(&self, o: &(Vec<u8>, u64)) -> usize {
        let u = self.utxos.iter().find(|u| u.txid == o.0 && u.ix == o.1).unwrap();
        // declared as the library itself would compute it for an output carrying the script
        (u.ref_script_size as usize) + 4
    }
    /// the signers a caller declares for a native script behind a reference input: all its keys, or - every
    /// use of the script may declare its own - just one of them (enough for an "any" / "at least 1" script)
    fn declare_signers(&mut self, s: &NativeScript, partial_ok: bool) -> Ed25519KeyHashes {
        let all = Ed25519KeyHashes::from(s);
        let mut out = Ed25519KeyHashes::new();
        if partial_ok && all.len() >= 2 && self.p(8) {
            out.add(&all.get(self.r.usize(all.len())));
        } else {
            for i in 0..all.len() {
                out.add(&all.get(i));
            }
        }
        for i in 0..out.len() {
            let b = out.get(i).to_bytes();
            if !self.declared_signers.contains(&b) {
                self.declared_signers.push(b);
            }
        }
        out
    }
    pub fn native_source(&mut self, script_ix: usize) -> NativeScriptSource {
        self.native_source_ex(script_ix, false)
    }
    /// `partial_ok`: this use may declare only one of the script's keys (inputs: every input keeps its own
    /// witness, the declarations of all inputs of one script add up)
    pub fn native_source_ex(&mut self, script_ix: usize, partial_ok: bool) -> NativeScriptSource {
        let s = self.ring.natives[script_ix].clone();
        let h = s.hash().to_bytes();
        if let Some((_, o)) = self.declared_refs.iter().find(|(hh, _)| *hh == h) {
            let o = o.clone();
            let size = self.ref_size_for(&o);
            let mut src = NativeScriptSource::new_ref_input(&s.hash(), &Self::tx_input(&o), size);
            let declared = self.declare_signers(&s, partial_ok);
            src.set_required_signers(&declared);
            return src;
        }
        let already_inline = self.log.iter().any(|l| l.contains(&format!("inline-script {}", hx(&h))));
        if !already_inline && self.p(self.f.refs) {
            let k = self.key_ix();
            let addr = self.key_address(k);
            let v = self.gen_val(false);
            let i = self.new_utxo(&addr, v);
            self.utxos[i].ref_script_size = s.to_bytes().len() as u64;
            self.utxos[i].ref_script_hash = Some(h.clone());
            let o = self.outpoint(i);
            self.declared_refs.push((h.clone(), o.clone()));
            let size = self.ref_size_for(&o);
            self.log.push(format!("ref-script {} at {}#{} size {}", hx(&h), hx(&o.0), o.1, size));
            let mut src = NativeScriptSource::new_ref_input(&s.hash(), &Self::tx_input(&o), size);
            let declared = self.declare_signers(&s, partial_ok);
            src.set_required_signers(&declared);
            src
        } else {
            self.log.push(format!("inline-script {}", hx(&h)));
            NativeScriptSource::new(&s)
        }
    }
    /// plutus witness for a non-spending purpose
    pub fn plutus_witness_nodatum(&mut self, script_ix: usize, tag: RedeemerTag) -> (u64, PlutusWitness) {
        let src = self.plutus_source(script_ix);
        let (m, red) = self.redeemer(tag);
        (m, PlutusWitness::new_with_ref_without_datum(&src, &red))
    }
}

// ------------------------------------------------------------------------------------------------ scenario execution

fn ok_str<T>(r: &Result<T, JsError>) -> String {
    match r {
        Ok(_) => "Ok".into(),
        Err(e) => format!("Err({:?})", e),
    }
}

pub fn gen_params(r: &mut Rng, f: &Focus) -> Params {
    let (fee_a, fee_b) = match r.below(8) {
        0 => (0, 0),
        1 => (1, 0),
        2 => (44, 155_381),
        3 => (500, 2_000_000),
        _ => (44, 155_381),
    };
    let cpb = match r.below(8) {
        0 => 0,
        1 => 1,
        2 => 34_482,
        _ => 4_310,
    };
    let small = r.below(16) < f.small_limits;
    Params {
        fee_a,
        fee_b,
        key_deposit: *r.pick(&[2_000_000u64, 0, 1, 400_000]),
        pool_deposit: *r.pick(&[500_000_000u64, 0, 1_000_000]),
        coins_per_byte: cpb,
        max_value_size: if small { 100 + r.below(400) } else { 5000 },
        max_tx_size: {
            let m = if small && r.bool() { 600 + r.below(3000) } else { 16_384 };
            f.max_tx_size.unwrap_or(m)
        },
        ex_prices: Some(((577, 10_000), (721, 10_000_000))),
        ref_script_price: Some(*r.pick(&[(15u64, 1u64), (0, 1), (1, 3)])),
    }
}

pub fn make_config(p: &Params, r: &mut Rng) -> (TransactionBuilderConfig, (bool, bool, bool)) {
    let flags = (r.below(4) == 0, r.below(4) == 0, r.below(5) == 0);
    let mut b = TransactionBuilderConfigBuilder::new()
        .fee_algo(&LinearFee::new(&BigNum::from(p.fee_a), &BigNum::from(p.fee_b)))
        .pool_deposit(&BigNum::from(p.pool_deposit))
        .key_deposit(&BigNum::from(p.key_deposit))
        .max_value_size(p.max_value_size as u32)
        .max_tx_size(p.max_tx_size as u32)
        .coins_per_utxo_byte(&BigNum::from(p.coins_per_byte))
        .prefer_pure_change(flags.0)
        .deduplicate_explicit_ref_inputs_with_regular_inputs(flags.1)
        .do_not_burn_extra_change(flags.2);
    if let Some(((mn, md), (sn, sd))) = p.ex_prices {
        b = b.ex_unit_prices(&ExUnitPrices::new(&UnitInterval::new(&BigNum::from(mn), &BigNum::from(md)), &UnitInterval::new(&BigNum::from(sn), &BigNum::from(sd))));
    }
    if let Some((n, d)) = p.ref_script_price {
        b = b.ref_script_coins_per_byte(&UnitInterval::new(&BigNum::from(n), &BigNum::from(d)));
    }
    (b.build().unwrap(), flags)
}

fn strategy(k: u8) -> CoinSelectionStrategyCIP2 {
    match k % 4 {
        0 => CoinSelectionStrategyCIP2::LargestFirst,
        1 => CoinSelectionStrategyCIP2::RandomImprove,
        2 => CoinSelectionStrategyCIP2::LargestFirstMultiAsset,
        _ => CoinSelectionStrategyCIP2::RandomImproveMultiAsset,
    }
}

pub fn cost_models_for(langs: &[u8], r: &mut Rng) -> (Costmdls, BTreeMap<u8, Vec<i128>>) {
    let mut cm = Costmdls::new();
    let mut model = BTreeMap::new();
    // always supply all three languages (the builder retains the ones in use)
    for l in [1u8, 2, 3] {
        if !langs.contains(&l) && r.bool() {
            continue;
        }
        let n = match l {
            1 => 6 + r.usize(4),
            2 => 5 + r.usize(4),
            _ => 4 + r.usize(4),
        };
        let mut c = CostModel::new();
        let mut costs = vec![];
        for i in 0..n {
            let v = r.below(1 << 30) as i128;
            let neg = r.below(9) == 0;
            let x = if neg { Int::new_negative(&BigNum::from(v.max(1) as u64)) } else { Int::new(&BigNum::from(v as u64)) };
            let _ = c.set(i, &x);
            costs.push(if neg { -(v.max(1)) } else { v });
        }
        let lang = match l {
            1 => Language::new_plutus_v1(),
            2 => Language::new_plutus_v2(),
            _ => Language::new_plutus_v3(),
        };
        cm.insert(&lang, &c);
        model.insert(l, costs);
    }
    (cm, model)
}

/// Generate and execute one scenario. Returns None when the scenario could not even be set up.
pub fn run_scenario(r: &mut Rng, ring: &KeyRing, f: Focus) -> Option<Outcome> {
    let params = gen_params(r, &f);
    let (cfg, _flags) = make_config(&params, r);
    let mut s = Scn::new(r, ring, f.clone());
    s.unit_redeemers = s.p(2);
    let mut tb = TransactionBuilder::new(&cfg);
    let mut inputs_b = TxInputsBuilder::new();
    let change_k = s.key_ix();
    let change_addr = s.key_address(change_k);

    // needs accumulated so that inputs can be sized to cover them
    let mut need_coin: u128 = 0;
    let mut need_assets: BTreeMap<(Vec<u8>, Vec<u8>), i128> = BTreeMap::new();
    let mut have_coin: u128 = 0;
    let mut any_plutus = false;

    macro_rules! g {
        ($s:expr, $name:expr, $e:expr) => {{
            match guard(|| $e) {
                Ok(v) => Some(v),
                Err(p) => {
                    $s.log.push(format!("{} -> PANIC {}", $name, p.msg));
                    $s.panics.push(p);
                    None
                }
            }
        }};
    }

    // ---------------------------------------------------------------- outputs
    let n_out = match s.r.below(6) {
        0 => 0,
        1 | 2 => 1,
        3 => 2,
        _ => 1 + s.r.below(4),
    };
    for _ in 0..n_out {
        let with_assets = s.p(s.f.assets);
        let k = s.key_ix();
        let addr = if s.p(2) { ring.byron[s.r.usize(ring.byron.len())].addr.to_address() } else { s.key_address(k) };
        let mut v = s.gen_val(with_assets);
        let mut out = TransactionOutput::new(&addr, &val_to_csl(&v));
        // now and then the caller spells an ADA-only amount with a bundle that lists a policy with nothing under
        // it: the same amount, and what the transaction carries is the bare coin
        let hollow = v.assets.is_empty() && s.p(1);
        if hollow {
            let mut ma = MultiAsset::new();
            ma.insert(&ScriptHash::from_bytes(vec![0xE1; 28]).unwrap(), &Assets::new());
            out = TransactionOutput::new(&addr, &Value::new_with_assets(&BigNum::from(v.coin as u64), &ma));
            s.log.push("(the next output's amount lists a policy with no asset under it)".into());
        }
        if s.p(2) {
            out.set_data_hash(&hash_plutus_data(&PlutusData::new_bytes(vec![1, 2, 3])));
        } else if s.p(2) {
            out.set_plutus_data(&PlutusData::new_integer(&BigInt::from_str("42").unwrap()));
        }
        if s.p(1) {
            out.set_script_ref(&ScriptRef::new_native_script(&ring.natives[4]));
        }
        // raise the coin to the minimum when needed (most of the time)
        if let Some(Ok(min)) = g!(s, "min_ada_for_output", min_ada_for_output(&out, &DataCost::new_coins_per_byte(&BigNum::from(params.coins_per_byte)))) {
            let min: u64 = min.into();
            if (v.coin as u64) < min && !s.p(1) {
                v.coin = (min + s.r.below(3)) as i128;
                let mut o2 = if hollow {
                    let mut vv = out.amount();
                    vv.set_coin(&BigNum::from(v.coin as u64));
                    TransactionOutput::new(&addr, &vv)
                } else {
                    TransactionOutput::new(&addr, &val_to_csl(&v))
                };
                if let Some(d) = out.data_hash() {
                    o2.set_data_hash(&d);
                }
                if let Some(d) = out.plutus_data() {
                    o2.set_plutus_data(&d);
                }
                if let Some(sr) = out.script_ref() {
                    o2.set_script_ref(&sr);
                }
                out = o2;
            }
        }
        let res = g!(s, "add_output", tb.add_output(&out));
        s.log.push(format!("add_output coin={} assets={} -> {}", v.coin, v.assets.len(), res.as_ref().map(ok_str).unwrap_or("PANIC".into())));
        if let Some(Ok(())) = res {
            need_coin += v.coin as u128;
            for (k, q) in &v.assets {
                *need_assets.entry(k.clone()).or_insert(0) += *q;
            }
        }
    }

    // ---------------------------------------------------------------- mint / burn
    let mut mint_builder_used = false;
    if s.p(s.f.mint) {
        let mut mb = MintBuilder::new();
        let npol = 1 + s.r.below(2);
        let mut used: Vec<Vec<u8>> = vec![];
        for _ in 0..npol {
            let plutus = s.p(s.f.plutus);
            let (wit, pid, marker) = if plutus {
                let six = s.r.usize(ring.plutus.len());
                let pid = ring.plutus[six].hash().to_bytes();
                if used.contains(&pid) {
                    continue;
                }
                let src = s.plutus_source(six);
                let (m, red) = s.redeemer(RedeemerTag::new_mint());
                any_plutus = true;
                (MintWitness::new_plutus_script(&src, &red), pid, Some(m))
            } else {
                let six = s.r.usize(ring.natives.len());
                let pid = ring.natives[six].hash().to_bytes();
                if used.contains(&pid) {
                    continue;
                }
                let src = s.native_source(six);
                (MintWitness::new_native_script(&src), pid, None)
            };
            used.push(pid.clone());
            if let Some(m) = marker {
                s.markers.push(Marker { marker: m, purpose: 1, item: ItemId::Policy(pid.clone()), script_hash: pid.clone() });
            }
            let nassets = 1 + s.r.below(3);
            for j in 0..nassets {
                let name = vec![0x6d, j as u8];
                let burn = s.p(4);
                // (now and then a "max supply" mint of 2^63 or more: an output may hold it, a mint field may not)
                let q = if !burn && s.r.below(64) == 0 { (1u64 << 63) + s.r.below(1000) } else { 1 + s.r.below(1000) };
                let amt = if burn { Int::new_negative(&BigNum::from(q)) } else { Int::new(&BigNum::from(q)) };
                let res = g!(s, "mint.add_asset", if s.p(12) { mb.add_asset(&wit, &AssetName::new(name.clone()).unwrap(), &amt) } else { mb.set_asset(&wit, &AssetName::new(name.clone()).unwrap(), &amt) });
                s.log.push(format!("mint {} {} {}{} -> {}", hx(&pid[..4]), hx(&name), if burn { "-" } else { "+" }, q, res.as_ref().map(ok_str).unwrap_or("PANIC".into())));
                if let Some(Ok(())) = res {
                    if burn {
                        // an input must carry what is burned
                        *need_assets.entry((pid.clone(), name.clone())).or_insert(0) += q as i128;
                    } else {
                        *need_assets.entry((pid.clone(), name.clone())).or_insert(0) -= q as i128;
                    }
                    if s.p(2) {
                        // a second call for the same asset accumulates: +q then -q nets to zero (which may be
                        // refused or dropped, never emitted), other amounts net to a smaller mint / burn
                        let q2 = if s.r.bool() { q } else { 1 + s.r.below(1000) };
                        let amt2 = if burn { Int::new(&BigNum::from(q2)) } else { Int::new_negative(&BigNum::from(q2)) };
                        let res2 = g!(s, "mint.add_asset(again)", mb.add_asset(&wit, &AssetName::new(name.clone()).unwrap(), &amt2));
                        s.log.push(format!("mint {} {} again {}{} -> {}", hx(&pid[..4]), hx(&name), if burn { "+" } else { "-" }, q2, res2.as_ref().map(ok_str).unwrap_or("PANIC".into())));
                        if let Some(Ok(())) = res2 {
                            if burn {
                                *need_assets.entry((pid.clone(), name.clone())).or_insert(0) -= q2 as i128;
                            } else {
                                *need_assets.entry((pid.clone(), name.clone())).or_insert(0) += q2 as i128;
                            }
                        }
                    }
                }
            }
        }
        g!(s, "set_mint_builder", tb.set_mint_builder(&mb));
        mint_builder_used = true;
    }

    // the TransactionBuilder's own (deprecated) mint entry points, native scripts only: after a MintBuilder was
    // set they extend it, without one they create it; set_mint replaces everything and is only issued alone
    if s.p(3) {
        let n = 1 + s.r.below(2);
        for _ in 0..n {
            let six = s.r.usize(ring.natives.len());
            let script = ring.natives[six].clone();
            let pid = script.hash().to_bytes();
            // one manner per script hash per scenario: these entry points take the script itself
            if s.declared_refs.iter().any(|(hh, _)| *hh == pid) {
                continue;
            }
            if !s.log.iter().any(|l| l.contains(&format!("inline-script {}", hx(&pid)))) {
                s.log.push(format!("inline-script {}", hx(&pid)));
            }
            let name = vec![0x64, s.r.below(3) as u8];
            let an = AssetName::new(name.clone()).unwrap();
            let q = 1 + s.r.below(1000);
            let route = s.r.below(if mint_builder_used { 4 } else { 5 });
            match route {
                0 => {
                    let burn = s.p(4);
                    let amt = if burn { Int::new_negative(&BigNum::from(q)) } else { Int::new(&BigNum::from(q)) };
                    let res = g!(s, "add_mint_asset", tb.add_mint_asset(&script, &an, &amt));
                    s.log.push(format!("tb.add_mint_asset n{} {} {}{} -> {}", six, hx(&name), if burn { "-" } else { "+" }, q, res.as_ref().map(ok_str).unwrap_or("PANIC".into())));
                    if let Some(Ok(())) = res {
                        *need_assets.entry((pid.clone(), name.clone())).or_insert(0) += if burn { q as i128 } else { -(q as i128) };
                    }
                }
                1 => {
                    let mut ma = MintAssets::new();
                    let burn = s.p(4);
                    let amt = if burn { Int::new_negative(&BigNum::from(q)) } else { Int::new(&BigNum::from(q)) };
                    let _ = ma.insert(&an, &amt);
                    let name2 = vec![0x64, 7];
                    let two = s.r.bool();
                    if two {
                        let _ = ma.insert(&AssetName::new(name2.clone()).unwrap(), &Int::new(&BigNum::from(5u64)));
                    }
                    let res = g!(s, "set_mint_asset", tb.set_mint_asset(&script, &ma));
                    s.log.push(format!("tb.set_mint_asset n{} {} {}{} (+second entry: {}) -> {}", six, hx(&name), if burn { "-" } else { "+" }, q, two, res.as_ref().map(ok_str).unwrap_or("PANIC".into())));
                    if let Some(Ok(())) = res {
                        // (set replaces an earlier amount of the same asset: the bookkeeping here only steers the inputs)
                        need_assets.insert((pid.clone(), name.clone()), if burn { q as i128 } else { -(q as i128) });
                        if two {
                            need_assets.insert((pid.clone(), name2.clone()), -5);
                        }
                    }
                }
                2 | 3 => {
                    let k = s.key_ix();
                    let addr = s.key_address(k);
                    let ob = match TransactionOutputBuilder::new().with_address(&addr).next() {
                        Ok(b) => b,
                        Err(_) => continue,
                    };
                    let before: u128 = tb.get_explicit_output().map(|v| u64::from(v.coin()) as u128).unwrap_or(0);
                    let amt = Int::new(&BigNum::from(q));
                    let res = if route == 2 {
                        let coin = *s.r.pick(&[1_500_000u64, 2_000_000, 900_000, 5_000_000_000]);
                        let r = g!(s, "add_mint_asset_and_output", tb.add_mint_asset_and_output(&script, &an, &amt, &ob, &BigNum::from(coin)));
                        s.log.push(format!("tb.add_mint_asset_and_output n{} {} +{} coin={} -> {}", six, hx(&name), q, coin, r.as_ref().map(ok_str).unwrap_or("PANIC".into())));
                        r
                    } else {
                        let r = g!(s, "add_mint_asset_and_output_min_required_coin", tb.add_mint_asset_and_output_min_required_coin(&script, &an, &amt, &ob));
                        s.log.push(format!("tb.add_mint_asset_and_output_min_required_coin n{} {} +{} -> {}", six, hx(&name), q, r.as_ref().map(ok_str).unwrap_or("PANIC".into())));
                        r
                    };
                    let after: u128 = tb.get_explicit_output().map(|v| u64::from(v.coin()) as u128).unwrap_or(0);
                    match res {
                        Some(Ok(())) => {
                            // minted and placed in the new output at once: nothing is needed from the inputs but the coin
                            need_coin += after.saturating_sub(before);
                        }
                        _ => {
                            // the mint entry is made before the output is tried: a refused output leaves the mint in place
                            if guard(|| tb.get_mint().and_then(|m| m.get(&script.hash())).is_some()).unwrap_or(false) {
                                *need_assets.entry((pid.clone(), name.clone())).or_insert(0) -= q as i128;
                            }
                        }
                    }
                }
                _ => {
                    let mut ma = MintAssets::new();
                    let _ = ma.insert(&an, &Int::new(&BigNum::from(q)));
                    let mut mint = Mint::new();
                    mint.insert(&script.hash(), &ma);
                    let mut ns = NativeScripts::new();
                    ns.add(&script);

                    let res = g!(s, "set_mint", tb.set_mint(&mint, &ns));
                    s.log.push(format!("tb.set_mint n{} {} +{} -> {}", six, hx(&name), q, res.as_ref().map(ok_str).unwrap_or("PANIC".into())));
                    if let Some(Ok(())) = res {
                        *need_assets.entry((pid.clone(), name.clone())).or_insert(0) -= q as i128;
                    }
                }
            }
        }
    }

    // ---------------------------------------------------------------- certificates
    if s.p(s.f.certs) {
        let mut cb = CertificatesBuilder::new();
        let n = 1 + s.r.below(3);
        let mut have_any = false;
        let mut readd: Vec<(Certificate, Option<usize>)> = vec![];
        for _ in 0..n {
            let kind = loop {
                let k = s.r.below(19);
                if k != 5 && k != 6 {
                    break k;
                }
            };
            // credential: key / native / plutus
            // (a legacy stake registration needs no witness, whatever its credential: a caller who offers one for
            // a script credential is told so and adds the certificate plainly)
            let mode = if kind == 3 || kind == 4 { 0 } else if kind == 0 { if s.p(4) { 2 } else { 0 } } else if s.p(s.f.plutus) { 2 } else if s.p(s.f.scripts) { 1 } else { 0 };
            let k = s.key_ix();
            let (cred, nat_ix, pl_ix) = match mode {
                0 => (Credential::from_keyhash(&ring.keys[k].hash), None, None),
                1 => {
                    let i = s.r.usize(ring.natives.len());
                    (Credential::from_scripthash(&ring.natives[i].hash()), Some(i), None)
                }
                _ => {
                    let i = s.r.usize(ring.plutus.len());
                    (Credential::from_scripthash(&ring.plutus[i].hash()), None, Some(i))
                }
            };
            let coin = BigNum::from(*s.r.pick(&[2_000_000u64, 0, 1, 500_000_000, 65_536]));
            let pool = ring.keys[s.key_ix()].hash.clone();
            // (a script DRep is the delegation's TARGET: it never witnesses the certificate; when it is a Plutus
            // script, a caller whose plain `add` is refused would supply exactly that script)
            let mut drep_script: Option<usize> = None;
            let drep = match s.r.below(5) {
                0 => DRep::new_always_abstain(),
                1 => DRep::new_always_no_confidence(),
                2 => DRep::new_key_hash(&ring.keys[s.r.usize(ring.keys.len())].hash),
                3 => DRep::new_script_hash(&ring.natives[1].hash()),
                _ => {
                    let j = s.r.usize(ring.plutus.len());
                    drep_script = Some(j);
                    DRep::new_script_hash(&ring.plutus[j].hash())
                }
            };
            let anchor = Anchor::new(&URL::new("https://x.y".into()).unwrap(), &AnchorDataHash::from_bytes(vec![3; 32]).unwrap());
            let mut hot_script: Option<usize> = None;
            let cert = match kind {
                0 => Certificate::new_stake_registration(&StakeRegistration::new(&cred)),
                1 => Certificate::new_stake_deregistration(&StakeDeregistration::new(&cred)),
                2 => Certificate::new_stake_delegation(&StakeDelegation::new(&cred, &pool)),
                3 => {
                    let mut owners = Ed25519KeyHashes::new();
                    for _ in 0..s.r.below(3) {
                        owners.add(&ring.keys[s.key_ix()].hash);
                    }
                    let pp = PoolParams::new(
                        &ring.keys[k].hash,
                        &VRFKeyHash::from_bytes(vec![9; 32]).unwrap(),
                        &BigNum::from(1_000u64),
                        &BigNum::from(340_000_000u64),
                        &UnitInterval::new(&BigNum::from(1u64), &BigNum::from(20u64)),
                        &RewardAddress::new(s.net, &Credential::from_keyhash(&ring.keys[k].hash)),
                        &owners,
                        &Relays::new(),
                        None,
                    );
                    Certificate::new_pool_registration(&PoolRegistration::new(&pp))
                }
                4 => Certificate::new_pool_retirement(&PoolRetirement::new(&ring.keys[k].hash, 300 + s.r.below(10) as u32)),
                7 => Certificate::new_stake_registration(&StakeRegistration::new_with_explicit_deposit(&cred, &coin)),
                8 => Certificate::new_stake_deregistration(&StakeDeregistration::new_with_explicit_refund(&cred, &coin)),
                9 => Certificate::new_vote_delegation(&VoteDelegation::new(&cred, &drep)),
                10 => Certificate::new_stake_and_vote_delegation(&StakeAndVoteDelegation::new(&cred, &pool, &drep)),
                11 => Certificate::new_stake_registration_and_delegation(&StakeRegistrationAndDelegation::new(&cred, &pool, &coin)),
                12 => Certificate::new_vote_registration_and_delegation(&VoteRegistrationAndDelegation::new(&cred, &drep, &coin)),
                13 => Certificate::new_stake_vote_registration_and_delegation(&StakeVoteRegistrationAndDelegation::new(&cred, &pool, &drep, &coin)),
                14 => {
                    // the hot credential never witnesses this certificate, whatever its kind
                    let hot = if s.p(6) {
                        hot_script = Some(s.r.usize(ring.plutus.len()));
                        Credential::from_scripthash(&ring.plutus[hot_script.unwrap()].hash())
                    } else {
                        Credential::from_keyhash(&ring.keys[s.r.usize(ring.keys.len())].hash)
                    };
                    Certificate::new_committee_hot_auth(&CommitteeHotAuth::new(&cred, &hot))
                }
                15 => Certificate::new_committee_cold_resign(&CommitteeColdResign::new_with_anchor(&cred, &anchor)),
                16 => Certificate::new_drep_registration(&DRepRegistration::new(&cred, &coin)),
                17 => Certificate::new_drep_deregistration(&DRepDeregistration::new(&cred, &coin)),
                _ => Certificate::new_drep_update(&DRepUpdate::new(&cred)),
            };
            if hot_script.is_none() && matches!(kind, 9 | 10 | 12 | 13) {
                hot_script = drep_script;
            }
            let cert_bytes = cert.to_bytes();
            let res = match (nat_ix, pl_ix) {
                (Some(i), _) => {
                    let src = s.native_source(i);
                    g!(s, "certs.add_with_native_script", cb.add_with_native_script(&cert, &src))
                }
                (_, Some(i)) => {
                    let (m, w) = s.plutus_witness_nodatum(i, RedeemerTag::new_cert());
                    let r = g!(s, "certs.add_with_plutus_witness", cb.add_with_plutus_witness(&cert, &w));
                    if !matches!(r, Some(Ok(()))) {
                        s.undo_last_declared();
                    }
                    if let Some(Ok(())) = r {
                        any_plutus = true;
                        s.markers.push(Marker { marker: m, purpose: 2, item: ItemId::Cert(cert_bytes.clone()), script_hash: ring.plutus[i].hash().to_bytes() });
                        r
                    } else {
                        // a caller told "this certificate needs no script witness" adds it plainly
                        s.log.push("cert: add_with_plutus_witness refused, caller falls back to add".into());
                        g!(s, "certs.add(fallback)", cb.add(&cert))
                    }
                }
                _ => {
                    let r = g!(s, "certs.add", cb.add(&cert));
                    match (&r, hot_script) {
                        (Some(Err(_)), Some(i)) => {
                            // a caller told "this certificate needs a script witness" supplies the script it names
                            s.log.push("cert: add refused, caller falls back to add_with_plutus_witness".into());
                            let (m, w) = s.plutus_witness_nodatum(i, RedeemerTag::new_cert());
                            let r2 = g!(s, "certs.add_with_plutus_witness(fallback)", cb.add_with_plutus_witness(&cert, &w));
                    if !matches!(r2, Some(Ok(()))) {
                        s.undo_last_declared();
                    }
                            if let Some(Ok(())) = r2 {
                                any_plutus = true;
                                s.markers.push(Marker { marker: m, purpose: 2, item: ItemId::Cert(cert_bytes.clone()), script_hash: ring.plutus[i].hash().to_bytes() });
                            }
                            r2
                        }
                        _ => r,
                    }
                }
            };
            s.log.push(format!("cert kind={} mode={} -> {}", kind, mode, res.as_ref().map(ok_str).unwrap_or("PANIC".into())));
            if let Some(Ok(())) = res {
                have_any = true;
                if !s.cert_order.contains(&cert_bytes) {
                    s.cert_order.push(cert_bytes.clone());
                    if pl_ix.is_none() && hot_script.is_none() {
                        readd.push((cert.clone(), nat_ix));
                    }
                }
            }
        }
        // the same certificate registered again later (a caller retrying): refused or ignored, the
        // certificates keep the order of their first registration
        if s.cert_order.len() >= 2 && !readd.is_empty() && s.p(4) {
            let (cert, nat_ix) = readd[0].clone();
            if cert.to_bytes() != *s.cert_order.last().unwrap() {
                let r2 = match nat_ix {
                    Some(i) => {
                        let src = s.native_source(i);
                        g!(s, "certs.add_with_native_script(again)", cb.add_with_native_script(&cert, &src))
                    }
                    None => g!(s, "certs.add(again)", cb.add(&cert)),
                };
                s.log.push(format!("cert registered again -> {}", r2.as_ref().map(ok_str).unwrap_or("PANIC".into())));
            }
        }
        if have_any {
            g!(s, "set_certs_builder", tb.set_certs_builder(&cb));
            if let Some(Ok(d)) = g!(s, "get_deposit", tb.get_deposit()) {
                need_coin += u64::from(d) as u128;
            }
        }
    }

    // ---------------------------------------------------------------- withdrawals
    if s.p(s.f.withdrawals) {
        let mut wb = WithdrawalsBuilder::new();
        let n = 1 + s.r.below(4);
        let mut seen: Vec<Vec<u8>> = vec![];
        let mut key_amounts: Vec<(Vec<u8>, u64)> = vec![];
        for _ in 0..n {
            let mode = if s.p(s.f.plutus) { 2 } else if s.p(s.f.scripts) { 1 } else { 0 };
            let coin = match s.r.below(4) {
                0 => 0,
                1 => 1,
                _ => s.r.below(50_000_000),
            };
            let res = match mode {
                0 => {
                    let k = s.key_ix();
                    let ra = RewardAddress::new(s.net, &Credential::from_keyhash(&ring.keys[k].hash));
                    let rab = ra.to_address().to_bytes();
                    if let Some(pos) = key_amounts.iter().position(|(a, _)| *a == rab) {
                        // the same account again: the later amount replaces the earlier one
                        let r = g!(s, "withdrawals.add(again)", wb.add(&ra, &BigNum::from(coin)));
                        s.log.push(format!("withdrawal for the same key account again: {} -> {}", key_amounts[pos].1, coin));
                        if let Some(Ok(())) = r {
                            have_coin -= key_amounts[pos].1 as u128;
                            key_amounts[pos].1 = coin;
                        } else {
                            continue;
                        }
                        r
                    } else {
                        if seen.contains(&rab) {
                            continue;
                        }
                        seen.push(rab.clone());
                        let r = g!(s, "withdrawals.add", wb.add(&ra, &BigNum::from(coin)));
                        if let Some(Ok(())) = r {
                            key_amounts.push((rab, coin));
                        }
                        r
                    }
                }
                1 => {
                    let i = s.r.usize(ring.natives.len());
                    let ra = RewardAddress::new(s.net, &Credential::from_scripthash(&ring.natives[i].hash()));
                    if seen.contains(&ra.to_address().to_bytes()) {
                        continue;
                    }
                    seen.push(ra.to_address().to_bytes());
                    let src = s.native_source(i);
                    g!(s, "withdrawals.add_with_native_script", wb.add_with_native_script(&ra, &BigNum::from(coin), &src))
                }
                _ => {
                    let i = s.r.usize(ring.plutus.len());
                    let ra = RewardAddress::new(s.net, &Credential::from_scripthash(&ring.plutus[i].hash()));
                    if seen.contains(&ra.to_address().to_bytes()) {
                        continue;
                    }
                    seen.push(ra.to_address().to_bytes());
                    let (m, w) = s.plutus_witness_nodatum(i, RedeemerTag::new_reward());
                    let r = g!(s, "withdrawals.add_with_plutus_witness", wb.add_with_plutus_witness(&ra, &BigNum::from(coin), &w));
                    if !matches!(r, Some(Ok(()))) {
                        s.undo_last_declared();
                    }
                    if let Some(Ok(())) = r {
                        any_plutus = true;
                        s.markers.push(Marker { marker: m, purpose: 3, item: ItemId::Reward(ra.to_address().to_bytes()), script_hash: ring.plutus[i].hash().to_bytes() });
                    }
                    r
                }
            };
            s.log.push(format!("withdrawal mode={} coin={} -> {}", mode, coin, res.as_ref().map(ok_str).unwrap_or("PANIC".into())));
            if let Some(Ok(())) = res {
                have_coin += coin as u128;
            }
        }
        g!(s, "set_withdrawals_builder", tb.set_withdrawals_builder(&wb));
    }

    // ---------------------------------------------------------------- votes
    if s.p(s.f.votes) {
        let mut vb = VotingBuilder::new();
        let n = 1 + s.r.below(3);
        let mut seen: Vec<Vec<u8>> = vec![];
        for _ in 0..n {
            let mode = if s.p(s.f.plutus) { 2 } else if s.p(s.f.scripts) { 1 } else { 0 };
            let role = s.r.below(3);
            let gid = GovernanceActionId::new(&TransactionHash::from_bytes(vec![s.r.below(3) as u8; 32]).unwrap(), s.r.below(3) as u32);
            let proc_ = VotingProcedure::new(match s.r.below(3) {
                0 => VoteKind::No,
                1 => VoteKind::Yes,
                _ => VoteKind::Abstain,
            });
            let (voter, nat_ix, pl_ix) = if role == 2 || mode == 0 {
                let kh = ring.keys[s.key_ix()].hash.clone();
                let v = match role {
                    0 => Voter::new_constitutional_committee_hot_credential(&Credential::from_keyhash(&kh)),
                    1 => Voter::new_drep_credential(&Credential::from_keyhash(&kh)),
                    _ => Voter::new_stake_pool_key_hash(&kh),
                };
                (v, None, None)
            } else if mode == 1 {
                let i = s.r.usize(ring.natives.len());
                let c = Credential::from_scripthash(&ring.natives[i].hash());
                (if role == 0 { Voter::new_constitutional_committee_hot_credential(&c) } else { Voter::new_drep_credential(&c) }, Some(i), None)
            } else {
                let i = s.r.usize(ring.plutus.len());
                let c = Credential::from_scripthash(&ring.plutus[i].hash());
                (if role == 0 { Voter::new_constitutional_committee_hot_credential(&c) } else { Voter::new_drep_credential(&c) }, None, Some(i))
            };
            let vbytes = voter.to_bytes();
            let first_time = !seen.contains(&vbytes);
            let res = match (nat_ix, pl_ix) {
                (Some(i), _) => {
                    let src = s.native_source(i);
                    g!(s, "votes.add_with_native_script", vb.add_with_native_script(&voter, &gid, &proc_, &src))
                }
                (_, Some(i)) => {
                    if !first_time {
                        continue; // one redeemer per voter
                    }
                    let (m, w) = s.plutus_witness_nodatum(i, RedeemerTag::new_vote());
                    let r = g!(s, "votes.add_with_plutus_witness", vb.add_with_plutus_witness(&voter, &gid, &proc_, &w));
                    if !matches!(r, Some(Ok(()))) {
                        s.undo_last_declared();
                    }
                    if let Some(Ok(())) = r {
                        any_plutus = true;
                        s.markers.push(Marker { marker: m, purpose: 4, item: ItemId::Voter(vbytes.clone()), script_hash: ring.plutus[i].hash().to_bytes() });
                    }
                    r
                }
                _ => g!(s, "votes.add", vb.add(&voter, &gid, &proc_)),
            };
            seen.push(vbytes);
            s.log.push(format!("vote role={} mode={} -> {}", role, mode, res.as_ref().map(ok_str).unwrap_or("PANIC".into())));
        }
        g!(s, "set_voting_builder", tb.set_voting_builder(&vb));
    }

    // ---------------------------------------------------------------- proposals
    if s.p(s.f.proposals) {
        let mut pb = VotingProposalBuilder::new();
        let n = 1 + s.r.below(2);
        for j in 0..n {
            let anchor = Anchor::new(&URL::new(format!("https://p/{}", j)).unwrap(), &AnchorDataHash::from_bytes(vec![4; 32]).unwrap());
            let ra = RewardAddress::new(s.net, &Credential::from_keyhash(&ring.keys[s.key_ix()].hash));
            let deposit = *s.r.pick(&[100_000_000_000u64, 0, 1, 1_000_000]);
            let guarded = s.p(s.f.plutus);
            let pl_ix = s.r.usize(ring.plutus.len());
            // two cold credentials in both orders: the same action spelled with its remove-set filled the other
            // way round is another proposal (other bytes), kept and charged on its own
            let mut twin: Option<GovernanceAction> = None;
            let action = match s.r.below(7) {
                4 => GovernanceAction::new_hard_fork_initiation_action(&HardForkInitiationAction::new(&ProtocolVersion::new(10 + s.r.below(3) as u32, 0))),
                5 => {
                    let c1 = Credential::from_keyhash(&ring.keys[s.key_ix()].hash);
                    let c2 = Credential::from_scripthash(&ring.natives[2].hash());
                    let c3 = Credential::from_keyhash(&ring.keys[(s.key_ix() + 1) % ring.keys.len()].hash);
                    let mut committee = Committee::new(&UnitInterval::new(&BigNum::from(2u64), &BigNum::from(3u64)));
                    committee.add_member(&c3, 500 + s.r.below(100) as u32);
                    let mut rm = Credentials::new();
                    rm.add(&c1);
                    rm.add(&c2);
                    let mut rm2 = Credentials::new();
                    rm2.add(&c2);
                    rm2.add(&c1);
                    if s.p(8) {
                        twin = Some(GovernanceAction::new_new_committee_action(&UpdateCommitteeAction::new(&committee, &rm2)));
                    }
                    GovernanceAction::new_new_committee_action(&UpdateCommitteeAction::new(&committee, &rm))
                }
                6 => {
                    let an = Anchor::new(&URL::new("https://c/1".into()).unwrap(), &AnchorDataHash::from_bytes(vec![5; 32]).unwrap());
                    if s.r.bool() {
                        GovernanceAction::new_new_constitution_action(&NewConstitutionAction::new(&Constitution::new_with_script_hash(&an, &ring.natives[1].hash())))
                    } else {
                        GovernanceAction::new_new_constitution_action(&NewConstitutionAction::new(&Constitution::new(&an)))
                    }
                }
                0 => GovernanceAction::new_info_action(&InfoAction::new()),
                1 => {
                    let mut tw = TreasuryWithdrawals::new();
                    tw.insert(&ra, &BigNum::from(5u64));
                    if guarded {
                        GovernanceAction::new_treasury_withdrawals_action(&TreasuryWithdrawalsAction::new_with_policy_hash(&tw, &ring.plutus[pl_ix].hash()))
                    } else {
                        GovernanceAction::new_treasury_withdrawals_action(&TreasuryWithdrawalsAction::new(&tw))
                    }
                }
                2 => {
                    let mut ppu = ProtocolParamUpdate::new();
                    ppu.set_max_tx_size(20_000);
                    if guarded {
                        GovernanceAction::new_parameter_change_action(&ParameterChangeAction::new_with_policy_hash(&ppu, &ring.plutus[pl_ix].hash()))
                    } else {
                        GovernanceAction::new_parameter_change_action(&ParameterChangeAction::new(&ppu))
                    }
                }
                _ => GovernanceAction::new_no_confidence_action(&NoConfidenceAction::new()),
            };
            let prop = VotingProposal::new(&action, &anchor, &ra, &BigNum::from(deposit));
            let needs_script = guarded && matches!(action.kind(), GovernanceActionKind::TreasuryWithdrawalsAction | GovernanceActionKind::ParameterChangeAction);
            let res = if needs_script {
                let (m, w) = s.plutus_witness_nodatum(pl_ix, RedeemerTag::new_voting_proposal());
                let r = g!(s, "proposals.add_with_plutus_witness", pb.add_with_plutus_witness(&prop, &w));
                    if !matches!(r, Some(Ok(()))) {
                        s.undo_last_declared();
                    }
                if let Some(Ok(())) = r {
                    any_plutus = true;
                    s.markers.push(Marker { marker: m, purpose: 5, item: ItemId::Proposal(prop.to_bytes()), script_hash: ring.plutus[pl_ix].hash().to_bytes() });
                }
                r
            } else {
                g!(s, "proposals.add", pb.add(&prop))
            };
            s.log.push(format!("proposal deposit={} guarded={} -> {}", deposit, needs_script, res.as_ref().map(ok_str).unwrap_or("PANIC".into())));
            if let Some(Ok(())) = res {
                need_coin += deposit as u128;
                if !needs_script && s.p(3) {
                    // the identical proposal once more: proposals are a set, the body holds it once and its
                    // deposit is owed once, whatever the second call answers
                    let r2 = g!(s, "proposals.add(again)", pb.add(&prop));
                    s.log.push(format!("the same proposal added again -> {}", r2.as_ref().map(ok_str).unwrap_or("PANIC".into())));
                }
                if let Some(tw) = twin {
                    let prop2 = VotingProposal::new(&tw, &anchor, &ra, &BigNum::from(deposit));
                    let r2 = g!(s, "proposals.add(twin)", pb.add(&prop2));
                    s.log.push(format!("the same committee update with its remove-set in the other order -> {}", r2.as_ref().map(ok_str).unwrap_or("PANIC".into())));
                    if let Some(Ok(())) = r2 {
                        need_coin += deposit as u128;
                    }
                }
            }
        }
        g!(s, "set_voting_proposal_builder", tb.set_voting_proposal_builder(&pb));
    }

    // ---------------------------------------------------------------- misc fields
    if s.p(5) {
        let mut md = GeneralTransactionMetadata::new();
        // now and then EMPTY metadata / auxiliary data: whatever the body announces must be what the transaction carries
        let empty = s.p(3);
        if !empty {
            md.insert(&BigNum::from(674u64), &TransactionMetadatum::new_text("hello".into()).unwrap());
        }
        if empty && s.r.bool() {
            g!(s, "set_auxiliary_data(empty)", tb.set_auxiliary_data(&AuxiliaryData::new()));
        } else if s.r.bool() {
            g!(s, "set_metadata", tb.set_metadata(&md));
        } else {
            let mut aux = AuxiliaryData::new();
            aux.set_metadata(&md);
            if s.r.bool() {
                let mut ns = NativeScripts::new();
                ns.add(&ring.natives[4]);
                aux.set_native_scripts(&ns);
            }
            if s.p(3) {
                aux.set_prefer_alonzo_format(true);
            }
            g!(s, "set_auxiliary_data", tb.set_auxiliary_data(&aux));
        }
        s.log.push(format!("aux data set{}", if empty { " (empty)" } else { "" }));
    }
    // the metadata helpers of the builder: each goes through the auxiliary data already there (or creates it);
    // whatever they leave behind, the body must announce the hash of what the transaction carries
    if s.p(3) {
        for _ in 0..1 + s.r.below(3) {
            let label = BigNum::from(*s.r.pick(&[674u64, 721, 0, 1 << 40]));
            match s.r.below(5) {
                0 => {
                    g!(s, "add_metadatum", tb.add_metadatum(&label, &TransactionMetadatum::new_int(&Int::new_i32(-7))));
                }
                1 => {
                    let r = g!(s, "add_json_metadatum", tb.add_json_metadatum(&label, "{\"k\":[1,\"two\",{\"3\":\"0xff\"}]}".to_string()));
                    s.log.push(format!("add_json_metadatum -> {}", r.as_ref().map(ok_str).unwrap_or("PANIC".into())));
                }
                2 => {
                    let schema = *s.r.pick(&[MetadataJsonSchema::NoConversions, MetadataJsonSchema::BasicConversions, MetadataJsonSchema::DetailedSchema]);
                    let doc = if schema == MetadataJsonSchema::DetailedSchema { "{\"map\":[{\"k\":{\"int\":5},\"v\":{\"bytes\":\"00ff\"}}]}" } else { "{\"5\":\"0x00ff\",\"a\":-3}" };
                    let r = g!(s, "add_json_metadatum_with_schema", tb.add_json_metadatum_with_schema(&label, doc.to_string(), schema));
                    s.log.push(format!("add_json_metadatum_with_schema -> {}", r.as_ref().map(ok_str).unwrap_or("PANIC".into())));
                }
                3 => {
                    // a document outside the schema: refused, and what was there stays
                    let r = g!(s, "add_json_metadatum(bad)", tb.add_json_metadatum(&label, "{\"k\":1.5}".to_string()));
                    s.log.push(format!("add_json_metadatum (float) -> {}", r.as_ref().map(ok_str).unwrap_or("PANIC".into())));
                }
                _ => {
                    g!(s, "remove_auxiliary_data", tb.remove_auxiliary_data());
                    s.log.push("remove_auxiliary_data".into());
                }
            }
        }
        s.log.push("metadata helpers used".into());
    }
    if s.p(5) {
        if s.p(4) {
            g!(s, "set_ttl(u32)", tb.set_ttl(s.r.wide_u64() as u32));
        } else {
            g!(s, "set_ttl", tb.set_ttl_bignum(&BigNum::from(s.r.wide_u64())));
        }
        if s.p(1) {
            g!(s, "remove_ttl", tb.remove_ttl());
        }
    }
    if s.p(3) {
        if s.p(4) {
            g!(s, "set_validity_start(u32)", tb.set_validity_start_interval(s.r.below(1 << 32) as u32));
        } else {
            g!(s, "set_validity_start", tb.set_validity_start_interval_bignum(BigNum::from(s.r.below(1 << 33))));
        }
        if s.p(1) {
            g!(s, "remove_validity_start_interval", tb.remove_validity_start_interval());
        }
    }
    if s.p(4) {
        for _ in 0..1 + s.r.below(2) {
            let k = s.key_ix();
            g!(s, "add_required_signer", tb.add_required_signer(&ring.keys[k].hash));
            s.log.push(format!("required signer key{}", k));
        }
    }
    if s.p(3) {
        // (a front end that always forwards the field sends 0 when there is no donation)
        let d = if s.r.below(6) == 0 { 0 } else { 1 + s.r.below(3_000_000) };
        g!(s, "set_donation", tb.set_donation(&BigNum::from(d)));
        need_coin += d as u128;
        s.log.push(format!("donation {}", d));
    }
    if s.p(2) {
        let _ = g!(s, "set_current_treasury_value", tb.set_current_treasury_value(&BigNum::from(1 + s.r.below(1 << 40))));
    }
    if s.p(3) {
        // extra witness datums: sometimes the very datum a Plutus spend will supply too (7000..7002)
        for _ in 0..1 + s.r.below(2) {
            let d = if s.p(4) {
                // the spelled variants a Plutus spend may supply too (same value, other bytes)
                let dv = 7000 + s.r.below(3);
                let mut b = if s.r.bool() { vec![0xd8, 0x79, 0x81] } else { vec![0xd8, 0x79, 0x9f] };
                b.extend_from_slice(&[0x19, (dv >> 8) as u8, dv as u8]);
                if b[2] == 0x9f {
                    b.push(0xff);
                } else {
                    s.verbatim_datums = true;
                }
                PlutusData::from_bytes(b).unwrap()
            } else {
                PlutusData::new_integer(&BigInt::from_str(&(if s.r.bool() { 7000 + s.r.below(3) } else { 9000 + s.r.below(3) }).to_string()).unwrap())
            };
            g!(s, "add_extra_witness_datum", tb.add_extra_witness_datum(&d));
            s.log.push("extra witness datum".into());
        }
    }
    if s.p(s.f.refs) {
        for _ in 0..1 + s.r.below(3) {
            let k = s.key_ix();
            let addr = s.key_address(k);
            let v = s.gen_val(false);
            let i = s.new_utxo(&addr, v);
            let o = s.outpoint(i);
            if s.carried_script(i).is_some() {
                // the referenced UTxO carries a script nobody runs: the ledger charges for it all the same, so
                // the caller declares its size - at once, or after having added the input plainly first
                let size = s.utxos[i].ref_script_size as usize;
                let plain_first = s.r.bool();
                if plain_first {
                    g!(s, "add_reference_input", tb.add_reference_input(&Scn::tx_input(&o)));
                }
                g!(s, "add_script_reference_input", tb.add_script_reference_input(&Scn::tx_input(&o), size));
                s.log.push(format!("reference input {}#{} carrying a script of {} bytes (plain first: {})", hx(&o.0[..4]), o.1, size, plain_first));
            } else {
                g!(s, "add_reference_input", tb.add_reference_input(&Scn::tx_input(&o)));
                s.log.push(format!("plain reference input {}#{}", hx(&o.0[..4]), o.1));
            }
        }
    }

    // ---------------------------------------------------------------- explicit inputs
    let n_in = match s.r.below(5) {
        0 => 0,
        1 => 1,
        _ => 1 + s.r.below(4),
    };
    let use_direct_api = s.p(4);
    for _ in 0..n_in {
        let kind = if s.p(s.f.plutus) { 3 } else if s.p(s.f.scripts) { 2 } else if s.p(s.f.byron) { 1 } else { 0 };
        let with_assets = s.p(s.f.assets);
        let mut val = s.gen_val(with_assets);
        // carry what is still needed in assets
        for (k, q) in need_assets.iter_mut() {
            if *q > 0 && s.r.bool() {
                val.add_asset(k.clone(), *q + s.r.below(3) as i128);
                *q = 0;
            }
        }
        match kind {
            0 => {
                let k = s.key_ix();
                let addr = s.key_address(k);
                if let Some(d) = s.f.tune_first_key_input {
                    if val.coin - d >= 1_000_000 {
                        val.coin -= d;
                        s.log.push(format!("(tuned: this key input was made {} lovelace poorer)", d));
                        s.tuned = true;
                        s.f.tune_first_key_input = None;
                    }
                }
                let i = s.new_utxo(&addr, val.clone());
                let o = s.outpoint(i);
                let res = if use_direct_api {
                    let sv = s.sloppy(val_to_csl(&val));
                    if s.p(5) {
                        // the address-less wrapper: the caller names the payment key hash itself
                        g!(s, "add_key_input", tb.add_key_input(&ring.keys[k].hash, &Scn::tx_input(&o), &sv)).map(|_| Ok(()))
                    } else {
                        g!(s, "add_regular_input", tb.add_regular_input(&addr, &Scn::tx_input(&o), &sv))
                    }
                } else if s.p(2) {
                    let sv = s.sloppy(val_to_csl(&val));
                    if s.r.bool() {
                        g!(s, "inputs.add_key_input", inputs_b.add_key_input(&ring.keys[k].hash, &Scn::tx_input(&o), &sv)).map(|_| Ok(()))
                    } else {
                        g!(s, "inputs.add_regular_input", inputs_b.add_regular_input(&addr, &Scn::tx_input(&o), &sv))
                    }
                } else {
                    let carried = s.carried_script(i);
                    let u = s.csl_utxo(i, None, carried.as_ref());
                    if s.p(1) {
                        // a caller's slip, corrected: the UTxO is first registered with a Plutus witness and
                        // then registered again as the key input it is (the later call replaces the earlier)
                        let si = s.r.usize(ring.plutus.len());
                        let (m_stale, red) = s.redeemer(RedeemerTag::new_spend());
                        let wit = PlutusWitness::new_with_ref_without_datum(&PlutusScriptSource::new(&ring.plutus[si]), &red);
                        // (the address-less call: add_plutus_script_utxo refuses a key address)
                        // (now and then the first registration also got the amount wrong: the later one corrects it)
                        let first_amount = if s.p(6) {
                            s.log.push("(the first registration named a wrong amount)".into());
                            let mut w = Value::new(&u.output().amount().coin().checked_add(&BigNum::from(1_000_000u64)).unwrap_or(BigNum::from(7u64)));
                            if s.r.bool() {
                                if let Some(ma) = u.output().amount().multiasset() {
                                    w.set_multiasset(&ma);
                                }
                            }
                            w
                        } else {
                            u.output().amount()
                        };
                        let _ = g!(s, "inputs.add_plutus_script_input(superseded)", inputs_b.add_plutus_script_input(&wit, &u.input(), &first_amount));
                        if s.p(8) {
                            // ... and had the script data hash computed in between: the later computation (after
                            // the correction) replaces it, also when no script data is left
                            g!(s, "set_inputs(interim)", tb.set_inputs(&inputs_b));
                            let lt = Scn::lang_tag(&ring.plutus[si].language_version());
                            let (cm, _) = cost_models_for(&[lt], s.r);
                            let r0 = g!(s, "calc_script_data_hash(interim)", tb.calc_script_data_hash(&cm));
                            s.log.push(format!("calc_script_data_hash while the slip was in place -> {}", r0.as_ref().map(ok_str).unwrap_or("PANIC".into())));
                            s.interim_hash = true;
                        }
                        s.log.push(format!("key input first registered with a plutus witness (marker {}), then re-registered as a key input", m_stale));
                        s.superseded = true;
                        // the caller goes on as for any Plutus transaction (collateral, script data hash)
                        any_plutus = true;
                    }
                    g!(s, "inputs.add_regular_utxo", inputs_b.add_regular_utxo(&u))
                };
                s.log.push(format!("key input key{} {}#{} coin={} -> {}", k, hx(&o.0[..4]), o.1, val.coin, res.as_ref().map(ok_str).unwrap_or("PANIC".into())));
                if let Some(Ok(())) = res {
                    have_coin += val.coin as u128;
                    for (k, q) in &val.assets {
                        *need_assets.entry(k.clone()).or_insert(0) -= *q;
                    }
                }
            }
            1 => {
                let b = s.r.usize(ring.byron.len());
                let addr = ring.byron[b].addr.to_address();
                let i = s.new_utxo(&addr, val.clone());
                let o = s.outpoint(i);
                if use_direct_api {
                    g!(s, "add_bootstrap_input", tb.add_bootstrap_input(&ring.byron[b].addr, &Scn::tx_input(&o), &val_to_csl(&val)));
                } else {
                    let carried = s.carried_script(i);
                    let u = s.csl_utxo(i, None, carried.as_ref());
                    let _ = g!(s, "inputs.add_regular_utxo(byron)", inputs_b.add_regular_utxo(&u));
                }
                s.log.push(format!("byron input b{} {}#{} coin={}", b, hx(&o.0[..4]), o.1, val.coin));
                have_coin += val.coin as u128;
                for (k, q) in &val.assets {
                    *need_assets.entry(k.clone()).or_insert(0) -= *q;
                }
            }
            2 => {
                let si = s.r.usize(ring.natives.len());
                let addr = s.script_address(&ring.natives[si].hash());
                let i = s.new_utxo(&addr, val.clone());
                let o = s.outpoint(i);
                let h = ring.natives[si].hash().to_bytes();
                let declared_as_ref = s.declared_refs.iter().any(|(hh, _)| *hh == h);
                if use_direct_api && !declared_as_ref {
                    // the deprecated API takes the script itself (inline)
                    s.log.push(format!("inline-script {}", hx(&h)));
                    g!(s, "add_native_script_input", tb.add_native_script_input(&ring.natives[si], &Scn::tx_input(&o), &val_to_csl(&val)));
                } else if use_direct_api {
                    // the deprecated direct API has no reference-script variant: this input is not added
                    s.log.push(format!("native input n{} skipped (script already declared as reference)", si));
                    continue;
                } else {
                    let src = s.native_source_ex(si, true);
                    let u = s.csl_utxo(i, None, None);
                    let _ = g!(s, "inputs.add_native_script_utxo", inputs_b.add_native_script_utxo(&u, &src));
                }
                s.log.push(format!("native input n{} {}#{} coin={}", si, hx(&o.0[..4]), o.1, val.coin));
                have_coin += val.coin as u128;
                for (k, q) in &val.assets {
                    *need_assets.entry(k.clone()).or_insert(0) -= *q;
                }
            }
            _ => {
                let si = s.r.usize(ring.plutus.len());
                let addr = s.script_address(&ring.plutus[si].hash());
                let i = s.new_utxo(&addr, val.clone());
                // three values; now and then the same VALUE in two CBOR spellings (definite / indefinite
                // list, kept verbatim by from_bytes): different bytes, different datum hashes
                let dv = 7000 + s.r.below(3);
                let datum = if s.p(5) {
                    let mut b = if s.r.bool() { vec![0xd8, 0x79, 0x81] } else { vec![0xd8, 0x79, 0x9f] };
                    b.extend_from_slice(&[0x19, (dv >> 8) as u8, dv as u8]);
                    if b[2] == 0x9f {
                        b.push(0xff);
                    } else {
                        s.verbatim_datums = true;
                    }
                    PlutusData::from_bytes(b).unwrap()
                } else {
                    PlutusData::new_integer(&BigInt::from_str(&dv.to_string()).unwrap())
                };
                let datum_mode = s.r.below(3); // 0 witness datum, 1 inline datum, 2 datum via reference input
                s.utxos[i].inline_datum = datum_mode == 1;
                if datum_mode != 1 {
                    s.utxos[i].datum_hash = Some(hash_plutus_data(&datum).to_bytes());
                }
                let o = s.outpoint(i);
                let src = s.plutus_source(si);
                let (m, red) = s.redeemer(RedeemerTag::new_spend());
                let wit = match datum_mode {
                    0 => PlutusWitness::new_with_ref(&src, &DatumSource::new(&datum), &red),
                    1 => PlutusWitness::new_with_ref_without_datum(&src, &red),
                    _ => {
                        // a reference input whose output carries the datum inline
                        let k = s.key_ix();
                        let a2 = s.key_address(k);
                        let v2 = s.gen_val(false);
                        let di = s.new_utxo(&a2, v2);
                        s.utxos[di].inline_datum = true;
                        let dout = s.outpoint(di);
                        s.datum_refs.push((o.clone(), dout.clone()));
                        PlutusWitness::new_with_ref(&src, &DatumSource::new_ref_input(&Scn::tx_input(&dout)), &red)
                    }
                };
                let u = s.csl_utxo(i, Some(&datum), None);
                let res = if use_direct_api {
                    g!(s, "add_plutus_script_input", tb.add_plutus_script_input(&wit, &Scn::tx_input(&o), &val_to_csl(&val))).map(|_| Ok(()))
                } else {
                    g!(s, "inputs.add_plutus_script_utxo", inputs_b.add_plutus_script_utxo(&u, &wit))
                };
                s.log.push(format!("plutus input p{} {}#{} datum_mode={} coin={} -> {}", si, hx(&o.0[..4]), o.1, datum_mode, val.coin, res.as_ref().map(ok_str).unwrap_or("PANIC".into())));
                if let Some(Ok(())) = res {
                    any_plutus = true;
                    s.markers.push(Marker { marker: m, purpose: 0, item: ItemId::Input(o.0.clone(), o.1), script_hash: ring.plutus[si].hash().to_bytes() });
                    have_coin += val.coin as u128;
                    for (k, q) in &val.assets {
                        *need_assets.entry(k.clone()).or_insert(0) -= *q;
                    }
                }
            }
        }
    }
    if !use_direct_api && inputs_b.len() > 0 {
        if s.p(4) {
            let k = s.key_ix();
            inputs_b.add_required_signer(&ring.keys[k].hash);
            s.extra_signers.push(ring.keys[k].hash.to_bytes());
            s.log.push(format!("inputs builder: add_required_signer key{}", k));
        }
        g!(s, "set_inputs", tb.set_inputs(&inputs_b));
    }

    // ---------------------------------------------------------------- collateral
    let mut collateral_op: Option<(String, Result<(), String>)> = None;
    if any_plutus || s.p(1) {
        let mut cb = TxInputsBuilder::new();
        for _ in 0..1 + s.r.below(2) {
            let byron = s.p(s.f.byron);
            let with_assets = s.p(3);
            let v = s.gen_val(with_assets);
            let addr = if byron { ring.byron[s.r.usize(ring.byron.len())].addr.to_address() } else { let k = s.key_ix(); s.key_address(k) };
            let i = s.new_utxo(&addr, v);
            let u = s.csl_utxo(i, None, None);
            if !byron && s.p(2) {
                // the caller's own bookkeeping of the collateral UTxO's value (now and then listing a token it no longer holds)
                let mut sv = u.output().amount();
                for _ in 0..4 {
                    sv = s.sloppy(sv);
                }
                let _ = g!(s, "collateral.add_regular_input", cb.add_regular_input(&u.output().address(), &u.input(), &sv));
            } else {
                let _ = g!(s, "collateral.add_regular_utxo", cb.add_regular_utxo(&u));
            }
            s.log.push(format!("collateral {} coin={} assets={}", if byron { "byron" } else { "key" }, s.utxos[i].val.coin, s.utxos[i].val.assets.len()));
        }
        g!(s, "set_collateral", tb.set_collateral(&cb));
        if s.p(s.f.collateral_helpers) {
            // explicit return / total helpers (C19 judges them in its own workload as well)
            let total: Val = {
                let mut t = Val::default();
                if let Some(Ok(v)) = g!(s, "collateral.total_value", cb.total_value()) {
                    t.coin = u64::from(v.coin()) as i128;
                }
                t
            };
            let want_total = (total.coin as u64) / (2 + s.r.below(3));
            let k = s.key_ix();
            let ret_addr = s.key_address(k);
            let r = g!(s, "set_total_collateral_and_return", tb.set_total_collateral_and_return(&BigNum::from(want_total), &ret_addr));
            let rs = r.map(|x| x.map_err(|e| format!("{:?}", e))).unwrap_or(Err("PANIC".into()));
            s.log.push(format!("set_total_collateral_and_return({}) -> {:?}", want_total, rs));
            collateral_op = Some(("set_total_collateral_and_return".into(), rs));
        }
    }

    // ---------------------------------------------------------------- fee request
    let mut fee_mode = match s.r.below(10) {
        0 => FeeMode::MinFee(*s.r.pick(&[0u64, 200_000, 1_000_000, 70_000, 5_000_000])),
        1 => FeeMode::Exact(*s.r.pick(&[300_000u64, 1_000_000, 2_000_000, 65_536])),
        _ => FeeMode::Unspecified,
    };
    match fee_mode {
        FeeMode::MinFee(m) => {
            g!(s, "set_min_fee", tb.set_min_fee(&BigNum::from(m)));
        }
        FeeMode::Exact(m) => {
            g!(s, "set_fee", tb.set_fee(&BigNum::from(m)));
        }
        _ => {}
    }
    s.log.push(format!("fee mode {:?}", fee_mode));

    // ---------------------------------------------------------------- script data hash (before or after balancing)
    let hash_after = any_plutus && s.p(2);
    let mut cost_models: Option<(BTreeMap<u8, Vec<i128>>, Vec<(Vec<u8>, u64)>)> = None;
    let mut do_hash = |s: &mut Scn, tb: &mut TransactionBuilder| {
        let (cm, model) = cost_models_for(&s.used_langs.clone(), s.r);
        let r = g!(s, "calc_script_data_hash", tb.calc_script_data_hash(&cm));
        s.log.push(format!("calc_script_data_hash langs={:?} -> {}", model.keys().collect::<Vec<_>>(), r.as_ref().map(ok_str).unwrap_or("PANIC".into())));
        if let Some(Ok(())) = r {
            let ins = collect_inputs(tb);
            let mut v = vec![];
            for i in 0..ins.len() {
                let x = ins.get(i);
                v.push((x.transaction_id().to_bytes(), x.index() as u64));
            }
            v.sort();
            Some((model, v))
        } else {
            None
        }
    };
    let want_hash_before = (any_plutus || s.p(1)) && !hash_after;
    let mut hash_done = false;

    // ---------------------------------------------------------------- balancing
    // size what is still missing
    let fee_allow: u128 = 3_000_000 + params.fee_b as u128 + params.fee_a as u128 * 3000 + match fee_mode { FeeMode::MinFee(m) | FeeMode::Exact(m) => m as u128, _ => 0 };
    let target = need_coin + fee_allow;
    let coin_select = s.p(s.f.coin_select);
    let mut offered: Vec<usize> = vec![];
    let pre_inputs: Vec<(Vec<u8>, u64)>;
    let balance;
    if coin_select {
        // offered UTxOs: enough in total most of the time
        let n = 2 + s.r.below(8);
        let short = s.p(2);
        let mut missing = target.saturating_sub(have_coin);
        for j in 0..n {
            let with_assets = s.p(s.f.assets);
            let mut v = s.gen_val(with_assets);
            if !short && missing > 0 && (j == n - 1 || s.r.bool()) {
                v.coin = (missing as u64).saturating_add(s.r.below(5_000_000)) as i128;
                missing = 0;
            }
            for (k, q) in need_assets.iter_mut() {
                if *q > 0 && (s.r.bool() || j == n - 1) {
                    v.add_asset(k.clone(), *q + s.r.below(2) as i128);
                    *q = 0;
                }
            }
            let byron = s.p(s.f.byron / 2);
            let addr = if byron { ring.byron[s.r.usize(ring.byron.len())].addr.to_address() } else { let k = s.key_ix(); s.key_address(k) };
            let i = s.new_utxo(&addr, v);
            offered.push(i);
        }
        let st = s.r.below(4) as u8;
        balance = match s.r.below(4) {
            0 => Balance::InputsFromThenChange(st),
            1 if any_plutus => Balance::InputsFromAndChangeWithCollateralReturn(st, *s.r.pick(&[150u64, 100, 0, 1000, 151])),
            _ => Balance::InputsFromAndChange(st),
        };
        if want_hash_before && !matches!(balance, Balance::InputsFromThenChange(_)) {
            cost_models = do_hash(&mut s, &mut tb);
            hash_done = true;
        }
    } else {
        // top up with one more key input so that add_change_if_needed can succeed
        let mut v = Val::coin(0);
        let missing = target.saturating_sub(have_coin);
        let leftover = match s.r.below(6) {
            0 => 0u64,
            1 => s.r.below(900_000),
            2 => 1_000_000 + s.r.below(200_000),
            _ => 2_000_000 + s.r.below(50_000_000),
        };
        v.coin = (missing as u64).saturating_add(leftover) as i128;
        for (k, q) in need_assets.iter_mut() {
            if *q > 0 {
                v.add_asset(k.clone(), *q + if s.r.bool() { 0 } else { s.r.below(5) as i128 });
                *q = 0;
            }
        }
        if v.coin > 0 || !v.assets.is_empty() || have_coin == 0 {
            if v.coin < 1_000_000 {
                v.coin += 1_000_000;
            }
            // the tuning not yet applied to an explicit key input is applied here
            if let Some(d) = s.f.tune_first_key_input.take() {
                if v.coin - d >= 1_000_000 {
                    v.coin -= d;
                    s.log.push(format!("(tuned: the top-up input was made {} lovelace poorer)", d));
                    s.tuned = true;
                }
            }
            let k = s.key_ix();
            let addr = s.key_address(k);
            let i = s.new_utxo(&addr, v.clone());
            let o = s.outpoint(i);
            let sv = s.sloppy(val_to_csl(&v));
            let r = g!(s, "add_regular_input(top-up)", tb.add_regular_input(&addr, &Scn::tx_input(&o), &sv));
            s.log.push(format!("top-up key input key{} coin={} assets={} -> {}", k, v.coin, v.assets.len(), r.as_ref().map(ok_str).unwrap_or("PANIC".into())));
        }
        balance = if s.p(3) { Balance::AddChangeWithDatum } else { Balance::AddChange };
        if want_hash_before {
            cost_models = do_hash(&mut s, &mut tb);
            hash_done = true;
        }
    }
    let tb_before = tb.clone();
    pre_inputs = {
        let ins = tb.build_tx_unsafe().ok().map(|_| ()).map(|_| ()).and(None::<()>);
        let _ = ins;
        let mut v = vec![];
        if let Some(Ok(body_inputs)) = g!(s, "pre-inputs", Ok::<TransactionInputs, ()>(collect_inputs(&tb))) {
            for i in 0..body_inputs.len() {
                let x = body_inputs.get(i);
                v.push((x.transaction_id().to_bytes(), x.index() as u64));
            }
        }
        v
    };
    let mut offered_csl = TransactionUnspentOutputs::new();
    for i in offered.clone() {
        let carried = s.carried_script(i);
        offered_csl.add(&s.csl_utxo(i, None, carried.as_ref()));
    }
    let mut cc = ChangeConfig::new(&change_addr);
    if s.p(2) {
        cc = cc.change_plutus_data(&OutputDatum::new_data_hash(&hash_plutus_data(&PlutusData::new_bytes(vec![9]))));
    } else if s.p(2) {
        cc = cc.change_plutus_data(&OutputDatum::new_data(&PlutusData::new_bytes(vec![9; 33])));
    }
    if s.p(3) {
        // change that carries a script reference: part of every change output's size, minimum ADA and of the fee
        let sr = if s.r.bool() { ScriptRef::new_native_script(&ring.natives[4]) } else { ScriptRef::new_plutus_script(&ring.plutus[0]) };
        cc = cc.change_script_ref(&sr);
        s.log.push("change config carries a script reference".into());
    }
    let balance_result: Result<String, String> = match balance {
        Balance::AddChange => g!(s, "add_change_if_needed", tb.add_change_if_needed(&change_addr)).map(|r| r.map(|b| format!("{}", b)).map_err(|e| format!("{:?}", e))).unwrap_or(Err("PANIC".into())),
        Balance::AddChangeWithDatum => g!(s, "add_change_if_needed_with_datum", tb.add_change_if_needed_with_datum(&change_addr, &OutputDatum::new_data(&PlutusData::new_bytes(vec![1; 40]))))
            .map(|r| r.map(|b| format!("{}", b)).map_err(|e| format!("{:?}", e)))
            .unwrap_or(Err("PANIC".into())),
        Balance::InputsFromThenChange(st) => {
            let r1 = g!(s, "add_inputs_from", tb.add_inputs_from(&offered_csl, strategy(st)));
            if want_hash_before && !hash_done {
                cost_models = do_hash(&mut s, &mut tb);
            }
            match r1 {
                Some(Ok(())) => g!(s, "add_change_if_needed", tb.add_change_if_needed(&change_addr)).map(|r| r.map(|b| format!("{}", b)).map_err(|e| format!("{:?}", e))).unwrap_or(Err("PANIC".into())),
                Some(Err(e)) => Err(format!("add_inputs_from: {:?}", e)),
                None => Err("PANIC".into()),
            }
        }
        Balance::InputsFromAndChange(st) => g!(s, "add_inputs_from_and_change", tb.add_inputs_from_and_change(&offered_csl, strategy(st), &cc))
            .map(|r| r.map(|b| format!("{}", b)).map_err(|e| format!("{:?}", e)))
            .unwrap_or(Err("PANIC".into())),
        Balance::InputsFromAndChangeWithCollateralReturn(st, pct) => g!(s, "add_inputs_from_and_change_with_collateral_return", tb.add_inputs_from_and_change_with_collateral_return(&offered_csl, strategy(st), &cc, &BigNum::from(pct)))
            .map(|r| r.map(|_| "()".to_string()).map_err(|e| format!("{:?}", e)))
            .unwrap_or(Err("PANIC".into())),
    };
    s.log.push(format!("balance {:?} -> {:?}", balance, balance_result));

    if any_plutus && hash_after {
        cost_models = do_hash(&mut s, &mut tb);
    }

    // now and then the fee request comes (or is changed) after balancing: the request in force at build time is
    // the one a built transaction has to honour
    let fee_fixed_at_balancing = matches!(fee_mode, FeeMode::Exact(_));
    if balance_result.is_ok() && s.r.below(20) == 0 {
        let cur: u64 = tb.get_fee_if_set().map(|f| f.into()).unwrap_or(0);
        let x = match s.r.below(4) {
            0 => cur,
            1 => cur + 1 + s.r.below(200_000),
            2 => cur.saturating_sub(1 + s.r.below(2_000)),
            _ => *s.r.pick(&[0u64, 65_536, 300_000, 5_000_000]),
        };
        if s.r.bool() {
            g!(s, "set_fee(late)", tb.set_fee(&BigNum::from(x)));
            fee_mode = FeeMode::Exact(x);
        } else {
            g!(s, "set_min_fee(late)", tb.set_min_fee(&BigNum::from(x)));
            fee_mode = FeeMode::MinFee(x);
        }
        s.log.push(format!("after balancing (fee {}): fee mode {:?}", cur, fee_mode));
    }

    // ---------------------------------------------------------------- build
    let build_result: Result<Transaction, String> = if balance_result.is_ok() {
        g!(s, "build_tx", tb.build_tx()).map(|r| r.map_err(|e| format!("{:?}", e))).unwrap_or(Err("PANIC".into()))
    } else {
        Err("not attempted (balancing failed)".into())
    };
    s.log.push(format!("build_tx -> {}", match &build_result { Ok(_) => "Ok".to_string(), Err(e) => format!("Err({})", e) }));
    let tx_bytes = match &build_result {
        Ok(tx) => g!(s, "tx.to_bytes", tx.to_bytes()),
        Err(_) => None,
    };

    Some(Outcome {
        params,
        utxos: s.utxos,
        builder: tb,
        balance,
        balance_result,
        build_result,
        tx_bytes,
        markers: if s.unit_redeemers { vec![] } else { s.markers },
        log: s.log,
        fee_mode,
        fee_fixed_at_balancing,
        inputs_at_hash_time: cost_models.as_ref().map(|x| x.1.clone()),
        cost_models: cost_models.map(|x| x.0),
        script_hash_called_last: !hash_after || true,
        offered,
        pre_inputs,
        change_addr: change_addr.to_bytes(),
        declared_refs: s.declared_refs,
        panics: s.panics,
        collateral_op,
        builder_before_balance: Some(tb_before),
        extra_signers: s.extra_signers,
        superseded: s.superseded,
        tuned: s.tuned,
        interim_hash: s.interim_hash,
        declared_signers: s.declared_signers,
        unit_redeemers: s.unit_redeemers,
        datum_refs: s.datum_refs,
        cert_order: s.cert_order,
        verbatim_datums: s.verbatim_datums,
    })
}

/// inputs currently in the builder, read through the public `build_tx_unsafe` / getters on a clone
pub fn collect_inputs(tb: &TransactionBuilder) -> TransactionInputs {
    // TransactionBuilder has no direct getter for its inputs; a body built with a dummy fee exposes them
    let mut c = tb.clone();
    c.set_fee(&BigNum::from(0u64));
    match c.build_tx_unsafe() {
        Ok(tx) => tx.body().inputs(),
        Err(_) => TransactionInputs::new(),
    }
}

// ------------------------------------------------------------------------------------------------ signing

/// Sign the built transaction with exactly the keys in `keys` / bootstrap addresses in `byron`.
/// Signatures are genuine when `real` is set, otherwise fixed-content 64-byte strings (same size).
pub fn sign_tx(tx: &Transaction, keys: &std::collections::BTreeSet<Vec<u8>>, byron: &std::collections::BTreeSet<Vec<u8>>, ring: &KeyRing, real: bool) -> Result<Transaction, String> {
    let body = tx.body();
    let hash = TransactionHash::from_bytes(vkit::codec::blake2b256(&body.to_bytes())).map_err(|e| format!("{:?}", e))?;
    let mut ws = tx.witness_set();
    if !keys.is_empty() {
        let mut vk = Vkeywitnesses::new();
        for h in keys {
            let k = ring.find_key(h).ok_or(format!("key hash {} not in the key ring", hx(h)))?;
            if real {
                vk.add(&make_vkey_witness(&hash, &k.sk));
            } else {
                vk.add(&Vkeywitness::new(&Vkey::new(&k.pk), &Ed25519Signature::from_bytes(vec![0x5a; 64]).unwrap()));
            }
        }
        ws.set_vkeys(&vk);
    }
    if !byron.is_empty() {
        let mut bw = BootstrapWitnesses::new();
        for a in byron {
            let b = ring.find_byron(a).ok_or(format!("byron address {} not in the key ring", hx(a)))?;
            bw.add(&make_icarus_bootstrap_witness(&hash, &b.addr, &b.xprv));
        }
        ws.set_bootstraps(&bw);
    }
    Ok(Transaction::new(&body, &ws, tx.auxiliary_data()))
}

/// key hashes named by ScriptPubkey nodes of the native scripts present in the witness set or declared as reference scripts
pub fn native_script_signers(tx: &Transaction, o: &Outcome, ring: &KeyRing) -> std::collections::BTreeSet<Vec<u8>> {
    // read off the script's own bytes with the independent reader (not with the library's
    // NativeScript -> key-hashes conversion, which is part of what is being judged)
    fn walk(it: &vkit::cbor::Item, out: &mut std::collections::BTreeSet<Vec<u8>>) {
        if let Some(a) = it.as_arr() {
            match a.first().and_then(|t| t.as_u64()) {
                Some(0) => {
                    if let Some(h) = a.get(1).and_then(|h| h.as_bytes()) {
                        out.insert(h.to_vec());
                    }
                }
                Some(1) | Some(2) => {
                    if let Some(xs) = a.get(1).and_then(|x| x.as_arr()) {
                        xs.iter().for_each(|x| walk(x, out));
                    }
                }
                Some(3) => {
                    if let Some(xs) = a.get(2).and_then(|x| x.as_arr()) {
                        xs.iter().for_each(|x| walk(x, out));
                    }
                }
                _ => {}
            }
        }
    }
    let mut out = std::collections::BTreeSet::new();
    let mut add = |ns: &NativeScript| {
        if let Ok(it) = vkit::cbor::parse(&ns.to_bytes()) {
            walk(&it, &mut out);
        }
    };
    if let Some(nss) = tx.witness_set().native_scripts() {
        for i in 0..nss.len() {
            add(&nss.get(i));
        }
    }
    let _ = ring;
    // scripts behind reference inputs: the keys their uses declared (the union over all uses)
    for k in &o.declared_signers {
        out.insert(k.clone());
    }
    out
}
