//! Registry of public serializable types: one line per type binds a generator to the type's
//! to_bytes / from_bytes / to_hex / from_hex / (to_json / from_json) entry points and to the CDDL
//! rule its encoding must satisfy (empty string: not judged by C03).

use super::typed::G;
use cardano_serialization_lib as csl;
use csl::*;

pub trait AnyVal {
    fn type_name(&self) -> &'static str;
    fn to_bytes(&self) -> Vec<u8>;
    fn to_hex(&self) -> String;
    fn from_bytes_same(&self, b: Vec<u8>) -> Result<Box<dyn AnyVal>, String>;
    fn from_hex_same(&self, h: &str) -> Result<Box<dyn AnyVal>, String>;
    fn has_json(&self) -> bool;
    fn to_json(&self) -> Option<Result<String, String>>;
    fn from_json_same(&self, j: &str) -> Option<Result<Box<dyn AnyVal>, String>>;
    fn eq_any(&self, other: &dyn AnyVal) -> bool;
    fn debug(&self) -> String;
    fn as_any(&self) -> &dyn std::any::Any;
}

pub struct TypeEntry {
    pub name: &'static str,
    pub cddl: &'static str,
    pub json: bool,
    pub gen: fn(&mut G) -> Box<dyn AnyVal>,
    pub from_bytes: fn(Vec<u8>) -> Result<Box<dyn AnyVal>, String>,
    pub from_hex: fn(&str) -> Result<Box<dyn AnyVal>, String>,
    pub from_json: Option<fn(&str) -> Result<Box<dyn AnyVal>, String>>,
}

macro_rules! anyval_common {
    ($t:ident, $eq:expr) => {
        fn type_name(&self) -> &'static str {
            stringify!($t)
        }
        fn to_bytes(&self) -> Vec<u8> {
            self.0.to_bytes()
        }
        fn to_hex(&self) -> String {
            self.0.to_hex()
        }
        fn from_bytes_same(&self, b: Vec<u8>) -> Result<Box<dyn AnyVal>, String> {
            $t::from_bytes(b).map(|v| Box::new(W(v)) as Box<dyn AnyVal>).map_err(|e| format!("{:?}", e))
        }
        fn from_hex_same(&self, h: &str) -> Result<Box<dyn AnyVal>, String> {
            $t::from_hex(h).map(|v| Box::new(W(v)) as Box<dyn AnyVal>).map_err(|e| format!("{:?}", e))
        }
        fn eq_any(&self, other: &dyn AnyVal) -> bool {
            match other.as_any().downcast_ref::<W>() {
                Some(o) => {
                    let f: fn(&$t, &$t) -> bool = $eq;
                    f(&self.0, &o.0)
                }
                None => false,
            }
        }
        fn debug(&self) -> String {
            format!("{:?}", self.0)
        }
        fn as_any(&self) -> &dyn std::any::Any {
            self
        }
    };
}

macro_rules! reg_json {
    ($v:ident, $t:ident, $rule:expr, $g:expr) => {
        reg_json!($v, $t, $rule, $g, |a, b| a == b)
    };
    ($v:ident, $t:ident, $rule:expr, $g:expr, $eq:expr) => {{
        struct W($t);
        impl AnyVal for W {
            anyval_common!($t, $eq);
            fn has_json(&self) -> bool {
                true
            }
            fn to_json(&self) -> Option<Result<String, String>> {
                Some(self.0.to_json().map_err(|e| format!("{:?}", e)))
            }
            fn from_json_same(&self, j: &str) -> Option<Result<Box<dyn AnyVal>, String>> {
                Some($t::from_json(j).map(|v| Box::new(W(v)) as Box<dyn AnyVal>).map_err(|e| format!("{:?}", e)))
            }
        }
        fn gen(g: &mut G) -> Box<dyn AnyVal> {
            let f: fn(&mut G) -> $t = $g;
            Box::new(W(f(g)))
        }
        fn fb(b: Vec<u8>) -> Result<Box<dyn AnyVal>, String> {
            $t::from_bytes(b).map(|v| Box::new(W(v)) as Box<dyn AnyVal>).map_err(|e| format!("{:?}", e))
        }
        fn fh(h: &str) -> Result<Box<dyn AnyVal>, String> {
            $t::from_hex(h).map(|v| Box::new(W(v)) as Box<dyn AnyVal>).map_err(|e| format!("{:?}", e))
        }
        fn fj(j: &str) -> Result<Box<dyn AnyVal>, String> {
            $t::from_json(j).map(|v| Box::new(W(v)) as Box<dyn AnyVal>).map_err(|e| format!("{:?}", e))
        }
        $v.push(TypeEntry { name: stringify!($t), cddl: $rule, json: true, gen, from_bytes: fb, from_hex: fh, from_json: Some(fj) });
    }};
}

macro_rules! reg_bytes {
    ($v:ident, $t:ident, $rule:expr, $g:expr) => {
        reg_bytes!($v, $t, $rule, $g, |a, b| a == b)
    };
    ($v:ident, $t:ident, $rule:expr, $g:expr, $eq:expr) => {{
        struct W($t);
        impl AnyVal for W {
            anyval_common!($t, $eq);
            fn has_json(&self) -> bool {
                false
            }
            fn to_json(&self) -> Option<Result<String, String>> {
                None
            }
            fn from_json_same(&self, _j: &str) -> Option<Result<Box<dyn AnyVal>, String>> {
                None
            }
        }
        fn gen(g: &mut G) -> Box<dyn AnyVal> {
            let f: fn(&mut G) -> $t = $g;
            Box::new(W(f(g)))
        }
        fn fb(b: Vec<u8>) -> Result<Box<dyn AnyVal>, String> {
            $t::from_bytes(b).map(|v| Box::new(W(v)) as Box<dyn AnyVal>).map_err(|e| format!("{:?}", e))
        }
        fn fh(h: &str) -> Result<Box<dyn AnyVal>, String> {
            $t::from_hex(h).map(|v| Box::new(W(v)) as Box<dyn AnyVal>).map_err(|e| format!("{:?}", e))
        }
        $v.push(TypeEntry { name: stringify!($t), cddl: $rule, json: false, gen, from_bytes: fb, from_hex: fh, from_json: None });
    }};
}

pub fn registry() -> Vec<TypeEntry> {
    let mut v: Vec<TypeEntry> = Vec::new();
    // ---- transaction and its parts (judged by C03)
    reg_json!(v, Transaction, "transaction", |g| g.transaction(false));
    reg_json!(v, TransactionBody, "transaction_body", |g| g.tx_body(false));
    reg_json!(v, TransactionWitnessSet, "transaction_witness_set", |g| g.witness_set());
    reg_json!(v, AuxiliaryData, "auxiliary_data", |g| g.auxiliary_data());
    reg_json!(v, TransactionInput, "transaction_input", |g| g.tx_input());
    reg_json!(v, TransactionInputs, "set<transaction_input>", |g| g.tx_inputs(true));
    reg_json!(v, TransactionOutput, "transaction_output", |g| g.tx_output());
    reg_json!(v, TransactionOutputs, "[* transaction_output]", |g| g.tx_outputs());
    reg_json!(v, Value, "value", |g| g.value());
    reg_json!(v, MultiAsset, "multiasset<positive_coin>", |g| g.multiasset());
    reg_json!(v, Assets, "assets<positive_coin>", |g| g.assets());
    reg_json!(v, AssetName, "asset_name", |g| g.asset_name());
    reg_json!(v, Mint, "mint", |g| g.mint());
    reg_json!(v, Certificate, "certificate", |g| g.certificate(false));
    reg_json!(v, Certificates, "nonempty_oset<certificate>?", |g| g.certificates(true, false));
    reg_json!(v, StakeRegistration, "certificate", |g| {
        let c = g.credential();
        if g.opt() { StakeRegistration::new_with_explicit_deposit(&c, &g.coin()) } else { StakeRegistration::new(&c) }
    });
    reg_json!(v, StakeDeregistration, "certificate", |g| {
        let c = g.credential();
        if g.opt() { StakeDeregistration::new_with_explicit_refund(&c, &g.coin()) } else { StakeDeregistration::new(&c) }
    });
    reg_json!(v, StakeDelegation, "certificate", |g| StakeDelegation::new(&g.credential(), &g.keyhash()));
    reg_json!(v, PoolRegistration, "certificate", |g| PoolRegistration::new(&g.pool_params()));
    reg_json!(v, PoolRetirement, "certificate", |g| { let e = g.u32(); PoolRetirement::new(&g.keyhash(), e) });
    reg_json!(v, VoteDelegation, "certificate", |g| VoteDelegation::new(&g.credential(), &g.drep()));
    reg_json!(v, StakeAndVoteDelegation, "certificate", |g| StakeAndVoteDelegation::new(&g.credential(), &g.keyhash(), &g.drep()));
    reg_json!(v, StakeRegistrationAndDelegation, "certificate", |g| StakeRegistrationAndDelegation::new(&g.credential(), &g.keyhash(), &g.coin()));
    reg_json!(v, VoteRegistrationAndDelegation, "certificate", |g| VoteRegistrationAndDelegation::new(&g.credential(), &g.drep(), &g.coin()));
    reg_json!(v, StakeVoteRegistrationAndDelegation, "certificate", |g| StakeVoteRegistrationAndDelegation::new(&g.credential(), &g.keyhash(), &g.drep(), &g.coin()));
    reg_json!(v, CommitteeHotAuth, "certificate", |g| CommitteeHotAuth::new(&g.credential(), &g.credential()));
    reg_json!(v, CommitteeColdResign, "certificate", |g| {
        let c = g.credential();
        if g.opt() { CommitteeColdResign::new_with_anchor(&c, &g.anchor()) } else { CommitteeColdResign::new(&c) }
    });
    reg_json!(v, DRepRegistration, "certificate", |g| {
        let c = g.credential();
        if g.opt() { DRepRegistration::new_with_anchor(&c, &g.coin(), &g.anchor()) } else { DRepRegistration::new(&c, &g.coin()) }
    });
    reg_json!(v, DRepDeregistration, "certificate", |g| DRepDeregistration::new(&g.credential(), &g.coin()));
    reg_json!(v, DRepUpdate, "certificate", |g| {
        let c = g.credential();
        if g.opt() { DRepUpdate::new_with_anchor(&c, &g.anchor()) } else { DRepUpdate::new(&c) }
    });
    reg_json!(v, PoolParams, "pool_params_array", |g| g.pool_params());
    reg_json!(v, PoolMetadata, "pool_metadata", |g| { let u = g.url(64); PoolMetadata::new(&u, &PoolMetadataHash::from_bytes(g.hash32()).unwrap()) });
    reg_json!(v, Relay, "relay", |g| g.relay());
    reg_json!(v, Relays, "[* relay]", |g| { let mut r = Relays::new(); for _ in 0..g.n(3) { r.add(&g.relay()); } r });
    reg_json!(v, SingleHostAddr, "relay", |g| match g.relay().as_single_host_addr() { Some(x) => x, None => SingleHostAddr::new(None, None, None) });
    reg_json!(v, SingleHostName, "relay", |g| { let d = g.dns(64); SingleHostName::new(Some(g.r.below(65536) as u16), &DNSRecordAorAAAA::new(d).unwrap()) });
    reg_json!(v, MultiHostName, "relay", |g| { let d = g.dns(64); MultiHostName::new(&DNSRecordSRV::new(d).unwrap()) });
    reg_json!(v, DNSRecordAorAAAA, "dns_name", |g| { let d = g.dns(64); DNSRecordAorAAAA::new(d).unwrap() });
    reg_json!(v, DNSRecordSRV, "dns_name", |g| { let d = g.dns(64); DNSRecordSRV::new(d).unwrap() });
    reg_json!(v, Ipv4, "ipv4", |g| Ipv4::new(g.r.bytes(4)).unwrap());
    reg_json!(v, Ipv6, "ipv6", |g| Ipv6::new(g.r.bytes(16)).unwrap());
    reg_json!(v, URL, "url128", |g| g.url(128));
    reg_json!(v, Withdrawals, "withdrawals", |g| g.withdrawals(true));
    reg_json!(v, Credential, "credential", |g| g.credential());
    reg_json!(v, Credentials, "set<credential>", |g| g.credentials());
    reg_json!(v, Ed25519KeyHashes, "set<addr_keyhash>", |g| g.keyhashes(true));
    reg_json!(v, RewardAddresses, "[* reward_account]", |g| { let mut r = RewardAddresses::new(); for _ in 0..g.n(3) { r.add(&g.reward_address()); } r });
    reg_json!(v, ScriptHashes, "[* script_hash]", |g| { let mut r = ScriptHashes::new(); for _ in 0..g.n(3) { r.add(&g.scripthash()); } r });
    reg_json!(v, UnitInterval, "unit_interval", |g| g.unit_interval());
    reg_json!(v, Anchor, "anchor", |g| g.anchor());
    reg_json!(v, DRep, "drep", |g| g.drep());
    reg_json!(v, Voter, "voter", |g| g.voter());
    reg_json!(v, VotingProcedure, "voting_procedure", |g| g.voting_procedure());
    reg_json!(v, VotingProcedures, "voting_procedures", |g| g.voting_procedures());
    reg_json!(v, VotingProposal, "proposal_procedure", |g| g.voting_proposal());
    reg_json!(v, VotingProposals, "nonempty_oset<proposal_procedure>?", |g| g.voting_proposals(true));
    reg_json!(v, GovernanceAction, "gov_action", |g| g.governance_action());
    reg_json!(v, GovernanceActionId, "gov_action_id", |g| g.gov_action_id());
    reg_json!(v, ParameterChangeAction, "gov_action", |g| match g.governance_action_kind(0).as_parameter_change_action() { Some(x) => x, None => ParameterChangeAction::new(&ProtocolParamUpdate::new()) });
    reg_json!(v, HardForkInitiationAction, "gov_action", |g| HardForkInitiationAction::new(&g.protocol_version()));
    reg_json!(v, TreasuryWithdrawalsAction, "gov_action", |g| TreasuryWithdrawalsAction::new(&g.treasury_withdrawals()));
    reg_json!(v, NoConfidenceAction, "gov_action", |g| if g.opt() { NoConfidenceAction::new_with_action_id(&g.gov_action_id()) } else { NoConfidenceAction::new() });
    reg_json!(v, UpdateCommitteeAction, "gov_action", |g| { let c = g.committee(); UpdateCommitteeAction::new(&c, &g.credentials()) });
    reg_json!(v, NewConstitutionAction, "gov_action", |g| NewConstitutionAction::new(&g.constitution()));
    reg_json!(v, Committee, "", |g| g.committee());
    reg_json!(v, Constitution, "constitution", |g| g.constitution());
    reg_json!(v, ProtocolParamUpdate, "protocol_param_update", |g| g.protocol_param_update());
    reg_json!(v, ProtocolVersion, "protocol_version", |g| g.protocol_version());
    reg_json!(v, DRepVotingThresholds, "drep_voting_thresholds", |g| g.drep_voting_thresholds());
    reg_json!(v, PoolVotingThresholds, "pool_voting_thresholds", |g| g.pool_voting_thresholds());
    reg_json!(v, ExUnits, "ex_units", |g| g.ex_units());
    reg_json!(v, ExUnitPrices, "ex_unit_prices", |g| g.ex_unit_prices());
    reg_json!(v, CostModel, "cost_model", |g| g.cost_model());
    reg_json!(v, Costmdls, "cost_models", |g| g.costmdls());
    reg_json!(v, Language, "language", |g| g.language());
    reg_json!(v, NativeScript, "native_script", |g| g.native_script());
    reg_json!(v, NativeScripts, "[* native_script]", |g| g.native_scripts(true));
    reg_json!(v, ScriptPubkey, "native_script", |g| ScriptPubkey::new(&g.keyhash()));
    reg_json!(v, ScriptAll, "native_script", |g| ScriptAll::new(&g.native_scripts(true)));
    reg_json!(v, ScriptAny, "native_script", |g| ScriptAny::new(&g.native_scripts(true)));
    reg_json!(v, ScriptNOfK, "native_script", |g| { let n = g.u32(); ScriptNOfK::new(n, &g.native_scripts(true)) });
    reg_json!(v, TimelockStart, "native_script", |g| TimelockStart::new_timelockstart(&g.slot()));
    reg_json!(v, TimelockExpiry, "native_script", |g| TimelockExpiry::new_timelockexpiry(&g.slot()));
    reg_bytes!(v, PlutusScript, "bytes", |g| { let s = g.plutus_script(); PlutusScript::new(s.bytes()) });
    reg_json!(v, PlutusScripts, "[* bytes]", |g| g.plutus_scripts_v1());
    reg_json!(v, ScriptRef, "script_ref", |g| g.script_ref());
    reg_bytes!(v, PlutusData, "plutus_data", |g| g.plutus_data());
    reg_bytes!(v, PlutusList, "plutus_list", |g| g.plutus_list());
    reg_bytes!(v, ConstrPlutusData, "plutus_data", |g| { let a = g.constr_alt(); ConstrPlutusData::new(&BigNum::from(a), &g.plutus_list()) });
    reg_json!(v, Redeemer, "redeemer_legacy", |g| g.redeemer());
    reg_json!(v, Redeemers, "redeemers", |g| g.redeemers(false));
    reg_json!(v, RedeemerTag, "redeemer_tag", |g| g.redeemer_tag());
    reg_bytes!(v, TransactionMetadatum, "transaction_metadatum", |g| g.metadatum());
    reg_json!(v, GeneralTransactionMetadata, "metadata", |g| g.general_metadata(true));
    reg_json!(v, Vkey, "vkey", |g| g.vkey());
    reg_json!(v, Vkeywitness, "vkeywitness", |g| g.vkeywitness());
    reg_json!(v, Vkeywitnesses, "set<vkeywitness>", |g| g.vkeywitnesses(true));
    reg_json!(v, BootstrapWitness, "bootstrap_witness", |g| g.bootstrap_witness());
    reg_json!(v, BootstrapWitnesses, "set<bootstrap_witness>", |g| g.bootstrap_witnesses(true));
    reg_json!(v, BigNum, "uint", |g| g.coin());
    reg_json!(v, Int, "int", |g| g.md_int());
    reg_json!(v, BigInt, "big_int", |g| g.bigint());
    reg_json!(v, NetworkId, "network_id", |g| if g.r.bool() { NetworkId::mainnet() } else { NetworkId::testnet() });
    reg_json!(v, TransactionUnspentOutput, "[transaction_input, transaction_output]", |g| TransactionUnspentOutput::new(&g.tx_input(), &g.tx_output()), |a, b| a.input() == b.input() && a.output() == b.output());
    // ---- legacy / pre-Conway and block-level types (round trips only; not parts of a Conway transaction)
    reg_json!(v, GenesisKeyDelegation, "", |g| match g.certificate_kind(5).as_genesis_key_delegation() { Some(x) => x, None => unreachable!() });
    reg_json!(v, MoveInstantaneousRewardsCert, "", |g| match g.certificate_kind(6).as_move_instantaneous_rewards_cert() { Some(x) => x, None => unreachable!() });
    reg_json!(v, MoveInstantaneousReward, "", |g| match g.certificate_kind(6).as_move_instantaneous_rewards_cert() { Some(x) => x.move_instantaneous_reward(), None => unreachable!() });
    reg_json!(v, Update, "", |g| g.update());
    reg_json!(v, ProposedProtocolParameterUpdates, "", |g| { let mut p = ProposedProtocolParameterUpdates::new(); p.insert(&GenesisHash::from_bytes(g.hash28()).unwrap(), &g.protocol_param_update_legacy()); p });
    reg_json!(v, GenesisHashes, "", |g| { let mut r = GenesisHashes::new(); for _ in 0..g.n(3) { r.add(&GenesisHash::from_bytes(g.hash28()).unwrap()); } r });
    reg_json!(v, Nonce, "", |g| if g.r.bool() { Nonce::new_identity() } else { Nonce::new_from_hash(g.hash32()).unwrap() });
    reg_json!(v, VRFCert, "", |g| g.vrf_cert());
    reg_json!(v, OperationalCert, "", |g| g.operational_cert());
    reg_json!(v, HeaderBody, "", |g| g.header_body());
    reg_json!(v, Header, "", |g| g.header());
    reg_json!(v, Block, "", |g| g.block());
    reg_json!(v, TransactionBodies, "", |g| { let mut b = TransactionBodies::new(); for _ in 0..g.n(2) { b.add(&g.tx_body(true)); } b });
    reg_json!(v, TransactionWitnessSets, "", |g| { let mut b = TransactionWitnessSets::new(); for _ in 0..g.n(2) { b.add(&g.witness_set()); } b });
    v
}
