pub mod registry;
pub mod typed;
