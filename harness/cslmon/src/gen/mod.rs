pub mod mutate;
pub mod registry;
pub mod typed;
