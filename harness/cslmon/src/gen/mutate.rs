//! Structure-aware mutators for decoder inputs: work on the item tree of the independent CBOR
//! reader, then optionally on the encoded bytes.

use vkit::cbor::{self, Item, V};
use vkit::rng::Rng;

fn count(it: &Item) -> usize {
    it.count()
}

/// apply `f` to the n-th node in pre-order
fn with_nth(it: &mut Item, n: &mut usize, f: &mut dyn FnMut(&mut Item)) -> bool {
    if *n == 0 {
        f(it);
        return true;
    }
    *n -= 1;
    match &mut it.v {
        V::A(xs) => {
            for x in xs.iter_mut() {
                if with_nth(x, n, f) {
                    return true;
                }
            }
        }
        V::M(xs) => {
            for (k, v) in xs.iter_mut() {
                if with_nth(k, n, f) {
                    return true;
                }
                if with_nth(v, n, f) {
                    return true;
                }
            }
        }
        V::Tag(_, inner) => {
            if with_nth(inner, n, f) {
                return true;
            }
        }
        _ => {}
    }
    false
}

pub const TREE_MUTATIONS: usize = 22;

pub fn tree_mutation_name(k: usize) -> &'static str {
    [
        "head-width", "indefinite", "int-boundary", "to-null", "to-undefined", "to-simple", "to-float", "wrap-tag", "swap-major", "dup-map-entry", "reverse", "delete-element",
        "insert-element", "bytes-length", "strip-tag", "int-to-bytes", "nest-array", "empty-container", "dup-element", "chunk-bytes", "negate", "text-invalid-utf8",
    ][k % TREE_MUTATIONS]
}

/// one tree-level mutation of kind k at a random node
pub fn mutate_tree(it: &mut Item, r: &mut Rng, k: usize) {
    let n = count(it);
    let mut idx = r.usize(n);
    let seed = r.u64();
    let mut f = |node: &mut Item| {
        let mut r = Rng::new(seed);
        match k % TREE_MUTATIONS {
            0 => node.w = *r.pick(&[0u8, 1, 2, 4, 8]),
            1 => {
                let x = std::mem::replace(node, Item::null());
                *node = x.indef();
            }
            2 => {
                let b = *r.pick(&[0u64, 23, 24, 255, 256, 65535, 65536, u32::MAX as u64, 1 << 32, (1 << 63) - 1, 1 << 63, u64::MAX]);
                *node = if r.bool() { Item::u(b) } else { Item::n(b) };
            }
            3 => *node = Item::null(),
            4 => *node = Item::new(V::Simple(23)),
            5 => *node = Item::new(V::Simple(*r.pick(&[0u8, 19, 20, 21, 32, 255]))),
            6 => *node = Item::new(V::F(*r.pick(&[2u8, 4, 8]), r.u64())),
            7 => {
                let t = *r.pick(&[258u64, 24, 2, 3, 30, 121, 102, 1280, 259, 0, u64::MAX]);
                let x = std::mem::replace(node, Item::null());
                *node = Item::tag(t, x);
            }
            8 => {
                let x = std::mem::replace(node, Item::null());
                *node = match x.v {
                    V::U(n) => Item::n(n),
                    V::N(n) => Item::u(n),
                    V::B(b) => Item::new(V::T(b)),
                    V::T(b) => Item::new(V::B(b)),
                    V::A(xs) => {
                        let mut m = vec![];
                        let mut it = xs.into_iter();
                        while let (Some(a), Some(b)) = (it.next(), it.next()) {
                            m.push((a, b));
                        }
                        Item::map(m)
                    }
                    V::M(xs) => Item::arr(xs.into_iter().flat_map(|(k, v)| vec![k, v]).collect()),
                    other => Item::new(other),
                };
            }
            9 => {
                if let V::M(xs) = &mut node.v {
                    if !xs.is_empty() {
                        let e = xs[r.usize(xs.len())].clone();
                        xs.push(e);
                        node.w = cbor::min_width(xs.len() as u64);
                    }
                }
            }
            10 => match &mut node.v {
                V::A(xs) => xs.reverse(),
                V::M(xs) => xs.reverse(),
                _ => {}
            },
            11 => match &mut node.v {
                V::A(xs) if !xs.is_empty() => {
                    let i = r.usize(xs.len());
                    xs.remove(i);
                    node.w = cbor::min_width(xs.len() as u64);
                }
                V::M(xs) if !xs.is_empty() => {
                    let i = r.usize(xs.len());
                    xs.remove(i);
                    node.w = cbor::min_width(xs.len() as u64);
                }
                _ => {}
            },
            12 => match &mut node.v {
                V::A(xs) => {
                    let e = if xs.is_empty() || r.bool() { Item::u(r.below(30)) } else { xs[r.usize(xs.len())].clone() };
                    let i = r.usize(xs.len() + 1);
                    xs.insert(i, e);
                    node.w = cbor::min_width(xs.len() as u64);
                }
                V::M(xs) => {
                    xs.push((Item::u(r.below(40)), Item::u(r.below(40))));
                    node.w = cbor::min_width(xs.len() as u64);
                }
                _ => {}
            },
            13 => {
                if let V::B(b) = &mut node.v {
                    let n = r.usize(81);
                    *b = r.bytes(n);
                    node.w = cbor::min_width(n as u64);
                    node.indef = false;
                    node.chunks.clear();
                }
            }
            14 => {
                if let V::Tag(_, inner) = &mut node.v {
                    let x = std::mem::replace(inner.as_mut(), Item::null());
                    *node = x;
                }
            }
            15 => {
                if let V::U(n) = node.v {
                    *node = Item::bytes(&n.to_be_bytes());
                }
            }
            16 => {
                let x = std::mem::replace(node, Item::null());
                *node = Item::arr(vec![x]);
            }
            17 => match &mut node.v {
                V::A(xs) => {
                    xs.clear();
                    node.w = 0;
                }
                V::M(xs) => {
                    xs.clear();
                    node.w = 0;
                }
                V::B(b) | V::T(b) => {
                    b.clear();
                    node.w = 0;
                    node.indef = false;
                    node.chunks.clear();
                }
                _ => {}
            },
            18 => {
                if let V::A(xs) = &mut node.v {
                    if !xs.is_empty() {
                        let e = xs[r.usize(xs.len())].clone();
                        xs.push(e);
                        node.w = cbor::min_width(xs.len() as u64);
                    }
                }
            }
            19 => {
                if let V::B(b) = &node.v {
                    if !b.is_empty() {
                        let c = 1 + r.usize(b.len());
                        node.indef = true;
                        node.w = 0;
                        node.chunks = vec![(c, cbor::min_width(c as u64)), (b.len() - c, cbor::min_width((b.len() - c) as u64))];
                    }
                }
            }
            20 => {
                if let V::U(n) = node.v {
                    *node = Item::n(n.saturating_sub(1));
                }
            }
            _ => {
                if let V::T(b) = &mut node.v {
                    b.push(0xff);
                    node.w = cbor::min_width(b.len() as u64);
                }
            }
        }
    };
    with_nth(it, &mut idx, &mut f);
}

pub const BYTE_MUTATIONS: usize = 8;
pub fn byte_mutation_name(k: usize) -> &'static str {
    ["truncate", "bit-flip", "insert-break", "length-plus-one", "length-minus-one", "append-garbage", "delete-byte", "huge-length"][k % BYTE_MUTATIONS]
}

/// byte-level mutation
pub fn mutate_bytes(b: &mut Vec<u8>, r: &mut Rng, k: usize) {
    if b.is_empty() {
        return;
    }
    match k % BYTE_MUTATIONS {
        0 => {
            let n = r.usize(b.len());
            b.truncate(n);
        }
        1 => {
            let i = r.usize(b.len());
            b[i] ^= 1 << r.below(8);
        }
        2 => {
            let i = r.usize(b.len() + 1);
            b.insert(i, 0xff);
        }
        3 | 4 => {
            // find a head with an inline length and change it by one
            let start = r.usize(b.len());
            for off in 0..b.len() {
                let i = (start + off) % b.len();
                let major = b[i] >> 5;
                let ai = b[i] & 0x1f;
                if (2..=5).contains(&major) && ai > 0 && ai < 23 {
                    if k % BYTE_MUTATIONS == 3 {
                        b[i] += 1;
                    } else {
                        b[i] -= 1;
                    }
                    break;
                }
            }
        }
        5 => {
            let n = 1 + r.usize(4);
            let g = r.bytes(n);
            b.extend_from_slice(&g);
        }
        6 => {
            let i = r.usize(b.len());
            b.remove(i);
        }
        _ => {
            // replace an inline length head by an 8-byte length that still fits in memory lazily (2^32) or 2^16
            let start = r.usize(b.len());
            for off in 0..b.len() {
                let i = (start + off) % b.len();
                let major = b[i] >> 5;
                let ai = b[i] & 0x1f;
                if (2..=5).contains(&major) && ai < 24 {
                    let len: u64 = *r.pick(&[1u64 << 16, 1 << 20, 70_000]);
                    let mut head = vec![(major << 5) | 27];
                    head.extend_from_slice(&len.to_be_bytes());
                    b.splice(i..i + 1, head);
                    break;
                }
            }
        }
    }
}

/// random well-formed CBOR item of bounded size, independent of any type
pub fn grammar_item(r: &mut Rng, depth: u32) -> Item {
    let leaf = depth == 0 || r.below(3) == 0;
    if leaf {
        match r.below(8) {
            0 => Item::u(r.wide_u64()),
            1 => Item::n(r.wide_u64()),
            2 => {
                let n = *r.pick(&[0usize, 1, 4, 28, 29, 32, 33, 64, 65]);
                Item::bytes(&r.bytes(n))
            }
            3 => Item::text(["", "a", "https://x", "0x00"][r.usize(4)]),
            4 => Item::null(),
            5 => Item::new(V::Simple(*r.pick(&[20u8, 21, 23]))),
            6 => Item::u(r.below(30)),
            _ => Item::new(V::F(8, r.u64())),
        }
    } else {
        match r.below(4) {
            0 => {
                let n = r.usize(5);
                let it = Item::arr((0..n).map(|_| grammar_item(r, depth - 1)).collect());
                if r.below(4) == 0 {
                    it.indef()
                } else {
                    it
                }
            }
            1 => {
                let n = r.usize(4);
                let it = Item::map((0..n).map(|_| (if r.bool() { Item::u(r.below(25)) } else { grammar_item(r, 0) }, grammar_item(r, depth - 1))).collect());
                if r.below(4) == 0 {
                    it.indef()
                } else {
                    it
                }
            }
            2 => Item::tag(*r.pick(&[258u64, 24, 2, 3, 30, 121, 122, 102, 259, 1280]), grammar_item(r, depth - 1)),
            _ => {
                // a "record": array starting with a small tag like most ledger variants
                let n = 1 + r.usize(5);
                let mut xs = vec![Item::u(r.below(20))];
                for _ in 1..n {
                    xs.push(grammar_item(r, depth - 1));
                }
                Item::arr(xs)
            }
        }
    }
}

/// nest `inner` `depth` times in arrays / tags / maps
pub fn nest(inner: Item, depth: usize, kind: u64) -> Item {
    let mut it = inner;
    for i in 0..depth {
        it = match kind % 4 {
            0 => Item::arr(vec![it]),
            1 => Item::tag(121, Item::arr(vec![it]).indef()),
            2 => Item::map(vec![(Item::u(0), it)]),
            _ => {
                if i % 2 == 0 {
                    Item::arr(vec![Item::u(1), Item::arr(vec![it])])
                } else {
                    Item::arr(vec![it])
                }
            }
        };
    }
    it
}
