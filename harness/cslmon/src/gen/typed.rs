//! Typed value generators: every value is built ONLY through public constructors and setters.
//! `Tags` records facts the oracles need and cannot infer from the value.

use cardano_serialization_lib as csl;
use csl::*;
use vkit::rng::Rng;

#[derive(Clone, Debug, Default)]
pub struct Tags {
    /// an optional collection field was set to an empty collection (wire format writes it as absent)
    pub empty_optional_collection: bool,
    /// some insertion-ordered map was filled in non-ascending key order (or with repeated keys)
    pub unsorted_map: bool,
    /// contains pre-Conway constructs (update field, certificate kinds 5/6)
    pub legacy: bool,
    /// a PlutusMap key was inserted with an empty value list (has no wire representation)
    pub plutus_empty_values: bool,
    /// the value holds amounts / ints outside what the CDDL allows but the API accepts (reported by C03)
    pub notes: Vec<&'static str>,
}

pub struct G<'a> {
    pub r: &'a mut Rng,
    /// remaining nesting budget for recursive structures
    pub depth: u32,
    /// upper bound for collection sizes
    pub coll: usize,
    pub tags: Tags,
    /// force every optional field decision: Some(mask) consumed bit by bit, None = random
    pub mask: Option<u64>,
    /// when set, integer fields take this value (width-class sweeps)
    pub force_int: Option<u64>,
    /// probability (out of 16) that maps are filled in sorted order
    pub sorted_bias: u64,
    /// generate transaction / governance-action indices above 65535 (the API type is u32, the CDDL says uint .size 2)
    pub wide_index: bool,
    /// generate PlutusV1 scripts only (the JSON form of a script does not record its language)
    pub v1_only: bool,
    /// Mint values hold a policy id more than once (Mint::insert appends; C01's own stream only)
    pub repeat_mint_policy: bool,
}

impl<'a> G<'a> {
    pub fn new(r: &'a mut Rng, depth: u32, coll: usize) -> G<'a> {
        G { r, depth, coll, tags: Tags::default(), mask: None, force_int: None, sorted_bias: 8, wide_index: false, v1_only: false, repeat_mint_policy: false }
    }

    /// decision for an optional field
    pub fn opt(&mut self) -> bool {
        match &mut self.mask {
            Some(m) => {
                let b = *m & 1 == 1;
                *m >>= 1;
                b
            }
            None => self.r.chance(1, 3),
        }
    }
    /// take `k` optional-field decisions at once (so that a forced mask addresses exactly the
    /// top-level fields of the structure being generated) and suspend the mask for nested values
    pub fn decisions(&mut self, k: usize) -> Vec<bool> {
        let d: Vec<bool> = (0..k).map(|_| self.opt()).collect();
        self.mask = None;
        d
    }
    pub fn n(&mut self, max: usize) -> usize {
        let max = max.min(self.coll);
        match self.r.below(8) {
            0 => 0,
            1 => 1,
            2 => max,
            _ => self.r.usize(max + 1),
        }
    }
    /// at least one element
    pub fn n1(&mut self, max: usize) -> usize {
        self.n(max).max(1)
    }
    pub fn u64(&mut self) -> u64 {
        if let Some(v) = self.force_int {
            return v;
        }
        self.r.wide_u64()
    }
    pub fn u32(&mut self) -> u32 {
        if let Some(v) = self.force_int {
            return v.min(u32::MAX as u64) as u32;
        }
        match self.r.below(6) {
            0 => *self.r.pick(&[0u32, 1, 23, 24, 255, 256, 65535, 65536, u32::MAX - 1, u32::MAX]),
            1 => self.r.below(100) as u32,
            _ => self.r.u32() >> self.r.below(32),
        }
    }
    pub fn coin(&mut self) -> BigNum {
        BigNum::from(self.u64())
    }
    pub fn bytes(&mut self, n: usize) -> Vec<u8> {
        self.r.bytes(n)
    }
    pub fn hash28(&mut self) -> Vec<u8> {
        // small pool so that duplicates occur
        if self.r.chance(1, 4) {
            vec![self.r.below(4) as u8; 28]
        } else {
            self.r.bytes(28)
        }
    }
    pub fn hash32(&mut self) -> Vec<u8> {
        if self.r.chance(1, 4) {
            vec![self.r.below(4) as u8; 32]
        } else {
            self.r.bytes(32)
        }
    }
    pub fn keyhash(&mut self) -> Ed25519KeyHash {
        Ed25519KeyHash::from_bytes(self.hash28()).unwrap()
    }
    pub fn scripthash(&mut self) -> ScriptHash {
        ScriptHash::from_bytes(self.hash28()).unwrap()
    }
    pub fn txhash(&mut self) -> TransactionHash {
        TransactionHash::from_bytes(self.hash32()).unwrap()
    }
    pub fn credential(&mut self) -> Credential {
        if self.r.bool() {
            Credential::from_keyhash(&self.keyhash())
        } else {
            Credential::from_scripthash(&self.scripthash())
        }
    }
    pub fn network(&mut self) -> u8 {
        match self.r.below(4) {
            0 => 0,
            1 => 1,
            _ => self.r.below(16) as u8,
        }
    }
    pub fn pointer(&mut self) -> Pointer {
        Pointer::new_pointer(&BigNum::from(self.r.wide_u64()), &BigNum::from(self.r.wide_u64()), &BigNum::from(self.r.wide_u64()))
    }
    pub fn reward_address(&mut self) -> RewardAddress {
        let n = self.network();
        RewardAddress::new(n, &self.credential())
    }
    pub fn byron_address(&mut self) -> Address {
        // a few real Byron addresses (mainnet / testnet, with and without derivation payload)
        const B: [&str; 4] = [
            "Ae2tdPwUPEZ3MHKkpT5Bpj549vrRH7nBqYjNXnCV8G2Bc2YxNcGHEa8ykDp",
            "Ae2tdPwUPEZ5uzkzh1o2DHECiUi3iugvnnKHRisPgRRP3CTF4KCMvy54Xd3",
            "2cWKMJemoBakkUSWX3DWrfxy5ARFZRCDzZtD6fDBbTqzVsWvPFGdPe5t9MXzMhU9UmhSx",
            "DdzFFzCqrhsrcTVhLygT24QwTnNqRqQGwHkNdVVPPDYAoHcbkLnTDqWRuUzRvBhKsBCEuaQU5yjDNTrSQqSxcpYgE4jpZN8z8TUHttm2",
        ];
        let s = *self.r.pick(&B);
        match ByronAddress::from_base58(s) {
            Ok(b) => b.to_address(),
            Err(_) => self.enterprise(),
        }
    }
    pub fn enterprise(&mut self) -> Address {
        let n = self.network();
        EnterpriseAddress::new(n, &self.credential()).to_address()
    }
    pub fn address(&mut self) -> Address {
        let n = self.network();
        match self.r.below(10) {
            0..=3 => BaseAddress::new(n, &self.credential(), &self.credential()).to_address(),
            4 | 5 => EnterpriseAddress::new(n, &self.credential()).to_address(),
            6 => PointerAddress::new(n, &self.credential(), &self.pointer()).to_address(),
            7 => RewardAddress::new(n, &self.credential()).to_address(),
            _ => self.byron_address(),
        }
    }
    pub fn index(&mut self) -> u32 {
        let v = self.u32();
        if self.wide_index {
            v
        } else if v > 65535 {
            match self.r.below(3) {
                0 => 65535,
                1 => v & 0xffff,
                _ => v >> 16,
            }
        } else {
            v
        }
    }
    pub fn tx_input(&mut self) -> TransactionInput {
        let ix = self.index();
        TransactionInput::new(&self.txhash(), ix)
    }
    pub fn tx_inputs(&mut self, allow_empty: bool) -> TransactionInputs {
        let mut xs = TransactionInputs::new();
        let n = if allow_empty { self.n(6) } else { self.n1(6) };
        for _ in 0..n {
            xs.add(&self.tx_input());
        }
        xs
    }
    pub fn asset_name(&mut self) -> AssetName {
        let n = match self.r.below(6) {
            0 => 0,
            1 => 32,
            2 => 1,
            _ => self.r.usize(33),
        };
        let b = if self.r.chance(1, 3) { vec![0x41 + self.r.below(3) as u8; n] } else { self.r.bytes(n) };
        AssetName::new(b).unwrap()
    }
    pub fn nonzero_u64(&mut self) -> u64 {
        self.u64().max(1)
    }
    pub fn assets(&mut self) -> Assets {
        let mut a = Assets::new();
        for _ in 0..self.n1(4) {
            let q = self.nonzero_u64();
            a.insert(&self.asset_name(), &BigNum::from(q));
        }
        a
    }
    pub fn multiasset(&mut self) -> MultiAsset {
        let mut ma = MultiAsset::new();
        for _ in 0..self.n1(4) {
            ma.insert(&self.scripthash(), &self.assets());
        }
        ma
    }
    pub fn value(&mut self) -> Value {
        let c = self.coin();
        if self.r.chance(1, 40) {
            // a bundle that lists policies with nothing under them: the same value as the bare coin, and written
            // as the bare coin (an empty optional collection counts as absent)
            let mut ma = MultiAsset::new();
            for _ in 0..self.n1(2) {
                ma.insert(&self.scripthash(), &Assets::new());
            }
            self.tags.empty_optional_collection = true;
            return Value::new_with_assets(&c, &ma);
        }
        if self.r.chance(1, 3) {
            Value::new_with_assets(&c, &self.multiasset())
        } else {
            Value::new(&c)
        }
    }
    pub fn mint_assets(&mut self) -> MintAssets {
        let mut m = MintAssets::new();
        for _ in 0..self.n1(3) {
            // mostly inside int64; now and then whatever magnitude an Int can hold (insert is the validating
            // constructor: what it accepts has to be a mint quantity)
            let q = if self.r.chance(1, 8) { self.r.wide_u64().max(1) } else { (self.r.wide_u64() >> 1).max(1) };
            let v = if self.r.bool() { Int::new(&BigNum::from(q)) } else { Int::new_negative(&BigNum::from(q)) };
            let _ = m.insert(&self.asset_name(), &v);
        }
        m
    }
    pub fn mint(&mut self) -> Mint {
        let mut m = Mint::new();
        let n = self.n1(3);
        let mut seen: Vec<ScriptHash> = vec![];
        for _ in 0..n {
            let p = self.scripthash();
            if seen.contains(&p) {
                continue; // Mint::insert appends; repeated policies are generated only by C16's own workload
            }
            seen.push(p.clone());
            let ma = self.mint_assets();
            if ma.len() > 0 {
                m.insert(&p, &ma);
            }
        }
        if m.len() == 0 {
            let mut ma = MintAssets::new();
            let _ = ma.insert(&AssetName::new(vec![1]).unwrap(), &Int::new_i32(1));
            m.insert(&self.scripthash(), &ma);
        }
        if self.repeat_mint_policy {
            // the same policy once more with other assets, next to the first entry or after the others
            let p = seen.first().cloned().unwrap_or_else(|| m.keys().get(0));
            let mut ma = MintAssets::new();
            let _ = ma.insert(&AssetName::new(vec![0x72, self.r.below(3) as u8]).unwrap(), &Int::new_i32(1 + self.r.below(100) as i32));
            m.insert(&p, &ma);
        }
        m
    }

    // ------------------------------------------------------------------ scripts, data, metadata
    pub fn slot(&mut self) -> BigNum {
        BigNum::from(self.u64())
    }
    pub fn native_script(&mut self) -> NativeScript {
        let leaf = self.depth == 0 || self.r.chance(1, 2);
        if leaf {
            match self.r.below(3) {
                0 => NativeScript::new_script_pubkey(&ScriptPubkey::new(&self.keyhash())),
                1 => NativeScript::new_timelock_start(&TimelockStart::new_timelockstart(&self.slot())),
                _ => NativeScript::new_timelock_expiry(&TimelockExpiry::new_timelockexpiry(&self.slot())),
            }
        } else {
            self.depth -= 1;
            let mut xs = NativeScripts::new();
            for _ in 0..self.n(3) {
                xs.add(&self.native_script());
            }
            self.depth += 1;
            match self.r.below(3) {
                0 => NativeScript::new_script_all(&ScriptAll::new(&xs)),
                1 => NativeScript::new_script_any(&ScriptAny::new(&xs)),
                _ => {
                    let n = self.u32();
                    NativeScript::new_script_n_of_k(&ScriptNOfK::new(n, &xs))
                }
            }
        }
    }
    pub fn native_scripts(&mut self, allow_empty: bool) -> NativeScripts {
        let mut xs = NativeScripts::new();
        let n = if allow_empty { self.n(3) } else { self.n1(3) };
        for _ in 0..n {
            xs.add(&self.native_script());
        }
        xs
    }
    pub fn language(&mut self) -> Language {
        match self.r.below(3) {
            0 => Language::new_plutus_v1(),
            1 => Language::new_plutus_v2(),
            _ => Language::new_plutus_v3(),
        }
    }
    pub fn plutus_script(&mut self) -> PlutusScript {
        let n = match self.r.below(5) {
            0 => 0,
            1 => 64,
            2 => 65,
            _ => self.r.usize(200),
        };
        let b = self.r.bytes(n);
        if self.v1_only {
            return PlutusScript::new(b);
        }
        PlutusScript::new_with_version(b, &self.language())
    }
    /// Plutus scripts grouped by language (V1s, V2s, V3s): the wire format stores them in one
    /// field per language, so an order that interleaves languages has no representation.
    pub fn plutus_scripts(&mut self, allow_empty: bool) -> PlutusScripts {
        let n = if allow_empty { self.n(3) } else { self.n1(3) };
        let mut v: Vec<PlutusScript> = (0..n).map(|_| self.plutus_script()).collect();
        v.sort_by_key(|s| s.language_version().kind() as u8);
        let mut xs = PlutusScripts::new();
        for s in v {
            xs.add(&s);
        }
        xs
    }
    /// stand-alone PlutusScript(s) bytes do not carry the language: V1 only
    pub fn plutus_scripts_v1(&mut self) -> PlutusScripts {
        let mut xs = PlutusScripts::new();
        for _ in 0..self.n(3) {
            let s = self.plutus_script();
            xs.add(&PlutusScript::new(s.bytes()));
        }
        xs
    }
    pub fn bigint(&mut self) -> BigInt {
        let s = match self.r.below(8) {
            0 => self.r.wide_u64().to_string(),
            1 => format!("-{}", self.r.wide_u64()),
            2 => "18446744073709551616".to_string(),
            3 => "-18446744073709551616".to_string(),
            4 => "-18446744073709551617".to_string(),
            5 => {
                // large: up to 200 bytes
                let n = 9 + self.r.usize(190);
                let b = self.r.bytes(n);
                let v = num_bigint::BigInt::from_bytes_be(if self.r.bool() { num_bigint::Sign::Plus } else { num_bigint::Sign::Minus }, &b);
                v.to_string()
            }
            _ => (self.r.below(2000) as i64 - 1000).to_string(),
        };
        BigInt::from_str(&s).unwrap()
    }
    pub fn plutus_bytes(&mut self) -> Vec<u8> {
        let n = match self.r.below(8) {
            0 => 0,
            1 => 64,
            2 => 65,
            3 => 128,
            4 => 129,
            _ => self.r.usize(40),
        };
        self.r.bytes(n)
    }
    pub fn constr_alt(&mut self) -> u64 {
        match self.r.below(8) {
            0 => 0,
            1 => 6,
            2 => 7,
            3 => 127,
            4 => 128,
            5 => self.r.wide_u64(),
            _ => self.r.below(10),
        }
    }
    pub fn plutus_list(&mut self) -> PlutusList {
        let mut l = PlutusList::new();
        for _ in 0..self.n(4) {
            l.add(&self.plutus_data());
        }
        l
    }
    pub fn plutus_data(&mut self) -> PlutusData {
        let leaf = self.depth == 0 || self.r.chance(2, 5);
        if leaf {
            if self.r.bool() {
                PlutusData::new_integer(&self.bigint())
            } else {
                PlutusData::new_bytes(self.plutus_bytes())
            }
        } else {
            self.depth -= 1;
            let d = match self.r.below(4) {
                0 => PlutusData::new_list(&self.plutus_list()),
                1 => {
                    let mut m = PlutusMap::new();
                    for _ in 0..self.n(3) {
                        let k = self.plutus_data();
                        let mut vs = PlutusMapValues::new();
                        let nv = if self.r.chance(1, 8) { 2 } else { 1 };
                        for _ in 0..nv {
                            vs.add(&self.plutus_data());
                        }
                        if nv > 1 {
                            self.tags.unsorted_map = true;
                        }
                        m.insert(&k, &vs);
                    }
                    // plutus maps keep insertion order; treat as unsorted unless trivially small
                    if m.len() > 1 {
                        self.tags.unsorted_map = true;
                    }
                    PlutusData::new_map(&m)
                }
                2 => {
                    let alt = self.constr_alt();
                    PlutusData::new_constr_plutus_data(&ConstrPlutusData::new(&BigNum::from(alt), &self.plutus_list()))
                }
                _ => {
                    let alt = self.constr_alt();
                    if self.r.bool() {
                        PlutusData::new_empty_constr_plutus_data(&BigNum::from(alt))
                    } else {
                        let inner = self.plutus_data();
                        PlutusData::new_single_value_constr_plutus_data(&BigNum::from(alt), &inner)
                    }
                }
            };
            self.depth += 1;
            d
        }
    }
    pub fn md_int(&mut self) -> Int {
        let v = self.r.wide_u64();
        if self.r.bool() {
            Int::new(&BigNum::from(v))
        } else {
            Int::new_negative(&BigNum::from(v))
        }
    }
    pub fn md_text(&mut self) -> String {
        let n = match self.r.below(6) {
            0 => 0,
            1 => 64,
            _ => self.r.usize(30),
        };
        let alphabet = ["a", "b", "Z", "0", " ", "é", "0x", "\"", "\\", "-"];
        let mut s = String::new();
        while s.len() < n {
            let p = *self.r.pick(&alphabet);
            if s.len() + p.len() > n {
                break;
            }
            s.push_str(p);
        }
        s
    }
    pub fn metadatum(&mut self) -> TransactionMetadatum {
        let leaf = self.depth == 0 || self.r.chance(1, 2);
        if leaf {
            match self.r.below(3) {
                0 => TransactionMetadatum::new_int(&self.md_int()),
                1 => {
                    let n = match self.r.below(5) {
                        0 => 0,
                        1 => 64,
                        _ => self.r.usize(40),
                    };
                    TransactionMetadatum::new_bytes(self.r.bytes(n)).unwrap()
                }
                _ => TransactionMetadatum::new_text(self.md_text()).unwrap(),
            }
        } else {
            self.depth -= 1;
            let d = if self.r.bool() {
                let mut l = MetadataList::new();
                for _ in 0..self.n(4) {
                    l.add(&self.metadatum());
                }
                TransactionMetadatum::new_list(&l)
            } else {
                let mut m = MetadataMap::new();
                let n = self.n(4);
                let mut keys: Vec<TransactionMetadatum> = (0..n).map(|_| self.metadatum()).collect();
                if self.r.below(16) < self.sorted_bias {
                    keys.sort();
                    keys.dedup();
                } else if keys.len() > 1 {
                    self.tags.unsorted_map = true;
                }
                for k in keys {
                    m.insert(&k, &self.metadatum());
                }
                TransactionMetadatum::new_map(&m)
            };
            self.depth += 1;
            d
        }
    }
    pub fn general_metadata(&mut self, allow_empty: bool) -> GeneralTransactionMetadata {
        let mut g = GeneralTransactionMetadata::new();
        let n = if allow_empty { self.n(3) } else { self.n1(3) };
        let mut keys: Vec<u64> = (0..n).map(|_| self.u64()).collect();
        if self.r.below(16) < self.sorted_bias {
            keys.sort();
        } else if keys.len() > 1 {
            self.tags.unsorted_map = true;
        }
        for k in keys {
            g.insert(&BigNum::from(k), &self.metadatum());
        }
        g
    }
    pub fn auxiliary_data(&mut self) -> AuxiliaryData {
        let saved_mask = self.mask.is_some();
        let mut dd = self.decisions(3).into_iter();
        let _ = saved_mask;
        let mut a = AuxiliaryData::new();
        if dd.next().unwrap_or(false) {
            let m = self.general_metadata(true);
            if m.len() == 0 {
                self.tags.empty_optional_collection = true;
            }
            a.set_metadata(&m);
        }
        if dd.next().unwrap_or(false) {
            let s = self.native_scripts(true);
            if s.len() == 0 {
                self.tags.empty_optional_collection = true;
            }
            a.set_native_scripts(&s);
        }
        if dd.next().unwrap_or(false) {
            let s = self.plutus_scripts(true);
            if s.len() == 0 {
                self.tags.empty_optional_collection = true;
            }
            a.set_plutus_scripts(&s);
        }
        if self.r.chance(1, 6) {
            a.set_prefer_alonzo_format(true);
        }
        a
    }

    // ------------------------------------------------------------------ small structs
    pub fn unit_interval(&mut self) -> UnitInterval {
        let n = self.u64();
        let d = self.u64().max(1);
        UnitInterval::new(&BigNum::from(n), &BigNum::from(d))
    }
    pub fn url(&mut self, max: usize) -> URL {
        let n = match self.r.below(4) {
            0 => 0,
            1 => max,
            _ => self.r.usize(max + 1),
        };
        let s: String = (0..n).map(|i| (b'a' + ((i as u8).wrapping_add(self.r.below(26) as u8) % 26)) as char).collect();
        URL::new(s).unwrap()
    }
    pub fn anchor(&mut self) -> Anchor {
        let u = self.url(128);
        Anchor::new(&u, &AnchorDataHash::from_bytes(self.hash32()).unwrap())
    }
    pub fn ex_units(&mut self) -> ExUnits {
        ExUnits::new(&self.coin(), &self.coin())
    }
    pub fn ex_unit_prices(&mut self) -> ExUnitPrices {
        ExUnitPrices::new(&self.unit_interval(), &self.unit_interval())
    }
    pub fn protocol_version(&mut self) -> ProtocolVersion {
        ProtocolVersion::new(self.u32(), self.u32())
    }
    pub fn drep(&mut self) -> DRep {
        match self.r.below(4) {
            0 => DRep::new_key_hash(&self.keyhash()),
            1 => DRep::new_script_hash(&self.scripthash()),
            2 => DRep::new_always_abstain(),
            _ => DRep::new_always_no_confidence(),
        }
    }
    pub fn cost_model(&mut self) -> CostModel {
        let mut c = CostModel::new();
        let n = match self.r.below(4) {
            0 => 0,
            1 => 166,
            _ => self.r.usize(12),
        };
        for i in 0..n {
            let v = self.r.wide_u64() >> 1;
            let x = if self.r.chance(1, 5) { Int::new_negative(&BigNum::from(v.max(1))) } else { Int::new(&BigNum::from(v)) };
            let _ = c.set(i, &x);
        }
        c
    }
    pub fn costmdls(&mut self) -> Costmdls {
        let mut c = Costmdls::new();
        for _ in 0..self.n(3) {
            c.insert(&self.language(), &self.cost_model());
        }
        c
    }
    pub fn relay(&mut self) -> Relay {
        match self.r.below(3) {
            0 => {
                let port = if self.opt() { Some(self.r.below(65536) as u16) } else { None };
                let v4 = if self.opt() { Some(Ipv4::new(self.r.bytes(4)).unwrap()) } else { None };
                let v6 = if self.opt() { Some(Ipv6::new(self.r.bytes(16)).unwrap()) } else { None };
                Relay::new_single_host_addr(&SingleHostAddr::new(port, v4, v6))
            }
            1 => {
                let port = if self.opt() { Some(self.r.below(65536) as u16) } else { None };
                Relay::new_single_host_name(&SingleHostName::new(port, &DNSRecordAorAAAA::new(self.dns(64)).unwrap()))
            }
            _ => Relay::new_multi_host_name(&MultiHostName::new(&DNSRecordSRV::new(self.dns(64)).unwrap())),
        }
    }
    pub fn dns(&mut self, max: usize) -> String {
        let n = match self.r.below(4) {
            0 => 0,
            1 => max,
            _ => self.r.usize(max + 1),
        };
        (0..n).map(|_| (b'a' + self.r.below(26) as u8) as char).collect()
    }
    pub fn pool_params(&mut self) -> PoolParams {
        let mut owners = Ed25519KeyHashes::new();
        for _ in 0..self.n(3) {
            owners.add(&self.keyhash());
        }
        let mut relays = Relays::new();
        for _ in 0..self.n(3) {
            relays.add(&self.relay());
        }
        let md = if self.opt() {
            let u = self.url(64);
            Some(PoolMetadata::new(&u, &PoolMetadataHash::from_bytes(self.hash32()).unwrap()))
        } else {
            None
        };
        PoolParams::new(
            &self.keyhash(),
            &VRFKeyHash::from_bytes(self.hash32()).unwrap(),
            &self.coin(),
            &self.coin(),
            &self.unit_interval(),
            &self.reward_address(),
            &owners,
            &relays,
            md,
        )
    }
    pub fn gov_action_id(&mut self) -> GovernanceActionId {
        let ix = self.index();
        GovernanceActionId::new(&self.txhash(), ix)
    }
    pub fn voter(&mut self) -> Voter {
        match self.r.below(3) {
            0 => Voter::new_constitutional_committee_hot_credential(&self.credential()),
            1 => Voter::new_drep_credential(&self.credential()),
            _ => Voter::new_stake_pool_key_hash(&self.keyhash()),
        }
    }
    pub fn voting_procedure(&mut self) -> VotingProcedure {
        let k = match self.r.below(3) {
            0 => VoteKind::No,
            1 => VoteKind::Yes,
            _ => VoteKind::Abstain,
        };
        if self.opt() {
            VotingProcedure::new_with_anchor(k, &self.anchor())
        } else {
            VotingProcedure::new(k)
        }
    }
    pub fn voting_procedures(&mut self) -> VotingProcedures {
        let mut v = VotingProcedures::new();
        let n = self.n1(3);
        let mut voters: Vec<Voter> = (0..n).map(|_| self.voter()).collect();
        if self.r.below(16) < self.sorted_bias {
            voters.sort();
        } else if voters.len() > 1 {
            self.tags.unsorted_map = true;
        }
        for voter in voters {
            let k = self.n1(2);
            let mut ids: Vec<GovernanceActionId> = (0..k).map(|_| self.gov_action_id()).collect();
            ids.sort();
            for id in ids {
                v.insert(&voter, &id, &self.voting_procedure());
            }
        }
        v
    }

    pub fn certificate(&mut self, allow_legacy: bool) -> Certificate {
        let kind = loop {
            let k = self.r.below(19);
            if allow_legacy || (k != 5 && k != 6) {
                break k;
            }
        };
        self.certificate_kind(kind)
    }
    pub fn certificate_kind(&mut self, kind: u64) -> Certificate {
        let c = self.credential();
        match kind {
            0 => Certificate::new_stake_registration(&StakeRegistration::new(&c)),
            1 => Certificate::new_stake_deregistration(&StakeDeregistration::new(&c)),
            2 => Certificate::new_stake_delegation(&StakeDelegation::new(&c, &self.keyhash())),
            3 => Certificate::new_pool_registration(&PoolRegistration::new(&self.pool_params())),
            4 => {
                let e = self.u32();
                Certificate::new_pool_retirement(&PoolRetirement::new(&self.keyhash(), e))
            }
            5 => {
                self.tags.legacy = true;
                Certificate::new_genesis_key_delegation(&GenesisKeyDelegation::new(
                    &GenesisHash::from_bytes(self.hash28()).unwrap(),
                    &GenesisDelegateHash::from_bytes(self.hash28()).unwrap(),
                    &VRFKeyHash::from_bytes(self.hash32()).unwrap(),
                ))
            }
            6 => {
                self.tags.legacy = true;
                let pot = if self.r.bool() { MIRPot::Reserves } else { MIRPot::Treasury };
                let mir = if self.r.bool() {
                    MoveInstantaneousReward::new_to_other_pot(pot, &self.coin())
                } else {
                    let mut m = MIRToStakeCredentials::new();
                    let n = self.n(3);
                    let mut creds: Vec<Credential> = (0..n).map(|_| self.credential()).collect();
                    if self.r.below(16) < self.sorted_bias {
                        creds.sort();
                    } else if creds.len() > 1 {
                        self.tags.unsorted_map = true;
                    }
                    for cr in creds {
                        let v = self.r.wide_u64() >> 1;
                        let d = if self.r.bool() { Int::new(&BigNum::from(v)) } else { Int::new_negative(&BigNum::from(v.max(1))) };
                        m.insert(&cr, &d);
                    }
                    MoveInstantaneousReward::new_to_stake_creds(pot, &m)
                };
                Certificate::new_move_instantaneous_rewards_cert(&MoveInstantaneousRewardsCert::new(&mir))
            }
            7 => Certificate::new_stake_registration(&StakeRegistration::new_with_explicit_deposit(&c, &self.coin())),
            8 => Certificate::new_stake_deregistration(&StakeDeregistration::new_with_explicit_refund(&c, &self.coin())),
            9 => Certificate::new_vote_delegation(&VoteDelegation::new(&c, &self.drep())),
            10 => Certificate::new_stake_and_vote_delegation(&StakeAndVoteDelegation::new(&c, &self.keyhash(), &self.drep())),
            11 => Certificate::new_stake_registration_and_delegation(&StakeRegistrationAndDelegation::new(&c, &self.keyhash(), &self.coin())),
            12 => Certificate::new_vote_registration_and_delegation(&VoteRegistrationAndDelegation::new(&c, &self.drep(), &self.coin())),
            13 => Certificate::new_stake_vote_registration_and_delegation(&StakeVoteRegistrationAndDelegation::new(
                &c,
                &self.keyhash(),
                &self.drep(),
                &self.coin(),
            )),
            14 => Certificate::new_committee_hot_auth(&CommitteeHotAuth::new(&c, &self.credential())),
            15 => {
                if self.opt() {
                    Certificate::new_committee_cold_resign(&CommitteeColdResign::new_with_anchor(&c, &self.anchor()))
                } else {
                    Certificate::new_committee_cold_resign(&CommitteeColdResign::new(&c))
                }
            }
            16 => {
                if self.opt() {
                    Certificate::new_drep_registration(&DRepRegistration::new_with_anchor(&c, &self.coin(), &self.anchor()))
                } else {
                    Certificate::new_drep_registration(&DRepRegistration::new(&c, &self.coin()))
                }
            }
            17 => Certificate::new_drep_deregistration(&DRepDeregistration::new(&c, &self.coin())),
            _ => {
                if self.opt() {
                    Certificate::new_drep_update(&DRepUpdate::new_with_anchor(&c, &self.anchor()))
                } else {
                    Certificate::new_drep_update(&DRepUpdate::new(&c))
                }
            }
        }
    }
    pub fn certificates(&mut self, allow_empty: bool, allow_legacy: bool) -> Certificates {
        let mut cs = Certificates::new();
        let n = if allow_empty { self.n(4) } else { self.n1(4) };
        for _ in 0..n {
            cs.add(&self.certificate(allow_legacy));
        }
        cs
    }
    pub fn withdrawals(&mut self, allow_empty: bool) -> Withdrawals {
        let mut w = Withdrawals::new();
        let n = if allow_empty { self.n(3) } else { self.n1(3) };
        let mut keys: Vec<RewardAddress> = (0..n).map(|_| self.reward_address()).collect();
        if self.r.below(16) < self.sorted_bias {
            keys.sort();
        } else if keys.len() > 1 {
            self.tags.unsorted_map = true;
        }
        for k in keys {
            w.insert(&k, &self.coin());
        }
        w
    }
    pub fn drep_voting_thresholds(&mut self) -> DRepVotingThresholds {
        DRepVotingThresholds::new(
            &self.unit_interval(),
            &self.unit_interval(),
            &self.unit_interval(),
            &self.unit_interval(),
            &self.unit_interval(),
            &self.unit_interval(),
            &self.unit_interval(),
            &self.unit_interval(),
            &self.unit_interval(),
            &self.unit_interval(),
        )
    }
    pub fn pool_voting_thresholds(&mut self) -> PoolVotingThresholds {
        PoolVotingThresholds::new(&self.unit_interval(), &self.unit_interval(), &self.unit_interval(), &self.unit_interval(), &self.unit_interval())
    }
    pub fn protocol_param_update(&mut self) -> ProtocolParamUpdate {
        let saved_mask = self.mask.is_some();
        let mut dd = self.decisions(30).into_iter();
        let _ = saved_mask;
        let mut p = ProtocolParamUpdate::new();
        if dd.next().unwrap_or(false) {
            p.set_minfee_a(&self.coin());
        }
        if dd.next().unwrap_or(false) {
            p.set_minfee_b(&self.coin());
        }
        if dd.next().unwrap_or(false) {
            p.set_max_block_body_size(self.u32());
        }
        if dd.next().unwrap_or(false) {
            p.set_max_tx_size(self.u32());
        }
        if dd.next().unwrap_or(false) {
            p.set_max_block_header_size(self.u32());
        }
        if dd.next().unwrap_or(false) {
            p.set_key_deposit(&self.coin());
        }
        if dd.next().unwrap_or(false) {
            p.set_pool_deposit(&self.coin());
        }
        if dd.next().unwrap_or(false) {
            p.set_max_epoch(self.u32());
        }
        if dd.next().unwrap_or(false) {
            p.set_n_opt(self.u32());
        }
        if dd.next().unwrap_or(false) {
            p.set_pool_pledge_influence(&self.unit_interval());
        }
        if dd.next().unwrap_or(false) {
            p.set_expansion_rate(&self.unit_interval());
        }
        if dd.next().unwrap_or(false) {
            p.set_treasury_growth_rate(&self.unit_interval());
        }
        if dd.next().unwrap_or(false) {
            p.set_min_pool_cost(&self.coin());
        }
        if dd.next().unwrap_or(false) {
            p.set_ada_per_utxo_byte(&self.coin());
        }
        if dd.next().unwrap_or(false) {
            p.set_cost_models(&self.costmdls());
        }
        if dd.next().unwrap_or(false) {
            p.set_execution_costs(&self.ex_unit_prices());
        }
        if dd.next().unwrap_or(false) {
            p.set_max_tx_ex_units(&self.ex_units());
        }
        if dd.next().unwrap_or(false) {
            p.set_max_block_ex_units(&self.ex_units());
        }
        if dd.next().unwrap_or(false) {
            p.set_max_value_size(self.u32());
        }
        if dd.next().unwrap_or(false) {
            p.set_collateral_percentage(self.u32());
        }
        if dd.next().unwrap_or(false) {
            p.set_max_collateral_inputs(self.u32());
        }
        if dd.next().unwrap_or(false) {
            p.set_pool_voting_thresholds(&self.pool_voting_thresholds());
        }
        if dd.next().unwrap_or(false) {
            p.set_drep_voting_thresholds(&self.drep_voting_thresholds());
        }
        if dd.next().unwrap_or(false) {
            p.set_min_committee_size(self.u32());
        }
        if dd.next().unwrap_or(false) {
            p.set_committee_term_limit(self.u32());
        }
        if dd.next().unwrap_or(false) {
            p.set_governance_action_validity_period(self.u32());
        }
        if dd.next().unwrap_or(false) {
            p.set_governance_action_deposit(&self.coin());
        }
        if dd.next().unwrap_or(false) {
            p.set_drep_deposit(&self.coin());
        }
        if dd.next().unwrap_or(false) {
            p.set_drep_inactivity_period(self.u32());
        }
        if dd.next().unwrap_or(false) {
            p.set_ref_script_coins_per_byte(&self.unit_interval());
        }
        p
    }
    /// pre-Conway only fields (protocol version) are kept out of the Conway generator
    pub fn protocol_param_update_legacy(&mut self) -> ProtocolParamUpdate {
        let mut p = self.protocol_param_update();
        if self.opt() {
            p.set_protocol_version(&self.protocol_version());
        }
        p
    }
    pub fn committee(&mut self) -> Committee {
        let mut c = Committee::new(&self.unit_interval());
        let n = self.n(3);
        let mut creds: Vec<Credential> = (0..n).map(|_| self.credential()).collect();
        if self.r.below(16) < self.sorted_bias {
            creds.sort();
        } else if creds.len() > 1 {
            self.tags.unsorted_map = true;
        }
        for cr in creds {
            c.add_member(&cr, self.u32());
        }
        c
    }
    pub fn credentials(&mut self) -> Credentials {
        let mut c = Credentials::new();
        for _ in 0..self.n(3) {
            c.add(&self.credential());
        }
        c
    }
    pub fn constitution(&mut self) -> Constitution {
        if self.opt() {
            Constitution::new_with_script_hash(&self.anchor(), &self.scripthash())
        } else {
            Constitution::new(&self.anchor())
        }
    }
    pub fn treasury_withdrawals(&mut self) -> TreasuryWithdrawals {
        let mut t = TreasuryWithdrawals::new();
        let n = self.n(3);
        let mut keys: Vec<RewardAddress> = (0..n).map(|_| self.reward_address()).collect();
        if self.r.below(16) < self.sorted_bias {
            keys.sort();
        } else if keys.len() > 1 {
            self.tags.unsorted_map = true;
        }
        for k in keys {
            t.insert(&k, &self.coin());
        }
        t
    }
    pub fn governance_action(&mut self) -> GovernanceAction {
        let k = self.r.below(7);
        self.governance_action_kind(k)
    }
    pub fn governance_action_kind(&mut self, k: u64) -> GovernanceAction {
        match k {
            0 => {
                let ppu = self.protocol_param_update();
                let a = match (self.opt(), self.opt()) {
                    (false, false) => ParameterChangeAction::new(&ppu),
                    (true, false) => ParameterChangeAction::new_with_action_id(&self.gov_action_id(), &ppu),
                    (false, true) => ParameterChangeAction::new_with_policy_hash(&ppu, &self.scripthash()),
                    (true, true) => ParameterChangeAction::new_with_policy_hash_and_action_id(&self.gov_action_id(), &ppu, &self.scripthash()),
                };
                GovernanceAction::new_parameter_change_action(&a)
            }
            1 => {
                let a = if self.opt() {
                    HardForkInitiationAction::new_with_action_id(&self.gov_action_id(), &self.protocol_version())
                } else {
                    HardForkInitiationAction::new(&self.protocol_version())
                };
                GovernanceAction::new_hard_fork_initiation_action(&a)
            }
            2 => {
                let w = self.treasury_withdrawals();
                let a = if self.opt() { TreasuryWithdrawalsAction::new_with_policy_hash(&w, &self.scripthash()) } else { TreasuryWithdrawalsAction::new(&w) };
                GovernanceAction::new_treasury_withdrawals_action(&a)
            }
            3 => {
                let a = if self.opt() { NoConfidenceAction::new_with_action_id(&self.gov_action_id()) } else { NoConfidenceAction::new() };
                GovernanceAction::new_no_confidence_action(&a)
            }
            4 => {
                let c = self.committee();
                let rm = self.credentials();
                let a = if self.opt() { UpdateCommitteeAction::new_with_action_id(&self.gov_action_id(), &c, &rm) } else { UpdateCommitteeAction::new(&c, &rm) };
                GovernanceAction::new_new_committee_action(&a)
            }
            5 => {
                let c = self.constitution();
                let a = if self.opt() { NewConstitutionAction::new_with_action_id(&self.gov_action_id(), &c) } else { NewConstitutionAction::new(&c) };
                GovernanceAction::new_new_constitution_action(&a)
            }
            _ => GovernanceAction::new_info_action(&InfoAction::new()),
        }
    }
    pub fn voting_proposal(&mut self) -> VotingProposal {
        VotingProposal::new(&self.governance_action(), &self.anchor(), &self.reward_address(), &self.coin())
    }
    pub fn voting_proposals(&mut self, allow_empty: bool) -> VotingProposals {
        let mut v = VotingProposals::new();
        let n = if allow_empty { self.n(2) } else { self.n1(2) };
        for _ in 0..n {
            v.add(&self.voting_proposal());
        }
        v
    }

    // ------------------------------------------------------------------ outputs, body, witnesses, tx
    pub fn script_ref(&mut self) -> ScriptRef {
        if self.r.bool() {
            ScriptRef::new_native_script(&self.native_script())
        } else {
            ScriptRef::new_plutus_script(&self.plutus_script())
        }
    }
    pub fn tx_output(&mut self) -> TransactionOutput {
        let mut o = TransactionOutput::new(&self.address(), &self.value());
        match self.r.below(4) {
            0 => o.set_data_hash(&DataHash::from_bytes(self.hash32()).unwrap()),
            1 => o.set_plutus_data(&self.plutus_data()),
            _ => {}
        }
        if self.r.chance(1, 4) {
            o.set_script_ref(&self.script_ref());
        }
        o
    }
    pub fn tx_outputs(&mut self) -> TransactionOutputs {
        let mut os = TransactionOutputs::new();
        for _ in 0..self.n(4) {
            os.add(&self.tx_output());
        }
        os
    }
    pub fn keyhashes(&mut self, allow_empty: bool) -> Ed25519KeyHashes {
        let mut k = Ed25519KeyHashes::new();
        let n = if allow_empty { self.n(3) } else { self.n1(3) };
        for _ in 0..n {
            k.add(&self.keyhash());
        }
        k
    }
    pub fn update(&mut self) -> Update {
        self.tags.legacy = true;
        let mut p = ProposedProtocolParameterUpdates::new();
        let n = self.n(2);
        let mut keys: Vec<GenesisHash> = (0..n).map(|_| GenesisHash::from_bytes(self.hash28()).unwrap()).collect();
        if self.r.below(16) < self.sorted_bias {
            keys.sort();
        } else if keys.len() > 1 {
            self.tags.unsorted_map = true;
        }
        for k in keys {
            p.insert(&k, &self.protocol_param_update_legacy());
        }
        let e = self.u32();
        Update::new(&p, e)
    }
    /// transaction body; `allow_legacy` admits key 6 and certificate kinds 5/6
    pub fn tx_body(&mut self, allow_legacy: bool) -> TransactionBody {
        let saved_mask = self.mask.is_some();
        let mut dd = self.decisions(19).into_iter();
        let _ = saved_mask;
        let ins = self.tx_inputs(true);
        let outs = self.tx_outputs();
        let fee = self.coin();
        let mut b = TransactionBody::new_tx_body(&ins, &outs, &fee);
        if dd.next().unwrap_or(false) {
            b.set_ttl(&self.slot());
        }
        if dd.next().unwrap_or(false) {
            let c = self.certificates(true, allow_legacy);
            if c.len() == 0 {
                self.tags.empty_optional_collection = true;
            }
            b.set_certs(&c);
        }
        if dd.next().unwrap_or(false) {
            let w = self.withdrawals(true);
            if w.len() == 0 {
                self.tags.empty_optional_collection = true;
            }
            b.set_withdrawals(&w);
        }
        if allow_legacy && dd.next().unwrap_or(false) {
            b.set_update(&self.update());
        } else if !allow_legacy {
            // keep mask consumption identical in both modes
            let _ = dd.next().unwrap_or(false);
        }
        if dd.next().unwrap_or(false) {
            b.set_auxiliary_data_hash(&AuxiliaryDataHash::from_bytes(self.hash32()).unwrap());
        }
        if dd.next().unwrap_or(false) {
            b.set_validity_start_interval_bignum(&self.slot());
        }
        if dd.next().unwrap_or(false) {
            b.set_mint(&self.mint());
        }
        if dd.next().unwrap_or(false) {
            b.set_script_data_hash(&ScriptDataHash::from_bytes(self.hash32()).unwrap());
        }
        if dd.next().unwrap_or(false) {
            let c = self.tx_inputs(true);
            if c.len() == 0 {
                self.tags.empty_optional_collection = true;
            }
            b.set_collateral(&c);
        }
        if dd.next().unwrap_or(false) {
            let k = self.keyhashes(true);
            if k.len() == 0 {
                self.tags.empty_optional_collection = true;
            }
            b.set_required_signers(&k);
        }
        if dd.next().unwrap_or(false) {
            b.set_network_id(&if self.r.bool() { NetworkId::mainnet() } else { NetworkId::testnet() });
        }
        if dd.next().unwrap_or(false) {
            b.set_collateral_return(&self.tx_output());
        }
        if dd.next().unwrap_or(false) {
            b.set_total_collateral(&self.coin());
        }
        if dd.next().unwrap_or(false) {
            let c = self.tx_inputs(true);
            if c.len() == 0 {
                self.tags.empty_optional_collection = true;
            }
            b.set_reference_inputs(&c);
        }
        if dd.next().unwrap_or(false) {
            b.set_voting_procedures(&self.voting_procedures());
        }
        if dd.next().unwrap_or(false) {
            let p = self.voting_proposals(true);
            if p.len() == 0 {
                self.tags.empty_optional_collection = true;
            }
            b.set_voting_proposals(&p);
        }
        if dd.next().unwrap_or(false) {
            b.set_current_treasury_value(&self.coin());
        }
        if dd.next().unwrap_or(false) {
            let d = self.nonzero_u64();
            b.set_donation(&BigNum::from(d));
        }
        b
    }
    pub fn vkey(&mut self) -> Vkey {
        Vkey::new(&PublicKey::from_bytes(&self.hash32()).unwrap())
    }
    pub fn signature(&mut self) -> Ed25519Signature {
        Ed25519Signature::from_bytes(self.r.bytes(64)).unwrap()
    }
    pub fn vkeywitness(&mut self) -> Vkeywitness {
        Vkeywitness::new(&self.vkey(), &self.signature())
    }
    pub fn vkeywitnesses(&mut self, allow_empty: bool) -> Vkeywitnesses {
        let mut v = Vkeywitnesses::new();
        let n = if allow_empty { self.n(3) } else { self.n1(3) };
        for _ in 0..n {
            v.add(&self.vkeywitness());
        }
        v
    }
    pub fn bootstrap_witness(&mut self) -> BootstrapWitness {
        let attrs = if self.r.bool() { vec![0xa0] } else { vec![0xa1, 0x02, 0x45, 0x1a, 0x41, 0x70, 0xcb, 0x17] };
        BootstrapWitness::new(&self.vkey(), &self.signature(), self.r.bytes(32), attrs)
    }
    pub fn bootstrap_witnesses(&mut self, allow_empty: bool) -> BootstrapWitnesses {
        let mut v = BootstrapWitnesses::new();
        let n = if allow_empty { self.n(2) } else { self.n1(2) };
        for _ in 0..n {
            v.add(&self.bootstrap_witness());
        }
        v
    }
    pub fn redeemer_tag(&mut self) -> RedeemerTag {
        match self.r.below(6) {
            0 => RedeemerTag::new_spend(),
            1 => RedeemerTag::new_mint(),
            2 => RedeemerTag::new_cert(),
            3 => RedeemerTag::new_reward(),
            4 => RedeemerTag::new_vote(),
            _ => RedeemerTag::new_voting_proposal(),
        }
    }
    pub fn redeemer(&mut self) -> Redeemer {
        let ix = if self.wide_index && self.r.below(3) == 0 { self.r.wide_u64() } else { self.u32() as u64 };
        Redeemer::new(&self.redeemer_tag(), &BigNum::from(ix), &self.plutus_data(), &self.ex_units())
    }
    pub fn redeemers(&mut self, allow_empty: bool) -> Redeemers {
        let mut rs = Redeemers::new();
        let n = if allow_empty { self.n(3) } else { self.n1(3) };
        let mut seen: Vec<(u8, u64)> = vec![];
        for _ in 0..n {
            let rd = self.redeemer();
            let key = (rd.tag().kind() as u8, u64::from(rd.index()));
            if seen.contains(&key) {
                continue;
            }
            seen.push(key);
            rs.add(&rd);
        }
        rs
    }
    pub fn witness_set(&mut self) -> TransactionWitnessSet {
        let saved_mask = self.mask.is_some();
        let mut dd = self.decisions(6).into_iter();
        let _ = saved_mask;
        let mut w = TransactionWitnessSet::new();
        if dd.next().unwrap_or(false) {
            let v = self.vkeywitnesses(true);
            if v.len() == 0 {
                self.tags.empty_optional_collection = true;
            }
            w.set_vkeys(&v);
        }
        if dd.next().unwrap_or(false) {
            let v = self.native_scripts(true);
            if v.len() == 0 {
                self.tags.empty_optional_collection = true;
            }
            w.set_native_scripts(&v);
        }
        if dd.next().unwrap_or(false) {
            let v = self.bootstrap_witnesses(true);
            if v.len() == 0 {
                self.tags.empty_optional_collection = true;
            }
            w.set_bootstraps(&v);
        }
        if dd.next().unwrap_or(false) {
            let v = self.plutus_scripts(true);
            if v.len() == 0 {
                self.tags.empty_optional_collection = true;
            }
            w.set_plutus_scripts(&v);
        }
        if dd.next().unwrap_or(false) {
            let v = self.plutus_list();
            if v.len() == 0 {
                self.tags.empty_optional_collection = true;
            }
            w.set_plutus_data(&v);
        }
        if dd.next().unwrap_or(false) {
            let v = self.redeemers(true);
            if v.len() == 0 {
                self.tags.empty_optional_collection = true;
            }
            w.set_redeemers(&v);
        }
        w
    }
    pub fn transaction(&mut self, allow_legacy: bool) -> Transaction {
        let b = self.tx_body(allow_legacy);
        let w = self.witness_set();
        let aux = if self.opt() { Some(self.auxiliary_data()) } else { None };
        let mut tx = Transaction::new(&b, &w, aux);
        if self.r.chance(1, 5) {
            tx.set_is_valid(false);
        }
        tx
    }

    // ------------------------------------------------------------------ block level
    pub fn vrf_cert(&mut self) -> VRFCert {
        let n = self.r.usize(70);
        VRFCert::new(self.r.bytes(n), self.r.bytes(80)).unwrap()
    }
    pub fn operational_cert(&mut self) -> OperationalCert {
        let (a, b) = (self.u32(), self.u32());
        OperationalCert::new(&KESVKey::from_bytes(self.hash32()).unwrap(), a, b, &self.signature())
    }
    pub fn header_body(&mut self) -> HeaderBody {
        let prev = if self.opt() { Some(BlockHash::from_bytes(self.hash32()).unwrap()) } else { None };
        let (bn, sz) = (self.u32(), self.u32());
        HeaderBody::new_headerbody(
            bn,
            &self.slot(),
            prev,
            &self.vkey(),
            &VRFVKey::from_bytes(self.hash32()).unwrap(),
            &self.vrf_cert(),
            sz,
            &BlockHash::from_bytes(self.hash32()).unwrap(),
            &self.operational_cert(),
            &self.protocol_version(),
        )
    }
    pub fn header(&mut self) -> Header {
        Header::new(&self.header_body(), &KESSignature::from_bytes(self.r.bytes(448)).unwrap())
    }
    pub fn block(&mut self) -> Block {
        let h = self.header();
        let n = self.n(2);
        let mut bodies = TransactionBodies::new();
        let mut wss = TransactionWitnessSets::new();
        let mut aux = AuxiliaryDataSet::new();
        let mut invalid: Vec<u32> = vec![];
        for i in 0..n {
            bodies.add(&self.tx_body(false));
            wss.add(&self.witness_set());
            if self.opt() {
                aux.insert(i as u32, &self.auxiliary_data());
            }
            if self.r.chance(1, 4) {
                invalid.push(i as u32);
            }
        }
        Block::new(&h, &bodies, &wss, &aux, invalid)
    }
}
