//! C16 — sets stay duplicate-free, asset maps canonical, builds deterministic.
use super::bld::*;
use super::c05::{binit, ASSUMPTIONS};
use crate::fw::*;
use crate::gen::typed::G;
use crate::scen::Focus;
use cardano_serialization_lib as csl;
use csl::*;
use serde_json::json;
use vkit::cbor::{self, Item};
use vkit::rng::Rng;

pub fn def() -> PropDef {
    PropDef {
        id: "C16",
        rule: "(a) insertion histories with repeats into every set-typed collection through add / from_bytes (own encodings, tagged, untagged, indefinite) / from_json; (b) every insertion permutation of <= 5 assets (exhaustive) and random larger bundles into Assets / MultiAsset / MintAssets / Mint-from-builder; (c) builder scenarios rebuilt 8 times; non-trivial = history with at least one repeat or 2+ elements, or a built transaction; distinct by hash of the history / transaction bytes",
        assumptions: ASSUMPTIONS,
        streams,
        floors: &[("set.add-history", 5_000), ("set.from_bytes-history", 5_000), ("set.from_json-history", 2_000), ("assets.permutation", 1_000), ("c16.rebuilt-8x", 1_500), ("c16.rebuilt-with-2+-reference-inputs", 150), ("witness-set.setter-with-repeats", 1_000)],
        init: Some(binit),
    }
}

fn streams() -> Vec<Stream> {
    vec![
        Stream { name: "set-histories", count: (70_000, 2_000_000), exhaustive: false, run: set_histories },
        Stream { name: "asset-permutations", count: (120 * 6, 120 * 6), exhaustive: true, run: asset_perms },
        Stream { name: "asset-random", count: (20_000, 600_000), exhaustive: false, run: asset_random },
        Stream { name: "witness-set-setters", count: (20_000, 600_000), exhaustive: false, run: witness_setters },
        Stream { name: "scenarios-rebuild", count: (25_000, 800_000), exhaustive: false, run: rebuild },
    ]
}

fn rebuild(c: &mut Ctx, r: &mut Rng, _i: u64) {
    let f = Focus { refs: 10, plutus: 7, scripts: 6, mint: 8, certs: 8, ..Focus::default() };
    scenario(c, r, f, c16_monitor)
}

/// first occurrences, in order
fn first_occurrences(seq: &[Vec<u8>]) -> Vec<Vec<u8>> {
    let mut out: Vec<Vec<u8>> = vec![];
    for x in seq {
        if !out.contains(x) {
            out.push(x.clone());
        }
    }
    out
}

fn emitted_elements(bytes: &[u8]) -> Option<Vec<Vec<u8>>> {
    let it = cbor::parse(bytes).ok()?;
    let arr = it.untag(258).as_arr()?;
    Some(arr.iter().map(|x| x.span(bytes).to_vec()).collect())
}

macro_rules! set_case {
    ($ctx:expr, $r:expr, $T:ident, $name:expr, $gen:expr) => {
        set_case!($ctx, $r, $T, $name, $gen, |b: Vec<u8>| b)
    };
    ($ctx:expr, $r:expr, $T:ident, $name:expr, $gen:expr, $enc:expr) => {{
        let ctx: &mut Ctx = $ctx;
        let r: &mut Rng = $r;
        // distinct pool
        let k = 1 + r.usize(4);
        let mut pool = vec![];
        let mut pool_bytes: Vec<Vec<u8>> = vec![];
        {
            let mut g = G::new(r, 2, 3);
            let mut tries = 0;
            while pool.len() < k && tries < 20 {
                tries += 1;
                let e = $gen(&mut g);
                let encf: fn(Vec<u8>) -> Vec<u8> = $enc;
                let b = encf(e.to_bytes());
                if !pool_bytes.contains(&b) {
                    pool_bytes.push(b);
                    pool.push(e);
                }
            }
        }
        let n = pool.len();
        let len = 1 + r.usize(2 * n + 1);
        let seq: Vec<usize> = (0..len).map(|_| r.usize(n)).collect();
        let seq_bytes: Vec<Vec<u8>> = seq.iter().map(|i| pool_bytes[*i].clone()).collect();
        let want = first_occurrences(&seq_bytes);
        let has_repeat = want.len() < seq.len();
        let mut hv = $name.as_bytes().to_vec();
        for b in &seq_bytes {
            hv.extend_from_slice(b);
        }
        if has_repeat || want.len() >= 2 {
            ctx.nontrivial_bytes("set", &hv);
        }
        let det = || json!({"type": $name, "sequence": seq_bytes.iter().map(|b| hx(b)).collect::<Vec<_>>()});
        let judge = |ctx: &mut Ctx, path: &str, bytes: &[u8], len: usize, elems: Vec<Vec<u8>>| {
            let emitted = emitted_elements(bytes);
            if len != want.len() || elems != want {
                let cls = if elems.len() > want.len() { "holds-duplicate" } else if elems.len() < want.len() { "lost-element" } else { "order-differs-from-first-insertion" };
                ctx.violation(&format!("{}/{}/{}", $name, path, cls), det());
            }
            match emitted {
                Some(e) => {
                    if e != want {
                        let cls = if e.len() > want.len() { "emits-duplicate" } else if e.len() < want.len() { "emits-fewer" } else { "emitted-order-differs-from-first-insertion" };
                        let mut d = det();
                        d["emitted"] = json!(hx(bytes));
                        ctx.violation(&format!("{}/{}/{}", $name, path, cls), d);
                    }
                }
                None => ctx.violation(&format!("{}/{}/emitted-bytes-not-an-array", $name, path), det()),
            }
        };
        // ---- path 1: add one by one
        ctx.eval();
        match guard(|| {
            let mut c = $T::new();
            for i in &seq {
                c.add(&pool[*i]);
            }
            let encf: fn(Vec<u8>) -> Vec<u8> = $enc;
            let elems: Vec<Vec<u8>> = (0..c.len()).map(|i| encf(c.get(i).to_bytes())).collect();
            (c.to_bytes(), c.len(), elems, c)
        }) {
            Ok((bytes, len, elems, c)) => {
                ctx.bucket("set.add-history");
                judge(ctx, "add", &bytes, len, elems);
                // ---- path 3: JSON with repeated entries
                if let Ok(Ok(j)) = guard(|| c.to_json()) {
                    if let Ok(serde_json::Value::Array(arr)) = serde_json::from_str::<serde_json::Value>(&j) {
                        if arr.len() == want.len() {
                            // rebuild the JSON array following the sequence with repeats
                            let by_first: Vec<serde_json::Value> = arr.clone();
                            let mut jseq = vec![];
                            for b in &seq_bytes {
                                let pos = want.iter().position(|w| w == b).unwrap();
                                jseq.push(by_first[pos].clone());
                            }
                            let js = serde_json::Value::Array(jseq).to_string();
                            ctx.eval();
                            match guard(|| $T::from_json(&js)) {
                                Ok(Ok(c2)) => {
                                    ctx.bucket("set.from_json-history");
                                    let encf: fn(Vec<u8>) -> Vec<u8> = $enc;
                                    let elems: Vec<Vec<u8>> = (0..c2.len()).map(|i| encf(c2.get(i).to_bytes())).collect();
                                    let b2 = c2.to_bytes();
                                    judge(ctx, "from_json", &b2, c2.len(), elems);
                                }
                                Ok(Err(_)) => ctx.bucket("set.from_json-rejected-repeats"),
                                Err(p) => ctx.violation(&format!("{}/from_json/{}", $name, p.sig()), det()),
                            }
                        }
                    }
                }
            }
            Err(p) => ctx.violation(&format!("{}/add/{}", $name, p.sig()), det()),
        }
        // ---- path 2: from_bytes of our own encoding with repeats
        let form = r.below(4);
        // a repeat may arrive in another spelling of the same value (inner sets without tag 258, wide
        // integer heads): it is still the element already held
        let mut seen_b: Vec<&Vec<u8>> = vec![];
        let mut respelled = false;
        let items: Vec<Item> = seq_bytes
            .iter()
            .filter_map(|b| {
                let it = cbor::parse(b).ok()?;
                let repeat = seen_b.contains(&b);
                seen_b.push(b);
                if repeat && r.bool() {
                    let mut changed = false;
                    let it2 = respell(&it, r, &mut changed);
                    respelled |= changed;
                    Some(it2)
                } else {
                    Some(it)
                }
            })
            .collect();
        if respelled {
            ctx.bucket("set.from_bytes-repeat-in-another-spelling");
        }
        let arr = match form {
            0 => Item::tag(258, Item::arr(items)),
            1 => Item::arr(items),
            2 => Item::tag(258, Item::arr(items).indef()),
            _ => Item::arr(items).indef(),
        };
        let enc = cbor::to_vec(&arr);
        ctx.eval();
        match guard(|| $T::from_bytes(enc.clone())) {
            Ok(Ok(c)) => {
                ctx.bucket("set.from_bytes-history");
                ctx.bucket(&format!("set.from_bytes-form-{}", form));
                let encf: fn(Vec<u8>) -> Vec<u8> = $enc;
            let elems: Vec<Vec<u8>> = (0..c.len()).map(|i| encf(c.get(i).to_bytes())).collect();
                match guard(|| c.to_bytes()) {
                    Ok(b) => judge(ctx, "from_bytes", &b, c.len(), elems),
                    Err(p) => ctx.violation(&format!("{}/to_bytes-after-from_bytes/{}", $name, p.sig()), det()),
                }
            }
            Ok(Err(_)) => ctx.bucket("set.from_bytes-rejected"),
            Err(p) => ctx.violation(&format!("{}/from_bytes/{}", $name, p.sig()), json!({"bytes": hx(&enc)})),
        }
    }};
}

/// the same value in another CBOR spelling: tag 258 dropped from inner sets, unsigned heads widened
fn respell(it: &Item, r: &mut Rng, changed: &mut bool) -> Item {
    use vkit::cbor::V;
    match &it.v {
        V::Tag(258, inner) if r.bool() => {
            *changed = true;
            respell(inner, r, changed)
        }
        V::Tag(t, inner) => Item::tag(*t, respell(inner, r, changed)),
        V::A(xs) => {
            let mut out = Item::arr(xs.iter().map(|x| respell(x, r, changed)).collect());
            out.indef = it.indef;
            out
        }
        V::M(es) => {
            let mut out = Item::map(es.iter().map(|(k, v)| (k.clone(), respell(v, r, changed))).collect());
            out.indef = it.indef;
            out
        }
        V::U(n) if r.below(6) == 0 && it.w < 8 => {
            *changed = true;
            Item::u(*n).with_width(8)
        }
        _ => it.clone(),
    }
}

fn set_histories(ctx: &mut Ctx, r: &mut Rng, i: u64) {
    match i % 7 {
        0 => set_case!(ctx, r, TransactionInputs, "TransactionInputs", |g: &mut G| g.tx_input()),
        1 => set_case!(ctx, r, Ed25519KeyHashes, "Ed25519KeyHashes", |g: &mut G| g.keyhash(), |b: Vec<u8>| cbor::to_vec(&Item::bytes(&b))),
        2 => set_case!(ctx, r, Credentials, "Credentials", |g: &mut G| g.credential()),
        3 => set_case!(ctx, r, Certificates, "Certificates", |g: &mut G| g.certificate(false)),
        4 => set_case!(ctx, r, VotingProposals, "VotingProposals", |g: &mut G| g.voting_proposal()),
        5 => set_case!(ctx, r, Vkeywitnesses, "Vkeywitnesses", |g: &mut G| g.vkeywitness()),
        _ => set_case!(ctx, r, BootstrapWitnesses, "BootstrapWitnesses", |g: &mut G| g.bootstrap_witness()),
    }
}

// ------------------------------------------------------------------------------------------------ asset maps

fn canonical(keys: &[&[u8]]) -> bool {
    keys.windows(2).all(|w| cbor::canonical_key_cmp(w[0], w[1]) == std::cmp::Ordering::Less)
}

/// check that a CBOR map `policy -> { name -> qty }` has both levels in canonical key order
fn check_multiasset_bytes(ctx: &mut Ctx, what: &str, bytes: &[u8], det: serde_json::Value) {
    let it = match cbor::parse(bytes) {
        Ok(i) => i,
        Err(_) => {
            ctx.violation(&format!("{}/emitted-bytes-malformed", what), det);
            return;
        }
    };
    let m = match it.as_map() {
        Some(m) => m,
        None => return,
    };
    let pk: Vec<&[u8]> = m.iter().map(|(k, _)| k.span(bytes)).collect();
    if !canonical(&pk) {
        let mut d = det.clone();
        d["emitted"] = json!(hx(bytes));
        ctx.violation(&format!("{}/policy-ids-not-in-canonical-order", what), d);
    }
    for (_, a) in m {
        if let Some(am) = a.as_map() {
            let nk: Vec<&[u8]> = am.iter().map(|(k, _)| k.span(bytes)).collect();
            if !canonical(&nk) {
                let mut d = det.clone();
                d["emitted"] = json!(hx(bytes));
                ctx.violation(&format!("{}/asset-names-not-in-canonical-order", what), d);
            }
        }
    }
}

fn nth_permutation(n: usize, mut k: u64) -> Vec<usize> {
    let mut items: Vec<usize> = (0..n).collect();
    let mut out = vec![];
    let mut f: Vec<u64> = vec![1; n + 1];
    for i in 1..=n {
        f[i] = f[i - 1] * i as u64;
    }
    for i in (0..n).rev() {
        let idx = (k / f[i]) as usize;
        k %= f[i];
        out.push(items.remove(idx));
    }
    out
}

const NAMES: [&[u8]; 5] = [b"", b"b", b"a", b"aa", &[0x41; 32]];

fn asset_case(ctx: &mut Ctx, order: &[usize], which: u64, entries: &[(u8, Vec<u8>)]) {
    ctx.eval();
    ctx.bucket("assets.permutation");
    let det = json!({"insertion_order": order, "entries": entries.iter().map(|(p, n)| format!("{}:{}", p, hx(n))).collect::<Vec<_>>()});
    let mut hv = vec![which as u8];
    for i in order {
        hv.push(*i as u8);
        hv.extend_from_slice(&entries[*i].1);
        hv.push(entries[*i].0);
    }
    ctx.nontrivial_bytes("assets", &hv);
    let pol = |p: u8| ScriptHash::from_bytes(vec![p; 28]).unwrap();
    match which {
        0 => {
            // Assets
            let r = guard(|| {
                let mut a = Assets::new();
                for i in order {
                    a.insert(&AssetName::new(entries[*i].1.clone()).unwrap(), &BigNum::from(1 + *i as u64));
                }
                a.to_bytes()
            });
            if let Ok(b) = r {
                if let Ok(it) = cbor::parse(&b) {
                    if let Some(m) = it.as_map() {
                        let nk: Vec<&[u8]> = m.iter().map(|(k, _)| k.span(&b)).collect();
                        if !canonical(&nk) {
                            let mut d = det.clone();
                            d["emitted"] = json!(hx(&b));
                            ctx.violation("Assets/asset-names-not-in-canonical-order", d);
                        }
                    }
                }
            }
        }
        1 => {
            let r = guard(|| {
                let mut ma = MultiAsset::new();
                for i in order {
                    ma.set_asset(&pol(entries[*i].0), &AssetName::new(entries[*i].1.clone()).unwrap(), &BigNum::from(1 + *i as u64));
                }
                ma.to_bytes()
            });
            if let Ok(b) = r {
                check_multiasset_bytes(ctx, "MultiAsset", &b, det);
            }
        }
        2 => {
            // Value inside an output
            let r = guard(|| {
                let mut ma = MultiAsset::new();
                for i in order {
                    ma.set_asset(&pol(entries[*i].0), &AssetName::new(entries[*i].1.clone()).unwrap(), &BigNum::from(1 + *i as u64));
                }
                Value::new_with_assets(&BigNum::from(5u64), &ma).to_bytes()
            });
            if let Ok(b) = r {
                if let Ok(it) = cbor::parse(&b) {
                    if let Some(a) = it.as_arr() {
                        if a.len() == 2 {
                            check_multiasset_bytes(ctx, "Value", a[1].span(&b), det);
                        }
                    }
                }
            }
        }
        3 => {
            let r = guard(|| {
                let mut a = MintAssets::new();
                for i in order {
                    let _ = a.insert(&AssetName::new(entries[*i].1.clone()).unwrap(), &Int::new_i32(1 + *i as i32));
                }
                // MintAssets has no byte form of its own: observe it inside a Mint
                let mut m = Mint::new();
                m.insert(&pol(1), &a);
                m.to_bytes()
            });
            if let Ok(b) = r {
                check_multiasset_bytes(ctx, "MintAssets(in Mint)", &b, det);
            }
        }
        4 => {
            // Mint through the MintBuilder
            let r = guard(|| {
                let mut mb = MintBuilder::new();
                for i in order {
                    let script = NativeScript::new_timelock_start(&TimelockStart::new_timelockstart(&BigNum::from(entries[*i].0 as u64)));
                    let w = MintWitness::new_native_script(&NativeScriptSource::new(&script));
                    let _ = mb.add_asset(&w, &AssetName::new(entries[*i].1.clone()).unwrap(), &Int::new_i32(1 + *i as i32));
                }
                mb.build().map(|m| m.to_bytes())
            });
            if let Ok(Ok(b)) = r {
                check_multiasset_bytes(ctx, "Mint(MintBuilder)", &b, det);
            }
        }
        _ => {
            // a Mint assembled by hand in insertion order, handed to the builder's deprecated
            // set_mint: what the builder would emit (get_mint) must be canonical
            let r = guard(|| {
                let mut m = Mint::new();
                let mut scripts = NativeScripts::new();
                let mut seen: Vec<u8> = vec![];
                for i in order {
                    let p = entries[*i].0;
                    if seen.contains(&p) {
                        continue;
                    }
                    seen.push(p);
                    let script = NativeScript::new_timelock_start(&TimelockStart::new_timelockstart(&BigNum::from(p as u64)));
                    let mut a = MintAssets::new();
                    for j in order {
                        if entries[*j].0 == p {
                            let _ = a.insert(&AssetName::new(entries[*j].1.clone()).unwrap(), &Int::new_i32(1 + *j as i32));
                        }
                    }
                    m.insert(&script.hash(), &a);
                    scripts.add(&script);
                }
                let cfg = TransactionBuilderConfigBuilder::new()
                    .fee_algo(&LinearFee::new(&BigNum::from(44u64), &BigNum::from(155381u64)))
                    .pool_deposit(&BigNum::from(1u64))
                    .key_deposit(&BigNum::from(1u64))
                    .max_value_size(5000)
                    .max_tx_size(16384)
                    .coins_per_utxo_byte(&BigNum::from(4310u64))
                    .build()
                    .unwrap();
                let mut tb = TransactionBuilder::new(&cfg);
                #[allow(deprecated)]
                tb.set_mint(&m, &scripts).map(|_| tb.get_mint().map(|x| x.to_bytes()))
            });
            if let Ok(Ok(Some(b))) = r {
                check_multiasset_bytes(ctx, "Mint(TransactionBuilder.set_mint)", &b, det);
            }
        }
    }
}

fn asset_perms(ctx: &mut Ctx, _r: &mut Rng, i: u64) {
    let which = i / 120;
    let order = nth_permutation(5, i % 120);
    // policies 3, 1, 2 so that policy order also differs from insertion order
    let entries: Vec<(u8, Vec<u8>)> = (0..5).map(|k| ([3u8, 1, 2, 1, 3][k], NAMES[k].to_vec())).collect();
    asset_case(ctx, &order, which, &entries);
}

fn asset_random(ctx: &mut Ctx, r: &mut Rng, i: u64) {
    let n = 2 + r.usize(14);
    let mut entries: Vec<(u8, Vec<u8>)> = vec![];
    while entries.len() < n {
        let len = *r.pick(&[0usize, 1, 1, 2, 3, 31, 32]);
        let e = (r.below(5) as u8, r.bytes(len));
        if !entries.contains(&e) {
            entries.push(e);
        }
    }
    let mut order: Vec<usize> = (0..n).collect();
    r.shuffle(&mut order);
    asset_case(ctx, &order, i % 6, &entries);
}

// ------------------------------------------------------------------------------------------------ witness set setters

fn witness_setters(ctx: &mut Ctx, r: &mut Rng, _i: u64) {
    ctx.eval();
    let mut g = G::new(r, 2, 3);
    let ns_pool: Vec<NativeScript> = (0..2).map(|_| g.native_script()).collect();
    let ps_pool: Vec<PlutusScript> = (0..2).map(|_| g.plutus_script()).collect();
    let pd_pool: Vec<PlutusData> = (0..2).map(|_| g.plutus_data()).collect();
    let mut ns = NativeScripts::new();
    let mut ps = PlutusScripts::new();
    let mut pd = PlutusList::new();
    let n = 1 + g.r.usize(4);
    for _ in 0..n {
        // the same script built through the API or read back from its bytes is one script
        let pick = &ns_pool[g.r.usize(2)];
        if g.r.below(3) == 0 {
            match guard(|| NativeScript::from_bytes(pick.to_bytes())) {
                Ok(Ok(parsed)) => {
                    ctx.bucket("setters.native-script-parsed-copy");
                    ns.add(&parsed);
                }
                _ => ns.add(pick),
            }
        } else {
            ns.add(pick);
        }
        ps.add(&ps_pool[g.r.usize(2)]);
        // likewise a datum built with a constructor and the same datum read back from its bytes
        let dpick = &pd_pool[g.r.usize(2)];
        if g.r.below(3) == 0 {
            match guard(|| PlutusData::from_bytes(dpick.to_bytes())) {
                Ok(Ok(parsed)) => {
                    ctx.bucket("setters.datum-parsed-copy");
                    pd.add(&parsed);
                }
                _ => pd.add(dpick),
            }
        } else {
            pd.add(dpick);
        }
    }
    let bytes = match guard(|| {
        let mut ws = TransactionWitnessSet::new();
        ws.set_native_scripts(&ns);
        ws.set_plutus_scripts(&ps);
        ws.set_plutus_data(&pd);
        ws.to_bytes()
    }) {
        Ok(b) => b,
        Err(p) => {
            ctx.violation(&format!("TransactionWitnessSet.setters/{}", p.sig()), json!({}));
            return;
        }
    };
    ctx.bucket("witness-set.setter-with-repeats");
    ctx.nontrivial_bytes("ws", &bytes);
    let it = match cbor::parse(&bytes) {
        Ok(i) => i,
        Err(_) => {
            ctx.violation("TransactionWitnessSet.setters/emitted-bytes-malformed", json!({"bytes": hx(&bytes)}));
            return;
        }
    };
    for (k, what) in [(1u64, "native-script"), (3, "plutus-v1-script"), (6, "plutus-v2-script"), (7, "plutus-v3-script"), (4, "datum")] {
        if let Some(f) = it.map_get(k) {
            if let Some(a) = f.untag(258).as_arr() {
                let mut e: Vec<&[u8]> = a.iter().map(|x| x.span(&bytes)).collect();
                let n = e.len();
                e.sort();
                e.dedup();
                if e.len() != n {
                    ctx.violation(&format!("TransactionWitnessSet.setters/{}-emitted-twice", what), json!({"bytes": hx(&bytes)}));
                }
            }
        }
    }
}
