//! C02 — parsers are total: malformed input yields an error, never a panic / abort / hang, and
//! whatever is accepted re-serializes normally into well-formed CBOR.
//! Monitors: catch_unwind (in-process), exit status of forked children (aborts), the shard crash
//! marker (unexpected fatal signals), our own CBOR reader on every re-encoding.

use crate::fw::*;
use crate::gen::mutate::*;
use crate::gen::registry::{registry, TypeEntry};
use crate::gen::typed::G;
use cardano_serialization_lib as csl;
use csl::*;
use serde_json::json;
use vkit::cbor::{self, Item, V};
use vkit::rng::Rng;

pub fn def() -> PropDef {
    PropDef {
        id: "C02",
        rule: "inputs: (1) EVERY byte string of length 0, 1, 2 for every byte parser; (2) valid encodings of every registry type (typed generators) mutated on the item tree of the independent CBOR reader (22 structural mutations) and on the bytes (8 mutations), fed to the type's own parser and to a foreign one; (3) grammar-generated CBOR independent of any type; (4) nesting up to depth 256; (5) declared lengths far beyond the input (2^16 .. 2^64-1), each in a forked child so that an abort costs one case; (6) malformed hex / Bech32 / Base58 / JSON / decimal text for every text parser; non-trivial = input accepted, or rejected although its first item is well-formed; distinct by hash of (parser, input)",
        assumptions: &[
            "nesting depth <= 256 (deeper recursion is outside the claim and not generated)",
            "input size <= 64 KiB; declared lengths between 2^36 and 2^46 are not generated (whether they abort depends on the host's overcommit state)",
            "a panic inside the monitor's own code is a harness error, never an observation",
        ],
        streams,
        floors: &[("exhaustive.inputs", 65_793), ("mutant.accepted", 20_000), ("mutant.rejected", 50_000), ("grammar.calls", 50_000), ("text.calls", 50_000), ("fork.cases", 1_000), ("nesting.cases", 500), ("reencode.wellformed", 20_000)],
        init: Some(init),
    }
}

struct St {
    reg: Vec<TypeEntry>,
    extra: Vec<ByteParser>,
    text: Vec<TextParser>,
}

fn init(ctx: &mut Ctx) {
    ctx.state = Some(Box::new(St { reg: registry(), extra: extra_byte_parsers(), text: text_parsers() }));
}
fn st(ctx: &Ctx) -> &'static St {
    let s = ctx.state.as_ref().unwrap().downcast_ref::<St>().unwrap();
    unsafe { &*(s as *const St) }
}

fn streams() -> Vec<Stream> {
    vec![
        Stream { name: "exhaustive-len-le-2", count: (65_793, 65_793), exhaustive: true, run: exhaustive },
        Stream { name: "mutants", count: (600_000, 20_000_000), exhaustive: false, run: mutants },
        Stream { name: "grammar", count: (200_000, 6_000_000), exhaustive: false, run: grammar },
        Stream { name: "nesting", count: (1_600, 40_000), exhaustive: false, run: nesting },
        Stream { name: "huge-lengths-forked", count: (4_800, 200_000), exhaustive: false, run: huge_lengths },
        Stream { name: "text", count: (300_000, 8_000_000), exhaustive: false, run: text },
        Stream { name: "overdeclared-lengths", count: (40_000, 1_000_000), exhaustive: false, run: overdeclared },
    ]
}

/// result of one parser call that did not panic
pub enum Res {
    Rejected,
    /// accepted; re-serialized CBOR bytes (if the type has a byte form)
    Accepted(Option<Vec<u8>>),
}

pub struct ByteParser {
    pub name: &'static str,
    pub call: fn(&[u8]) -> Res,
}
pub struct TextParser {
    pub name: &'static str,
    pub call: fn(&str) -> Res,
    /// what a well-formed input looks like (drives the text generator)
    pub kind: TextKind,
}
#[derive(Clone, Copy, PartialEq)]
pub enum TextKind {
    Hex,
    Bech32,
    Base58,
    Json,
    Decimal,
}

macro_rules! bp {
    ($v:ident, $name:expr, |$b:ident| $body:expr) => {{
        fn f($b: &[u8]) -> Res {
            $body
        }
        $v.push(ByteParser { name: $name, call: f });
    }};
}
macro_rules! tp {
    ($v:ident, $name:expr, $kind:expr, |$s:ident| $body:expr) => {{
        fn f($s: &str) -> Res {
            $body
        }
        $v.push(TextParser { name: $name, call: f, kind: $kind });
    }};
}

/// accepted value with a CBOR byte form
macro_rules! acc_cbor {
    ($r:expr) => {
        match $r {
            Ok(v) => {
                let b = v.to_bytes();
                let _ = v.to_hex();
                Res::Accepted(Some(b))
            }
            Err(_) => Res::Rejected,
        }
    };
}
/// accepted value whose to_bytes is raw (hashes, keys): exercise re-serialization, no CBOR check
macro_rules! acc_raw {
    ($r:expr) => {
        match $r {
            Ok(v) => {
                let _ = v.to_bytes();
                let _ = v.to_hex();
                Res::Accepted(None)
            }
            Err(_) => Res::Rejected,
        }
    };
}

fn extra_byte_parsers() -> Vec<ByteParser> {
    let mut v: Vec<ByteParser> = vec![];
    bp!(v, "Address::from_bytes", |b| match Address::from_bytes(b.to_vec()) {
        Ok(a) => {
            let _ = a.to_bytes();
            let _ = a.to_hex();
            let _ = a.to_bech32(None);
            let _ = a.kind();
            let _ = a.network_id();
            let _ = a.payment_cred();
            let _ = BaseAddress::from_address(&a).map(|x| x.stake_cred());
            let _ = PointerAddress::from_address(&a).map(|x| x.stake_pointer());
            let _ = RewardAddress::from_address(&a).map(|x| x.payment_cred());
            let _ = EnterpriseAddress::from_address(&a);
            let _ = ByronAddress::from_address(&a).map(|x| (x.to_base58(), x.byron_protocol_magic(), x.attributes()));
            let _ = PlutusData::from_address(&a);
            Res::Accepted(None)
        }
        Err(_) => Res::Rejected,
    });
    bp!(v, "ByronAddress::from_bytes", |b| match ByronAddress::from_bytes(b.to_vec()) {
        Ok(a) => {
            let _ = a.to_bytes();
            let _ = a.to_base58();
            let _ = a.network_id();
            Res::Accepted(Some(a.to_bytes()))
        }
        Err(_) => Res::Rejected,
    });
    bp!(v, "Ed25519KeyHash::from_bytes", |b| acc_raw!(Ed25519KeyHash::from_bytes(b.to_vec())));
    bp!(v, "ScriptHash::from_bytes", |b| acc_raw!(ScriptHash::from_bytes(b.to_vec())));
    bp!(v, "TransactionHash::from_bytes", |b| acc_raw!(TransactionHash::from_bytes(b.to_vec())));
    bp!(v, "DataHash::from_bytes", |b| acc_raw!(DataHash::from_bytes(b.to_vec())));
    bp!(v, "VRFVKey::from_bytes", |b| acc_raw!(VRFVKey::from_bytes(b.to_vec())));
    bp!(v, "KESVKey::from_bytes", |b| acc_raw!(KESVKey::from_bytes(b.to_vec())));
    bp!(v, "Ed25519Signature::from_bytes", |b| acc_raw!(Ed25519Signature::from_bytes(b.to_vec())));
    bp!(v, "KESSignature::from_bytes", |b| match KESSignature::from_bytes(b.to_vec()) {
        Ok(x) => {
            let _ = x.to_bytes();
            Res::Accepted(None)
        }
        Err(_) => Res::Rejected,
    });
    bp!(v, "PublicKey::from_bytes", |b| match PublicKey::from_bytes(b) {
        Ok(k) => {
            let _ = k.as_bytes();
            let _ = k.to_bech32();
            let _ = k.hash();
            Res::Accepted(None)
        }
        Err(_) => Res::Rejected,
    });
    bp!(v, "PrivateKey::from_normal_bytes", |b| match PrivateKey::from_normal_bytes(b) {
        Ok(k) => {
            let _ = k.as_bytes();
            let _ = k.to_public();
            Res::Accepted(None)
        }
        Err(_) => Res::Rejected,
    });
    bp!(v, "PrivateKey::from_extended_bytes", |b| match PrivateKey::from_extended_bytes(b) {
        Ok(k) => {
            // only re-serialization is exercised: deriving the public key of an unclamped
            // extended key is not what the property speaks about
            let _ = k.as_bytes();
            let _ = k.to_hex();
            Res::Accepted(None)
        }
        Err(_) => Res::Rejected,
    });
    bp!(v, "Bip32PrivateKey::from_bytes", |b| match Bip32PrivateKey::from_bytes(b) {
        Ok(k) => {
            let _ = k.as_bytes();
            let _ = k.to_public().as_bytes();
            let _ = k.to_128_xprv();
            Res::Accepted(None)
        }
        Err(_) => Res::Rejected,
    });
    bp!(v, "Bip32PrivateKey::from_128_xprv", |b| match Bip32PrivateKey::from_128_xprv(b) {
        Ok(k) => {
            let _ = k.as_bytes();
            Res::Accepted(None)
        }
        Err(_) => Res::Rejected,
    });
    bp!(v, "Bip32PublicKey::from_bytes", |b| match Bip32PublicKey::from_bytes(b) {
        Ok(k) => {
            let _ = k.as_bytes();
            let _ = k.derive(0);
            Res::Accepted(None)
        }
        Err(_) => Res::Rejected,
    });
    bp!(v, "LegacyDaedalusPrivateKey::from_bytes", |b| match LegacyDaedalusPrivateKey::from_bytes(b) {
        Ok(k) => {
            let _ = k.as_bytes();
            let _ = k.chaincode();
            Res::Accepted(None)
        }
        Err(_) => Res::Rejected,
    });
    bp!(v, "PlutusScript::from_bytes_v2", |b| acc_cbor!(PlutusScript::from_bytes_v2(b.to_vec())));
    bp!(v, "PlutusScript::from_bytes_v3", |b| acc_cbor!(PlutusScript::from_bytes_v3(b.to_vec())));
    bp!(v, "PlutusScript::from_bytes_with_version", |b| acc_cbor!(PlutusScript::from_bytes_with_version(b.to_vec(), &Language::new_plutus_v2())));
    bp!(v, "FixedTransaction::from_bytes", |b| match FixedTransaction::from_bytes(b.to_vec()) {
        Ok(t) => {
            let _ = t.raw_body();
            let _ = t.raw_witness_set();
            let _ = t.raw_auxiliary_data();
            let _ = t.transaction_hash();
            let _ = t.body();
            let _ = t.witness_set();
            let _ = t.to_hex();
            Res::Accepted(Some(t.to_bytes()))
        }
        Err(_) => Res::Rejected,
    });
    bp!(v, "FixedTransaction::new_from_body_bytes", |b| match FixedTransaction::new_from_body_bytes(b) {
        Ok(t) => Res::Accepted(Some(t.to_bytes())),
        Err(_) => Res::Rejected,
    });
    bp!(v, "FixedTransaction::new(body, same-bytes-as-witness-set)", |b| match FixedTransaction::new(b, b, true) {
        Ok(t) => Res::Accepted(Some(t.to_bytes())),
        Err(_) => Res::Rejected,
    });
    bp!(v, "FixedTransaction::new(valid-body, witness-set)", |b| {
        // a minimal valid body with the input as witness set
        let body = [0xa3u8, 0x00, 0x80, 0x01, 0x80, 0x02, 0x00];
        match FixedTransaction::new(&body, b, true) {
            Ok(mut t) => {
                let first = t.to_bytes();
                let _ = t.set_auxiliary_data(b);
                let _ = t.set_body(b);
                let _ = t.to_bytes();
                Res::Accepted(Some(first))
            }
            Err(_) => Res::Rejected,
        }
    });
    bp!(v, "FixedTransaction::new_with_auxiliary(valid-body, {}, aux)", |b| {
        let body = [0xa3u8, 0x00, 0x80, 0x01, 0x80, 0x02, 0x00];
        match FixedTransaction::new_with_auxiliary(&body, &[0xa0], b, true) {
            Ok(t) => Res::Accepted(Some(t.to_bytes())),
            Err(_) => Res::Rejected,
        }
    });
    bp!(v, "FixedBlock::from_bytes", |b| match FixedBlock::from_bytes(b.to_vec()) {
        Ok(x) => {
            let _ = x.header();
            let _ = x.transaction_bodies().len();
            let _ = x.block_hash();
            Res::Accepted(None)
        }
        Err(_) => Res::Rejected,
    });
    bp!(v, "FixedVersionedBlock::from_bytes", |b| match FixedVersionedBlock::from_bytes(b.to_vec()) {
        Ok(x) => {
            let _ = x.block();
            let _ = x.era();
            Res::Accepted(None)
        }
        Err(_) => Res::Rejected,
    });
    bp!(v, "FixedTransactionBody::from_bytes", |b| match FixedTransactionBody::from_bytes(b.to_vec()) {
        Ok(x) => {
            let _ = x.tx_hash();
            let _ = x.transaction_body();
            Res::Accepted(Some(x.original_bytes()))
        }
        Err(_) => Res::Rejected,
    });
    bp!(v, "FixedTxWitnessesSet::from_bytes", |b| match FixedTxWitnessesSet::from_bytes(b.to_vec()) {
        Ok(x) => {
            let _ = x.tx_witnesses_set();
            Res::Accepted(Some(x.to_bytes()))
        }
        Err(_) => Res::Rejected,
    });
    bp!(v, "VersionedBlock::from_bytes", |b| acc_cbor!(VersionedBlock::from_bytes(b.to_vec())));
    bp!(v, "MetadataList::from_bytes", |b| acc_cbor!(MetadataList::from_bytes(b.to_vec())));
    bp!(v, "MetadataMap::from_bytes", |b| acc_cbor!(MetadataMap::from_bytes(b.to_vec())));
    bp!(v, "PlutusMap::from_bytes", |b| acc_cbor!(PlutusMap::from_bytes(b.to_vec())));
    bp!(v, "TransactionMetadatumLabels::from_bytes", |b| acc_cbor!(TransactionMetadatumLabels::from_bytes(b.to_vec())));
    bp!(v, "has_transaction_set_tag", |b| match has_transaction_set_tag(b.to_vec()) {
        Ok(_) => Res::Accepted(None),
        Err(_) => Res::Rejected,
    });
    bp!(v, "TransactionMetadatum::from_bytes+json-decoders", |b| match TransactionMetadatum::from_bytes(b.to_vec()) {
        Ok(m) => {
            let _ = decode_metadatum_to_json_str(&m, MetadataJsonSchema::NoConversions);
            let _ = decode_metadatum_to_json_str(&m, MetadataJsonSchema::BasicConversions);
            let _ = decode_metadatum_to_json_str(&m, MetadataJsonSchema::DetailedSchema);
            let _ = decode_arbitrary_bytes_from_metadatum(&m);
            Res::Accepted(Some(m.to_bytes()))
        }
        Err(_) => Res::Rejected,
    });
    bp!(v, "PlutusData::from_bytes+json-decoders", |b| match PlutusData::from_bytes(b.to_vec()) {
        Ok(d) => {
            let _ = decode_plutus_datum_to_json_str(&d, PlutusDatumSchema::BasicConversions);
            let _ = decode_plutus_datum_to_json_str(&d, PlutusDatumSchema::DetailedSchema);
            let _ = d.as_address(&NetworkInfo::mainnet());
            let _ = hash_plutus_data(&d);
            Res::Accepted(Some(d.to_bytes()))
        }
        Err(_) => Res::Rejected,
    });
    bp!(v, "encode_arbitrary_bytes_as_metadatum", |b| {
        let m = encode_arbitrary_bytes_as_metadatum(b);
        Res::Accepted(Some(m.to_bytes()))
    });
    v
}

macro_rules! tp_simple {
    ($v:ident, $name:expr, $kind:expr, $call:expr) => {
        tp!($v, $name, $kind, |s| match $call(s) {
            Ok(_) => Res::Accepted(None),
            Err(_) => Res::Rejected,
        })
    };
}

fn text_parsers() -> Vec<TextParser> {
    let mut v: Vec<TextParser> = vec![];
    tp_simple!(v, "Address::from_bech32", TextKind::Bech32, Address::from_bech32);
    tp_simple!(v, "Address::from_hex", TextKind::Hex, Address::from_hex);
    tp_simple!(v, "ByronAddress::from_base58", TextKind::Base58, ByronAddress::from_base58);
    tp!(v, "ByronAddress::is_valid", TextKind::Base58, |s| if ByronAddress::is_valid(s) { Res::Accepted(None) } else { Res::Rejected });
    tp_simple!(v, "Ed25519KeyHash::from_bech32", TextKind::Bech32, Ed25519KeyHash::from_bech32);
    tp_simple!(v, "Ed25519KeyHash::from_hex", TextKind::Hex, Ed25519KeyHash::from_hex);
    tp_simple!(v, "ScriptHash::from_bech32", TextKind::Bech32, ScriptHash::from_bech32);
    tp_simple!(v, "TransactionHash::from_hex", TextKind::Hex, TransactionHash::from_hex);
    tp_simple!(v, "PublicKey::from_bech32", TextKind::Bech32, PublicKey::from_bech32);
    tp_simple!(v, "PublicKey::from_hex", TextKind::Hex, PublicKey::from_hex);
    tp_simple!(v, "PrivateKey::from_bech32", TextKind::Bech32, PrivateKey::from_bech32);
    tp_simple!(v, "PrivateKey::from_hex", TextKind::Hex, PrivateKey::from_hex);
    tp_simple!(v, "Bip32PrivateKey::from_bech32", TextKind::Bech32, Bip32PrivateKey::from_bech32);
    tp_simple!(v, "Bip32PrivateKey::from_hex", TextKind::Hex, Bip32PrivateKey::from_hex);
    tp_simple!(v, "Bip32PublicKey::from_bech32", TextKind::Bech32, Bip32PublicKey::from_bech32);
    tp_simple!(v, "Bip32PublicKey::from_hex", TextKind::Hex, Bip32PublicKey::from_hex);
    tp_simple!(v, "Ed25519Signature::from_bech32", TextKind::Bech32, Ed25519Signature::from_bech32);
    tp_simple!(v, "Ed25519Signature::from_hex", TextKind::Hex, Ed25519Signature::from_hex);
    tp_simple!(v, "DRep::from_bech32", TextKind::Bech32, DRep::from_bech32);
    tp_simple!(v, "BigNum::from_str", TextKind::Decimal, BigNum::from_str);
    tp_simple!(v, "Int::from_str", TextKind::Decimal, Int::from_str);
    tp_simple!(v, "BigInt::from_str", TextKind::Decimal, BigInt::from_str);
    tp!(v, "PlutusScript::from_hex_with_version", TextKind::Hex, |s| match PlutusScript::from_hex_with_version(s, &Language::new_plutus_v3()) {
        Ok(_) => Res::Accepted(None),
        Err(_) => Res::Rejected,
    });
    tp!(v, "encode_json_str_to_metadatum(NoConversions)", TextKind::Json, |s| match encode_json_str_to_metadatum(s.to_string(), MetadataJsonSchema::NoConversions) {
        Ok(m) => Res::Accepted(Some(m.to_bytes())),
        Err(_) => Res::Rejected,
    });
    tp!(v, "encode_json_str_to_metadatum(BasicConversions)", TextKind::Json, |s| match encode_json_str_to_metadatum(s.to_string(), MetadataJsonSchema::BasicConversions) {
        Ok(m) => Res::Accepted(Some(m.to_bytes())),
        Err(_) => Res::Rejected,
    });
    tp!(v, "encode_json_str_to_metadatum(DetailedSchema)", TextKind::Json, |s| match encode_json_str_to_metadatum(s.to_string(), MetadataJsonSchema::DetailedSchema) {
        Ok(m) => Res::Accepted(Some(m.to_bytes())),
        Err(_) => Res::Rejected,
    });
    tp!(v, "encode_json_str_to_plutus_datum(BasicConversions)", TextKind::Json, |s| match encode_json_str_to_plutus_datum(s, PlutusDatumSchema::BasicConversions) {
        Ok(m) => Res::Accepted(Some(m.to_bytes())),
        Err(_) => Res::Rejected,
    });
    tp!(v, "encode_json_str_to_plutus_datum(DetailedSchema)", TextKind::Json, |s| match encode_json_str_to_plutus_datum(s, PlutusDatumSchema::DetailedSchema) {
        Ok(m) => Res::Accepted(Some(m.to_bytes())),
        Err(_) => Res::Rejected,
    });
    tp!(v, "PlutusData::from_json(DetailedSchema)", TextKind::Json, |s| match PlutusData::from_json(s, PlutusDatumSchema::DetailedSchema) {
        Ok(m) => Res::Accepted(Some(m.to_bytes())),
        Err(_) => Res::Rejected,
    });
    tp!(v, "encode_json_str_to_native_script(Wallet)", TextKind::Json, |s| match encode_json_str_to_native_script(s, "m/1852'/1815'/0'", ScriptSchema::Wallet) {
        Ok(m) => Res::Accepted(Some(m.to_bytes())),
        Err(_) => Res::Rejected,
    });
    tp!(v, "encode_json_str_to_native_script(Node)", TextKind::Json, |s| match encode_json_str_to_native_script(s, "", ScriptSchema::Node) {
        Ok(m) => Res::Accepted(Some(m.to_bytes())),
        Err(_) => Res::Rejected,
    });
    tp!(v, "decrypt_with_password", TextKind::Hex, |s| match decrypt_with_password("70617373", s) {
        Ok(_) => Res::Accepted(None),
        Err(_) => Res::Rejected,
    });
    tp!(v, "encrypt_with_password(salt)", TextKind::Hex, |s| match encrypt_with_password("70617373", s, "000000000000000000000000", "00") {
        Ok(_) => Res::Accepted(None),
        Err(_) => Res::Rejected,
    });
    v
}

// ------------------------------------------------------------------------------------------------ judging

/// the type a parser belongs to ("FixedTransaction::new(..)" -> "FixedTransaction")
fn family(parser: &str) -> &str {
    let end = parser.find("::").or_else(|| parser.find('(')).unwrap_or(parser.len());
    &parser[..end]
}

/// signature of a panic: the library site and the normalised message identify the defect, whatever
/// parser reached it; allocation-size panics are raised below many call sites and are keyed by the
/// class of the declared length instead
fn panic_sig(p: &PanicRec, input: &[u8]) -> String {
    let _ = input;
    if p.msg.contains("capacity overflow") {
        // keyed by the code that asked for the allocation: a new reader that pre-sizes from the
        // declared length is a new signature
        format!("alloc/capacity-overflow-panic-on-huge-declared-length@{}", p.via)
    } else if p.msg.contains("attempt to negate with overflow") && p.loc.contains("cbor_event") && p.loc.contains("se.rs") {
        // one defect below many serializers (checked build only)
        "cbor_event/write_negative_integer/negate-overflow-for-minus-2^63".to_string()
    } else {
        p.sig()
    }
}

/// inputs that may legitimately kill the process (an allocation the host refuses): a declared
/// 4- or 8-byte string / array / map length of at least 2^31
fn risky(input: &[u8]) -> bool {
    risky_depth(input, 0)
}

fn risky_depth(input: &[u8], depth: u32) -> bool {
    // walk the heads as a decoder would meet them (strings are skipped over, containers entered; the
    // content of a byte string is walked too: inline datums, script references and Byron address payloads
    // are CBOR inside a byte string that a second decoder reads)
    let mut i = 0usize;
    let mut steps = 0;
    while i < input.len() && steps < 100_000 {
        steps += 1;
        let major = input[i] >> 5;
        let ai = input[i] & 0x1f;
        let (arg, hl): (u64, usize) = match ai {
            0..=23 => (ai as u64, 1),
            24 => {
                if i + 2 > input.len() {
                    return false;
                }
                (input[i + 1] as u64, 2)
            }
            25 => {
                if i + 3 > input.len() {
                    return false;
                }
                (u16::from_be_bytes([input[i + 1], input[i + 2]]) as u64, 3)
            }
            26 => {
                if i + 5 > input.len() {
                    return false;
                }
                let mut a = [0u8; 4];
                a.copy_from_slice(&input[i + 1..i + 5]);
                (u32::from_be_bytes(a) as u64, 5)
            }
            27 => {
                if i + 9 > input.len() {
                    return false;
                }
                let mut a = [0u8; 8];
                a.copy_from_slice(&input[i + 1..i + 9]);
                (u64::from_be_bytes(a), 9)
            }
            31 => (0, 1),
            _ => return false,
        };
        match major {
            2 | 3 => {
                if ai == 31 {
                    i += 1;
                    continue;
                }
                // a string allocates its declared length before reading
                if arg >= 1 << 31 {
                    return true;
                }
                let rem = (input.len() - i - hl) as u64;
                if arg > rem {
                    return false; // truncated string of moderate size: harmless
                }
                if major == 2 && arg >= 5 && depth < 4 && risky_depth(&input[i + hl..i + hl + arg as usize], depth + 1) {
                    return true;
                }
                i += hl + arg as usize;
            }
            4 | 5 => {
                // containers may pre-allocate length x element size
                if ai != 31 && arg >= 1 << 16 {
                    return true;
                }
                i += hl;
            }
            _ => i += hl,
        }
    }
    false
}

fn judge_bytes(ctx: &mut Ctx, parser: &str, input: &[u8], call: &dyn Fn(&[u8]) -> Res, origin: &str) {
    if risky(input) {
        ctx.bucket("routed-to-fork.large-declared-length");
        fork_judge(ctx, parser, input, call, origin);
        return;
    }
    if ctx.replay_mode {
        eprintln!("TRACE {} {}", parser, hx(input));
    }
    ctx.eval();
    match guard(|| call(input)) {
        Ok(Res::Rejected) => {
            ctx.bucket(&format!("{}.rejected", origin));
            // rejected deeper than the first item?
            if let Ok((_, used)) = cbor::parse_prefix(input) {
                if used == input.len() {
                    let mut v = parser.as_bytes().to_vec();
                    v.extend_from_slice(input);
                    ctx.nontrivial(vkit::rng::fnv64(&v));
                }
            }
        }
        Ok(Res::Accepted(reser)) => {
            ctx.bucket(&format!("{}.accepted", origin));
            let mut v = parser.as_bytes().to_vec();
            v.extend_from_slice(input);
            ctx.nontrivial(vkit::rng::fnv64(&v));
            if let Some(b) = reser {
                match cbor::parse(&b) {
                    Ok(_) => ctx.bucket("reencode.wellformed"),
                    Err(e) => {
                        let cls = match e {
                            cbor::CborErr::Truncated(_) => "truncated",
                            cbor::CborErr::Trailing(_) => "trailing-bytes",
                            cbor::CborErr::UnexpectedBreak(_) => "unexpected-break",
                            _ => "other",
                        };
                        ctx.violation(&format!("{}/re-encoding-not-well-formed-cbor", family(parser)), json!({"parser": parser, "class": cls, "input": hx(input), "reencoded": hx(&b), "origin": origin}));
                    }
                }
            }
            if input.len() > 8 {
                ctx.sample(&format!("accepted-{}", origin), || json!({"parser": parser, "input": hx(input)}));
            }
        }
        Err(p) => {
            ctx.bucket("panic.observed");
            ctx.violation(&panic_sig(&p, input), json!({"parser": parser, "input": hx(input), "loc": p.loc, "msg": p.msg, "origin": origin}));
        }
    }
}

fn registry_call(e: &'static TypeEntry) -> impl Fn(&[u8]) -> Res {
    move |b: &[u8]| match (e.from_bytes)(b.to_vec()) {
        Ok(v) => {
            let out = v.to_bytes();
            let _ = v.to_hex();
            let _ = v.to_json();
            Res::Accepted(Some(out))
        }
        Err(_) => Res::Rejected,
    }
}

fn exhaustive(ctx: &mut Ctx, _r: &mut Rng, i: u64) {
    let input: Vec<u8> = if i == 0 {
        vec![]
    } else if i <= 256 {
        vec![(i - 1) as u8]
    } else {
        let k = i - 257;
        vec![(k >> 8) as u8, (k & 0xff) as u8]
    };
    let s = st(ctx);
    ctx.bucket("exhaustive.inputs");
    for e in s.reg.iter() {
        let call = registry_call(e);
        judge_bytes(ctx, &format!("{}::from_bytes", e.name), &input, &call, "exhaustive");
    }
    for p in s.extra.iter() {
        judge_bytes(ctx, p.name, &input, &|b| (p.call)(b), "exhaustive");
    }
}

fn valid_encoding(r: &mut Rng, e: &TypeEntry) -> Option<Vec<u8>> {
    let mut g = G::new(r, 3, 3);
    g.wide_index = false;
    let v = guard(|| (e.gen)(&mut g)).ok()?;
    guard(|| v.to_bytes()).ok()
}

fn mutants(ctx: &mut Ctx, r: &mut Rng, i: u64) {
    let s = st(ctx);
    let e = &s.reg[(r.below(s.reg.len() as u64)) as usize];
    let _ = i;
    let bytes = match valid_encoding(r, e) {
        Some(b) => b,
        None => return,
    };
    let mut it = match cbor::parse(&bytes) {
        Ok(i) => i,
        Err(_) => return,
    };
    let n_tree = r.usize(3);
    let mut kinds: Vec<&'static str> = vec![];
    for _ in 0..n_tree {
        let k = r.usize(TREE_MUTATIONS);
        mutate_tree(&mut it, r, k);
        kinds.push(tree_mutation_name(k));
    }
    let mut b = cbor::to_vec(&it);
    if n_tree == 0 || r.below(3) == 0 {
        let k = r.usize(BYTE_MUTATIONS);
        mutate_bytes(&mut b, r, k);
        kinds.push(byte_mutation_name(k));
    }
    if b.len() > 65_536 {
        return;
    }
    for k in &kinds {
        ctx.bucket(&format!("mutation.{}", k));
    }
    let call = registry_call(e);
    judge_bytes(ctx, &format!("{}::from_bytes", e.name), &b, &call, "mutant");
    // hex path of the same type: must agree on acceptance
    if !risky(&b) {
        let h = hx(&b);
        ctx.eval();
        match guard(|| (e.from_hex)(&h).is_ok()) {
            Ok(ok_hex) => {
                if let Ok(ok_bytes) = guard(|| (e.from_bytes)(b.clone()).is_ok()) {
                    if ok_hex != ok_bytes {
                        ctx.violation(&format!("{}::from_hex/acceptance-differs-from-from_bytes", e.name), json!({"input": h}));
                    }
                }
            }
            Err(p) => ctx.violation(&panic_sig(&p, &b), json!({"parser": format!("{}::from_hex", e.name), "input": h, "msg": p.msg})),
        }
    }
    // a foreign parser on the same bytes
    if r.below(2) == 0 {
        let f = &s.reg[r.usize(s.reg.len())];
        let call = registry_call(f);
        judge_bytes(ctx, &format!("{}::from_bytes", f.name), &b, &call, "mutant");
    } else {
        let p = &s.extra[r.usize(s.extra.len())];
        judge_bytes(ctx, p.name, &b, &|x| (p.call)(x), "mutant");
    }
}

fn grammar(ctx: &mut Ctx, r: &mut Rng, _i: u64) {
    let s = st(ctx);
    let it = grammar_item(r, 4);
    let mut b = cbor::to_vec(&it);
    if r.below(4) == 0 {
        let k = r.usize(BYTE_MUTATIONS);
        mutate_bytes(&mut b, r, k);
    }
    ctx.bucket("grammar.calls");
    for _ in 0..3 {
        if r.below(3) == 0 {
            let p = &s.extra[r.usize(s.extra.len())];
            judge_bytes(ctx, p.name, &b, &|x| (p.call)(x), "grammar");
        } else {
            let f = &s.reg[r.usize(s.reg.len())];
            let call = registry_call(f);
            judge_bytes(ctx, &format!("{}::from_bytes", f.name), &b, &call, "grammar");
        }
    }
}

/// definite array / map heads below the root, as (offset of the head, major, declared length, head length)
fn definite_heads(it: &Item, root: bool, out: &mut Vec<(usize, u8, u64, usize)>) {
    let (major, len, kids): (u8, u64, Vec<&Item>) = match &it.v {
        V::A(xs) => (4, xs.len() as u64, xs.iter().collect()),
        V::M(es) => (5, es.len() as u64, es.iter().flat_map(|(k, v)| vec![k, v]).collect()),
        V::Tag(_, inner) => {
            definite_heads(inner, root, out);
            return;
        }
        _ => return,
    };
    if !root && !it.indef {
        let hl = match it.w {
            0 => 1,
            w => 1 + w as usize,
        };
        out.push((it.start, major, len, hl));
    }
    for k in kids {
        definite_heads(k, false, out);
    }
}

/// a valid transaction whose body / witness set / auxiliary data holds one container that DECLARES more
/// elements than it has (the rest of the bytes untouched), fed to the parsers that keep those parts as
/// raw bytes: whatever they accept must re-encode as well-formed CBOR
fn overdeclared(ctx: &mut Ctx, r: &mut Rng, _i: u64) {
    let s = st(ctx);
    let e = match s.reg.iter().find(|e| e.name == "Transaction") {
        Some(e) => e,
        None => return,
    };
    let bytes = match valid_encoding(r, e) {
        Some(b) => b,
        None => return,
    };
    let tx = match cbor::parse(&bytes) {
        Ok(i) => i,
        Err(_) => return,
    };
    let parts = match tx.as_arr() {
        Some(p) if p.len() == 4 => p,
        _ => return,
    };
    let which = r.usize(3);
    let part = &parts[[0usize, 1, 3][which]];
    let mut heads = vec![];
    definite_heads(part, true, &mut heads);
    if heads.is_empty() {
        ctx.bucket("overdeclared.no-inner-container");
        return;
    }
    let (off, major, len, hl) = heads[r.usize(heads.len())];
    let add = *r.pick(&[1u64, 1, 2, 7, 200, 70_000, 1 << 20]);
    let mut head = vec![];
    let n = len + add;
    if n < 24 {
        head.push((major << 5) | n as u8);
    } else if n < 256 {
        head.extend_from_slice(&[(major << 5) | 24, n as u8]);
    } else if n < 65_536 {
        head.push((major << 5) | 25);
        head.extend_from_slice(&(n as u16).to_be_bytes());
    } else {
        head.push((major << 5) | 26);
        head.extend_from_slice(&(n as u32).to_be_bytes());
    }
    let mut whole = bytes.clone();
    whole.splice(off..off + hl, head.iter().cloned());
    let delta = head.len() as isize - hl as isize;
    let pstart = part.start;
    let pend = (part.end as isize + delta) as usize;
    let pbytes = whole[pstart..pend].to_vec();
    ctx.bucket("overdeclared.cases");
    ctx.bucket(&format!("overdeclared.part.{}", ["body", "witness-set", "auxiliary-data"][which]));
    let by_name = |n: &str| s.extra.iter().find(|p| p.name == n);
    if let Some(p) = by_name("FixedTransaction::from_bytes") {
        judge_bytes(ctx, p.name, &whole, &|x| (p.call)(x), "overdeclared");
    }
    let own = match which {
        0 => vec!["FixedTransactionBody::from_bytes", "FixedTransaction::new_from_body_bytes"],
        1 => vec!["FixedTxWitnessesSet::from_bytes", "FixedTransaction::new(valid-body, witness-set)"],
        _ => vec!["FixedTransaction::new_with_auxiliary(valid-body, {}, aux)"],
    };
    for n in own {
        if let Some(p) = by_name(n) {
            judge_bytes(ctx, p.name, &pbytes, &|x| (p.call)(x), "overdeclared");
        }
    }
    let reg = ["TransactionBody", "TransactionWitnessSet", "AuxiliaryData"][which];
    if let Some(f) = s.reg.iter().find(|f| f.name == reg) {
        let call = registry_call(f);
        judge_bytes(ctx, &format!("{}::from_bytes", f.name), &pbytes, &call, "overdeclared");
    }
}

fn nesting(ctx: &mut Ctx, r: &mut Rng, i: u64) {
    let s = st(ctx);
    let depth = match r.below(4) {
        0 => 256,
        1 => 255,
        2 => 128 + r.usize(128),
        _ => 16 + r.usize(112),
    };
    let inner = match r.below(3) {
        0 => Item::u(1),
        1 => Item::bytes(&[1, 2, 3]),
        _ => Item::arr(vec![Item::u(0), Item::bytes(&[7; 28])]),
    };
    let it = nest(inner, depth, i / 16);
    let b = cbor::to_vec(&it);
    ctx.bucket("nesting.cases");
    // recursive types and a few containers, each in a forked child (a stack overflow kills the process)
    let targets = ["NativeScript", "PlutusData", "TransactionMetadatum", "TransactionOutput", "TransactionWitnessSet", "AuxiliaryData", "Transaction", "PlutusList", "GeneralTransactionMetadata", "NativeScripts"];
    let name = targets[r.usize(targets.len())];
    if let Some(e) = s.reg.iter().find(|e| e.name == name) {
        fork_judge(ctx, &format!("{}::from_bytes", e.name), &b, &|x| registry_call(e)(x), "nesting");
    }
}

/// run one call in a forked child; classify the outcome
fn fork_judge(ctx: &mut Ctx, parser: &str, input: &[u8], call: &dyn Fn(&[u8]) -> Res, origin: &str) {
    ctx.eval();
    ctx.bucket("fork.cases");
    let out = fork_case(20_000, || match call(input) {
        Res::Rejected => 1,
        Res::Accepted(Some(b)) => {
            if cbor::parse(&b).is_ok() {
                2
            } else {
                3
            }
        }
        Res::Accepted(None) => 2,
    });
    let mut v = parser.as_bytes().to_vec();
    v.extend_from_slice(input);
    match out {
        ForkOutcome::Exit(1) => ctx.bucket(&format!("{}.rejected", origin)),
        ForkOutcome::Exit(2) => {
            ctx.bucket(&format!("{}.accepted", origin));
            ctx.nontrivial(vkit::rng::fnv64(&v));
        }
        ForkOutcome::Exit(3) => ctx.violation(&format!("{}/re-encoding-not-well-formed-cbor", family(parser)), json!({"parser": parser, "input": hx(&input[..input.len().min(300)]), "origin": origin})),
        ForkOutcome::Exit(64) => {
            // panic in the child: repeat in-process to get the location
            ctx.nontrivial(vkit::rng::fnv64(&v));
            match guard(|| call(input)) {
                Err(p) => ctx.violation(&panic_sig(&p, input), json!({"parser": parser, "input": hx(&input[..input.len().min(300)]), "msg": p.msg, "origin": origin})),
                Ok(_) => ctx.violation(&format!("{}/panic-in-child-only", parser), json!({"input": hx(&input[..input.len().min(300)])})),
            }
        }
        ForkOutcome::Signal(sig) => {
            ctx.nontrivial(vkit::rng::fnv64(&v));
            let cls = match sig {
                6 => "SIGABRT",
                11 => "SIGSEGV",
                7 => "SIGBUS",
                9 => "SIGKILL",
                _ => "signal",
            };
            let class = if risky(input) && sig == 6 { "allocation-of-huge-declared-length-fails".to_string() } else { input_class(input).to_string() };
            ctx.violation(&format!("abort/{}/{}", cls, class), json!({"parser": parser, "input": hx(&input[..input.len().min(300)]), "signal": sig}));
        }
        ForkOutcome::HugeAlloc(who, site, bytes) => {
            ctx.nontrivial(vkit::rng::fnv64(&v));
            ctx.bucket("fork.huge-allocation-requested");
            ctx.violation(
                &format!("abort/allocation-of-huge-declared-length@{}", who),
                json!({"parser": parser, "input": hx(&input[..input.len().min(300)]), "requested_bytes": bytes, "requested_by": who, "library_site": site, "origin": origin}),
            );
        }
        ForkOutcome::Timeout => ctx.violation(&format!("{}/does-not-return-within-20s", parser), json!({"input": hx(&input[..input.len().min(300)])})),
        ForkOutcome::Exit(c) => {
            ctx.bucket("skipped.child-exit-unclassified");
            ctx.extra.insert("last_child_exit".into(), json!(c));
        }
    }
}

/// class of an input with a huge declared length: which length range was declared
fn input_class(input: &[u8]) -> &'static str {
    // find the largest 8-byte length head
    let mut max: u64 = 0;
    let mut i = 0;
    while i + 9 <= input.len() {
        if input[i] & 0x1f == 27 && (2..=5).contains(&(input[i] >> 5)) {
            let mut a = [0u8; 8];
            a.copy_from_slice(&input[i + 1..i + 9]);
            max = max.max(u64::from_be_bytes(a));
        }
        i += 1;
    }
    if max >= 1 << 63 {
        "declared-length>=2^63"
    } else if max >= 1 << 47 {
        "declared-length-2^47..2^63"
    } else if max >= 1 << 36 {
        "declared-length-2^36..2^47"
    } else if max >= 1 << 31 {
        "declared-length-2^31..2^36"
    } else if max > 0 {
        "declared-length<2^32"
    } else {
        "no-huge-length"
    }
}

fn huge_lengths(ctx: &mut Ctx, r: &mut Rng, _i: u64) {
    let s = st(ctx);
    let e = &s.reg[r.usize(s.reg.len())];
    let bytes = match valid_encoding(r, e) {
        Some(b) => b,
        None => return,
    };
    // replace one string / array / map head by a huge declared length
    let mut b = bytes.clone();
    let len: u64 = *r.pick(&[(b.len() as u64) + 1, 1 << 16, 1 << 32, (1 << 32) + 5, 1 << 47, 1 << 62, 1 << 63, u64::MAX]);
    let start = r.usize(b.len().max(1));
    let mut done = false;
    for off in 0..b.len() {
        let i = (start + off) % b.len();
        let major = b[i] >> 5;
        let ai = b[i] & 0x1f;
        // only heads our reader confirms: restrict to positions that parse as an item head in the valid encoding
        if (2..=5).contains(&major) && ai < 24 && is_item_start(&bytes, i) {
            let mut head = vec![(major << 5) | 27];
            head.extend_from_slice(&len.to_be_bytes());
            b.splice(i..i + 1, head);
            done = true;
            break;
        }
    }
    if !done {
        return;
    }
    ctx.bucket(&format!("huge.{}", input_class(&b)));
    fork_judge(ctx, &format!("{}::from_bytes", e.name), &b, &|x| registry_call(e)(x), "huge-length");
}

fn is_item_start(bytes: &[u8], pos: usize) -> bool {
    fn walk(it: &Item, pos: usize) -> bool {
        if it.start == pos {
            return true;
        }
        match &it.v {
            cbor::V::A(xs) => xs.iter().any(|x| walk(x, pos)),
            cbor::V::M(xs) => xs.iter().any(|(k, v)| walk(k, pos) || walk(v, pos)),
            cbor::V::Tag(_, i) => walk(i, pos),
            _ => false,
        }
    }
    match cbor::parse(bytes) {
        Ok(it) => walk(&it, pos),
        Err(_) => false,
    }
}

// ------------------------------------------------------------------------------------------------ text inputs

fn gen_text(r: &mut Rng, kind: TextKind, valid_cbor: &[u8]) -> String {
    match kind {
        TextKind::Hex => {
            let base = hx(valid_cbor);
            match r.below(10) {
                0 => String::new(),
                1 => "zz".into(),
                2 => format!("{}0", base),
                3 => base.to_uppercase(),
                4 => format!("0x{}", base),
                5 => format!("{} ", base),
                6 => {
                    let mut s = base.into_bytes();
                    if !s.is_empty() {
                        let i = r.usize(s.len());
                        s[i] = b'g';
                    }
                    String::from_utf8_lossy(&s).to_string()
                }
                7 => "é".repeat(1 + r.usize(3)),
                8 => {
                    let n = r.usize(80);
                    hx(&r.bytes(n))
                }
                _ => base,
            }
        }
        TextKind::Bech32 => {
            let n = *r.pick(&[0usize, 1, 28, 29, 32, 57, 64, 96, 200]);
            let payload = r.bytes(n);
            let hrp = *r.pick(&["addr", "addr_test", "stake", "ed25519_pk", "ed25519_sk", "xprv", "xpub", "drep", "script", "x", "addr_vkh", "ed25519_sig", "drep_script"]);
            let good = vkit::codec::bech32_encode(hrp, &payload);
            match r.below(10) {
                0 => String::new(),
                1 => good.to_uppercase(),
                2 => {
                    // mixed case
                    let mut s = good.clone().into_bytes();
                    if let Some(c) = s.iter_mut().rev().find(|c| c.is_ascii_lowercase()) {
                        *c = c.to_ascii_uppercase();
                    }
                    String::from_utf8_lossy(&s).to_string()
                }
                3 => {
                    // bad checksum
                    let mut s = good.clone().into_bytes();
                    let l = s.len();
                    s[l - 1] = if s[l - 1] == b'q' { b'p' } else { b'q' };
                    String::from_utf8_lossy(&s).to_string()
                }
                4 => {
                    // valid bech32 with non-zero padding: append a 5-bit group
                    let mut d5 = vkit::codec::convert_bits(&payload, 8, 5, true).unwrap_or_default();
                    d5.push(*r.pick(&[0u8, 1, 31]));
                    vkit::codec::bech32_encode_u5(hrp, &d5)
                }
                5 => good.replace('1', ""),
                6 => format!("{}1", hrp),
                7 => format!("1{}", &good[hrp.len()..]),
                8 => "a".repeat(1 + r.usize(1023)),
                _ => good,
            }
        }
        TextKind::Base58 => {
            let n = r.usize(90);
            let good = vkit::codec::base58_encode(&if r.bool() { valid_cbor.to_vec() } else { r.bytes(n) });
            match r.below(6) {
                0 => String::new(),
                1 => format!("{}0", good),
                2 => format!("{}O", good),
                3 => "1".repeat(r.usize(40)),
                4 => format!("{}é", good),
                _ => good,
            }
        }
        TextKind::Decimal => match r.below(10) {
            0 => String::new(),
            1 => "-".into(),
            2 => "+5".into(),
            3 => "1e5".into(),
            4 => "9".repeat(1 + r.usize(60)),
            5 => format!("-{}", "9".repeat(1 + r.usize(60))),
            6 => " 5".into(),
            7 => "0x10".into(),
            8 => "٣".into(),
            _ => r.wide_u64().to_string(),
        },
        TextKind::Json => {
            /// a JSON string body: fixed edge cases, or pieces of 1-, 2-, 3- and 4-byte characters with hex-looking prefixes
            fn jstr(r: &mut Rng) -> String {
                if r.below(3) == 0 {
                    return ["", "a", "0x00ff", "0xzz", "\\ud800", &"x".repeat(65)][r.usize(6)].to_string();
                }
                let pieces = ["a", "é", "€", "😀", "0x", "0X", "ff", "zz", " ", "\\n", "\\u00e9", "1", "-", "ß", "日本", "0"];
                let top = if r.below(8) == 0 { 40 } else { 5 };
                let n = 1 + r.usize(top);
                (0..n).map(|_| pieces[r.usize(pieces.len())]).collect::<String>()
            }
            fn j(r: &mut Rng, d: u32) -> String {
                match if d == 0 { r.below(8) } else { r.below(12) } {
                    0 => "null".into(),
                    1 => "true".into(),
                    2 => r.wide_u64().to_string(),
                    3 => format!("-{}", r.wide_u64()),
                    4 => "1.5".into(),
                    5 => format!("\"{}\"", jstr(r)),
                    6 => "99999999999999999999999999".into(),
                    7 => "1e400".into(),
                    8 => format!("[{}]", (0..r.usize(3)).map(|_| j(r, d - 1)).collect::<Vec<_>>().join(",")),
                    9 => format!(
                        "{{{}}}",
                        (0..r.usize(3))
                            .map(|_| {
                                let k = if r.below(4) == 0 {
                                    jstr(r)
                                } else {
                                    ["a", "1", "-5", "0x00", "int", "bytes", "list", "map", "k", "v", "constructor", "fields", "string", "type", "keyHash", "scripts", "slot", "required"][r.usize(18)].to_string()
                                };
                                format!("\"{}\":{}", k, j(r, d - 1))
                            })
                            .collect::<Vec<_>>()
                            .join(",")
                    ),
                    10 => format!("{{\"int\":{}}}", j(r, 0)),
                    _ => {
                        // detailed-schema map entries: the two members rightly or wrongly named, one or three members
                        let (a, b) = (j(r, d - 1), j(r, d - 1));
                        match r.below(8) {
                            0 => format!("{{\"map\":[{{\"k\":{},\"value\":{}}}]}}", a, b),
                            1 => format!("{{\"map\":[{{\"key\":{},\"v\":{}}}]}}", a, b),
                            2 => format!("{{\"map\":[{{\"k\":{}}}]}}", a),
                            3 => format!("{{\"map\":[{{\"k\":{},\"v\":{},\"x\":1}}]}}", a, b),
                            4 => format!("{{\"map\":[{{\"a\":{},\"b\":{}}}]}}", a, b),
                            _ => format!("{{\"map\":[{{\"k\":{},\"v\":{}}}]}}", a, b),
                        }
                    }
                }
            }
            /// wallet-template documents (the Wallet schema of encode_json_str_to_native_script): valid
            /// shapes with members dropped, mistyped or misplaced
            fn tmpl(r: &mut Rng, d: u32) -> String {
                let junk = |r: &mut Rng| ["1", "-1", "1.5", "\"x\"", "null", "[]", "{}", "true", "18446744073709551616"][r.usize(9)].to_string();
                if d == 0 || r.below(3) == 0 {
                    return match r.below(6) {
                        0 => "\"cosigner#0\"".into(),
                        1 => "\"cosigner#1\"".into(),
                        2 => "\"self\"".into(),
                        3 => format!("{{\"active_from\":{}}}", if r.below(4) == 0 { junk(r) } else { r.below(1 << 40).to_string() }),
                        4 => format!("{{\"active_until\":{}}}", if r.below(4) == 0 { junk(r) } else { r.below(1 << 40).to_string() }),
                        _ => junk(r),
                    };
                }
                let list = |r: &mut Rng, d: u32| format!("[{}]", (0..r.usize(3)).map(|_| tmpl(r, d - 1)).collect::<Vec<_>>().join(","));
                match r.below(6) {
                    0 => format!("{{\"all\":{}}}", if r.below(5) == 0 { junk(r) } else { list(r, d) }),
                    1 => format!("{{\"any\":{}}}", if r.below(5) == 0 { junk(r) } else { list(r, d) }),
                    _ => {
                        // "some": each member present, absent or mistyped
                        let mut members = vec![];
                        match r.below(4) {
                            0 => {}
                            1 => members.push(format!("\"at_least\":{}", junk(r))),
                            _ => members.push(format!("\"at_least\":{}", r.below(4))),
                        }
                        match r.below(4) {
                            0 => {}
                            1 => members.push(format!("\"from\":{}", junk(r))),
                            _ => members.push(format!("\"from\":{}", list(r, d))),
                        }
                        if r.below(6) == 0 {
                            members.push("\"extra\":1".into());
                        }
                        if r.below(8) == 0 {
                            format!("{{\"some\":{}}}", junk(r))
                        } else {
                            format!("{{\"some\":{{{}}}}}", members.join(","))
                        }
                    }
                }
            }
            if r.below(5) == 0 {
                let xpub = "a6c3c7c4d1d0e9ec0f7f0c0d8d1b9f1c6f0a0f6e0c9a1d2a3b4c5d6e7f8091a2b3c4d5e6f708192a3b4c5d6e7f8091a2b3c4d5e6f708192a3b4c5d6e7f8091a2b";
                let cos = match r.below(5) {
                    0 => "{}".to_string(),
                    1 => "[]".to_string(),
                    2 => format!("{{\"cosigner#0\":\"self\",\"cosigner#1\":\"{}\"}}", xpub),
                    3 => "{\"cosigner#0\":5}".to_string(),
                    _ => format!("{{\"cosigner#0\":\"{}\",\"cosigner#1\":\"{}zz\"}}", xpub, &xpub[..20]),
                };
                let t = tmpl(r, 3);
                return match r.below(8) {
                    0 => format!("{{\"template\":{}}}", t),
                    1 => format!("{{\"cosigners\":{}}}", cos),
                    _ => format!("{{\"cosigners\":{},\"template\":{}}}", cos, t),
                };
            }
            let mut s = j(r, 3);
            match r.below(8) {
                0 => {
                    let n = r.usize(s.len() + 1);
                    while !s.is_char_boundary(n.min(s.len())) {
                        s.pop();
                    }
                    s.truncate(n.min(s.len()));
                }
                1 => s.push_str("}"),
                2 => s = "[".repeat(200),
                3 => s = format!("{}{}{}", "[".repeat(120), "1", "]".repeat(120)),
                _ => {}
            }
            s
        }
    }
}

fn text(ctx: &mut Ctx, r: &mut Rng, _i: u64) {
    let s = st(ctx);
    ctx.bucket("text.calls");
    // (a) the hand-listed text parsers
    if r.below(3) != 0 {
        let p = &s.text[r.usize(s.text.len())];
        let input = gen_text(r, p.kind, &[0x82, 0x01, 0x02]);
        judge_text(ctx, p.name, &input, &|x| (p.call)(x));
    } else {
        // (b) from_hex / from_json of a registry type
        let e = &s.reg[r.usize(s.reg.len())];
        let valid = valid_encoding(r, e).unwrap_or_default();
        if r.bool() {
            let input = gen_text(r, TextKind::Hex, &valid);
            judge_text(ctx, &format!("{}::from_hex", e.name), &input, &|x| match (e.from_hex)(x) {
                Ok(v) => Res::Accepted(Some(v.to_bytes())),
                Err(_) => Res::Rejected,
            });
        } else if let Some(fj) = e.from_json {
            // valid JSON of the type, damaged, or generic JSON
            let mut input = String::new();
            if r.bool() {
                if let Ok(Ok(v)) = guard(|| (e.from_bytes)(valid.clone())) {
                    if let Some(Ok(j)) = v.to_json() {
                        input = j;
                        match r.below(5) {
                            0 => {
                                let n = r.usize(input.len() + 1);
                                let mut n = n.min(input.len());
                                while !input.is_char_boundary(n) {
                                    n -= 1;
                                }
                                input.truncate(n);
                            }
                            1 => input = input.replacen("\"", "", 1),
                            2 => input = input.replacen(":", ": null, \"x\":", 1),
                            3 => input = input.replace("1", "99999999999999999999999999"),
                            _ => {}
                        }
                    }
                }
            }
            if input.is_empty() {
                input = gen_text(r, TextKind::Json, &valid);
            }
            judge_text(ctx, &format!("{}::from_json", e.name), &input, &|x| match fj(x) {
                Ok(v) => {
                    let _ = v.to_json();
                    Res::Accepted(Some(v.to_bytes()))
                }
                Err(_) => Res::Rejected,
            });
        }
    }
}

fn judge_text(ctx: &mut Ctx, parser: &str, input: &str, call: &dyn Fn(&str) -> Res) {
    if let Some(decoded) = vkit::codec::unhex(input) {
        if risky(&decoded) {
            ctx.bucket("routed-to-fork.large-declared-length");
            let owned = input.to_string();
            fork_judge(ctx, parser, &decoded, &|_b| call(&owned), "text");
            return;
        }
    }
    ctx.eval();
    let mut v = parser.as_bytes().to_vec();
    v.extend_from_slice(input.as_bytes());
    match guard(|| call(input)) {
        Ok(Res::Rejected) => {
            ctx.bucket("text.rejected");
            if input.len() > 2 {
                ctx.nontrivial(vkit::rng::fnv64(&v));
            }
        }
        Ok(Res::Accepted(reser)) => {
            ctx.bucket("text.accepted");
            ctx.nontrivial(vkit::rng::fnv64(&v));
            if let Some(b) = reser {
                if cbor::parse(&b).is_err() {
                    ctx.violation(&format!("{}/re-encoding-not-well-formed-cbor", family(parser)), json!({"parser": parser, "input": input, "reencoded": hx(&b)}));
                } else {
                    ctx.bucket("reencode.wellformed");
                }
            }
        }
        Err(p) => {
            ctx.bucket("panic.observed");
            let shown: String = input.chars().take(300).collect();
            ctx.violation(&panic_sig(&p, &[]), json!({"parser": parser, "input": shown, "loc": p.loc, "msg": p.msg}));
        }
    }
}
