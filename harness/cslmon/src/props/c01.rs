//! C01 — every ledger type survives an encode/decode round trip.
//! Oracle: the library's own decoder / PartialEq / byte equality (the property is about the pairing
//! of encoder and decoder); C03 supplies the independent judgement of the bytes themselves.

use crate::fw::*;
use crate::gen::registry::{registry, AnyVal, TypeEntry};
use crate::gen::typed::{Tags, G};
use serde_json::json;
use vkit::rng::{Rng, LATTICE};

pub fn def() -> PropDef {
    PropDef {
        id: "C01",
        rule: "values of every registry type are built through public constructors/setters: (a) sized random values, (b) every presence mask of the optional fields of TransactionBody (2^18), TransactionWitnessSet (2^6), AuxiliaryData (2^3) exhaustively and of ProtocolParamUpdate pairwise+random, (c) every integer field forced to each value of the width lattice per type; non-trivial = encoding longer than 3 bytes; distinct by hash of (type, bytes)",
        assumptions: &[
            "equality is the library's own PartialEq; a value whose optional collection was set to an empty collection is compared by bytes and idempotence only (the wire format writes it as absent)",
            "nesting depth <= 6 (quick) / <= 24 (thorough), collections <= 6 (quick) / <= 40 (thorough) elements",
        ],
        streams,
        floors: &[("types.roundtrip-ok", 20_000), ("mask.TransactionBody", 200_000), ("width.cases", 1_000)],
        init: Some(init),
    }
}

struct St {
    reg: Vec<TypeEntry>,
}

fn init(ctx: &mut Ctx) {
    ctx.state = Some(Box::new(St { reg: registry() }));
}

fn reg(ctx: &Ctx) -> &'static Vec<TypeEntry> {
    // the registry lives for the whole process
    let st = ctx.state.as_ref().unwrap().downcast_ref::<St>().unwrap();
    unsafe { &*(&st.reg as *const Vec<TypeEntry>) }
}

fn streams() -> Vec<Stream> {
    let nt = registry().len() as u64;
    vec![
        Stream { name: "random", count: (nt * 2_500, nt * 60_000), exhaustive: false, run: random },
        Stream { name: "random-large", count: (nt * 30, nt * 1_500), exhaustive: false, run: random_large },
        Stream { name: "wide-index", count: (nt * 200, nt * 5_000), exhaustive: false, run: wide_index },
        Stream { name: "repeated-mint-policy", count: (8_000, 200_000), exhaustive: false, run: repeated_mint_policy },
        Stream { name: "fixed-tx-added-witnesses", count: (30_000, 800_000), exhaustive: false, run: fixed_tx_added },
        Stream { name: "body-masks", count: (1 << 18, 1 << 18), exhaustive: true, run: body_masks },
        Stream { name: "witness-masks", count: (64 * 8, 64 * 8), exhaustive: true, run: witness_masks },
        Stream { name: "aux-masks", count: (8 * 2 * 8, 8 * 2 * 8), exhaustive: true, run: aux_masks },
        Stream { name: "ppu-masks", count: (40_000, 1_000_000), exhaustive: false, run: ppu_masks },
        Stream { name: "width-sweep", count: (nt * LATTICE.len() as u64 * 4, nt * LATTICE.len() as u64 * 40), exhaustive: false, run: width_sweep },
    ]
}

/// the round-trip monitor proper
pub fn check_value(ctx: &mut Ctx, e: &TypeEntry, v: &dyn AnyVal, tags: &Tags) {
    ctx.eval();
    let name = e.name;
    let bytes = match guard(|| v.to_bytes()) {
        Ok(b) => b,
        Err(p) => {
            ctx.violation(&p.sig_at(&format!("{}/to_bytes", name)), json!({"value": clip(&v.debug()), "loc": p.loc, "msg": p.msg}));
            return;
        }
    };
    if bytes.len() > 3 {
        ctx.nontrivial_bytes(name, &bytes);
    }
    let d = match guard(|| v.from_bytes_same(bytes.clone())) {
        Ok(Ok(d)) => d,
        Ok(Err(err)) => {
            ctx.violation(&format!("{}/from_bytes(to_bytes)/error", name), json!({"bytes": hx(&bytes), "error": err, "value": clip(&v.debug())}));
            return;
        }
        Err(p) => {
            ctx.violation(&p.sig_at(&format!("{}/from_bytes(to_bytes)", name)), json!({"bytes": hx(&bytes), "msg": p.msg}));
            return;
        }
    };
    let bytes2 = match guard(|| d.to_bytes()) {
        Ok(b) => b,
        Err(p) => {
            ctx.violation(&p.sig_at(&format!("{}/to_bytes(decoded)", name)), json!({"bytes": hx(&bytes), "msg": p.msg}));
            return;
        }
    };
    if bytes2 != bytes {
        ctx.violation(&format!("{}/re-encode/bytes-differ", name), json!({"bytes": hx(&bytes), "reencoded": hx(&bytes2), "value": clip(&v.debug())}));
        // idempotence on the decoded value
        if let Ok(Ok(d2)) = guard(|| v.from_bytes_same(bytes2.clone())) {
            if !d2.eq_any(d.as_ref()) {
                ctx.violation(&format!("{}/decode-not-idempotent", name), json!({"bytes": hx(&bytes)}));
            }
        }
    }
    let compare_values = !tags.empty_optional_collection && !tags.plutus_empty_values;
    if compare_values {
        match guard(|| d.eq_any(v)) {
            Ok(true) => {}
            Ok(false) => {
                // locate the difference on the JSON forms when the type has one (Debug output of
                // hash containers is not deterministic)
                let jv = guard(|| v.to_json()).ok().flatten().and_then(|r| r.ok());
                let jd = guard(|| d.to_json()).ok().flatten().and_then(|r| r.ok());
                let (cls, diff) = match (jv, jd) {
                    (Some(a), Some(b)) if a != b => ("json-differs", diff_window(&a, &b)),
                    (Some(_), Some(_)) => ("json-equal", diff_window(&v.debug(), &d.debug())),
                    _ => ("no-json", diff_window(&v.debug(), &d.debug())),
                };
                ctx.violation(&format!("{}/decoded-value-differs/{}", name, cls), json!({"bytes": hx(&bytes), "diff": diff}));
            }
            Err(p) => ctx.violation(&p.sig_at(&format!("{}/eq", name)), json!({"bytes": hx(&bytes)})),
        }
    } else {
        ctx.bucket("types.compared-by-bytes-only");
    }
    // hex entry points
    match guard(|| v.to_hex()) {
        Ok(h) => {
            if h != hx(&bytes) {
                ctx.violation(&format!("{}/to_hex/differs-from-to_bytes", name), json!({"bytes": hx(&bytes), "hex": h}));
            }
            match guard(|| v.from_hex_same(&h)) {
                Ok(Ok(dh)) => {
                    let same = guard(|| dh.eq_any(d.as_ref()) && dh.to_bytes() == bytes2).unwrap_or(false);
                    if !same {
                        ctx.violation(&format!("{}/from_hex/differs-from-from_bytes", name), json!({"hex": h}));
                    }
                }
                Ok(Err(err)) => ctx.violation(&format!("{}/from_hex/error-where-from_bytes-ok", name), json!({"hex": h, "error": err})),
                Err(p) => ctx.violation(&p.sig_at(&format!("{}/from_hex", name)), json!({"hex": h})),
            }
            // upper-case hex must behave like the byte path too (hex is case-insensitive) or fail explicitly
        }
        Err(p) => ctx.violation(&p.sig_at(&format!("{}/to_hex", name)), json!({"bytes": hx(&bytes)})),
    }
    ctx.bucket("types.roundtrip-ok");
    ctx.bucket(&format!("type.{}", name));
    if bytes.len() > 40 {
        ctx.sample(name, || json!({"type": name, "bytes": hx(&bytes), "value": clip(&v.debug())}));
    }
}

fn gen_and_check(ctx: &mut Ctx, r: &mut Rng, e: &TypeEntry, depth: u32, coll: usize, mask: Option<u64>, force: Option<u64>) {
    let mut g = G::new(r, depth, coll);
    g.mask = mask;
    g.force_int = force;
    let v = match guard(|| (e.gen)(&mut g)) {
        Ok(v) => v,
        Err(p) => {
            // a constructor panicking on generator input: logged, not a round-trip refutation
            ctx.panic_seen(&p);
            ctx.bucket("gen.constructor-panic");
            return;
        }
    };
    let tags = g.tags.clone();
    check_value(ctx, e, v.as_ref(), &tags);
}

fn random(ctx: &mut Ctx, r: &mut Rng, i: u64) {
    let rg = reg(ctx);
    let e = &rg[(i % rg.len() as u64) as usize];
    let (depth, coll) = if ctx.quick() { (r.below(5) as u32, 4) } else { (r.below(7) as u32, 6) };
    gen_and_check(ctx, r, e, depth, coll, None, None);
}

/// the index arguments the API takes wider than the wire grammar bounds them (u32 transaction / governance
/// action indices above 65535, u64 redeemer indices above 2^32): whatever C03 says about emitting them, what
/// was written must be read back
fn wide_index(ctx: &mut Ctx, r: &mut Rng, i: u64) {
    let rg = reg(ctx);
    let e = &rg[(i % rg.len() as u64) as usize];
    let mut g = G::new(r, 3, 3);
    g.wide_index = true;
    let v = match guard(|| (e.gen)(&mut g)) {
        Ok(v) => v,
        Err(p) => {
            ctx.panic_seen(&p);
            ctx.bucket("gen.constructor-panic");
            return;
        }
    };
    let tags = g.tags.clone();
    check_value(ctx, e, v.as_ref(), &tags);
}

/// `Mint::insert` appends: a mint that names a policy twice is a value of the public API (the ledger reads the
/// two entries as one map with a repeated key; whether that is wise is not C01's question) and has to come back
/// from its own bytes like any other, alone and inside a body / transaction / block
fn repeated_mint_policy(ctx: &mut Ctx, r: &mut Rng, i: u64) {
    let rg = reg(ctx);
    let names = ["Mint", "TransactionBody", "Transaction", "TransactionBodies", "Block"];
    let want = names[(i % names.len() as u64) as usize];
    let e = match rg.iter().find(|e| e.name == want) {
        Some(e) => e,
        None => return,
    };
    let mut g = G::new(r, 3, 3);
    g.repeat_mint_policy = true;
    let v = match guard(|| (e.gen)(&mut g)) {
        Ok(v) => v,
        Err(p) => {
            ctx.panic_seen(&p);
            ctx.bucket("gen.constructor-panic");
            return;
        }
    };
    let tags = g.tags.clone();
    ctx.bucket("repeated-mint-policy.cases");
    check_value(ctx, e, v.as_ref(), &tags);
}

/// a decoded transaction with witnesses ADDED is a value built through the public API like any other: what
/// it encodes to decodes to the same witnesses (the old ones and the added ones)
fn fixed_tx_added(ctx: &mut Ctx, r: &mut Rng, _i: u64) {
    use cardano_serialization_lib::*;
    let mut g = G::new(r, 2, 3);
    let (bytes, add_v, add_b) = match guard(|| {
        let tx = g.transaction(false);
        let nv = g.r.usize(3);
        let nb = g.r.usize(3);
        let add_v: Vec<Vkeywitness> = (0..nv).map(|_| g.vkeywitness()).collect();
        let add_b: Vec<BootstrapWitness> = (0..nb).map(|_| g.bootstrap_witness()).collect();
        (tx.to_bytes(), add_v, add_b)
    }) {
        Ok(x) => x,
        Err(p) => {
            ctx.panic_seen(&p);
            return;
        }
    };
    ctx.eval();
    let mut ft = match guard(|| FixedTransaction::from_bytes(bytes.clone())) {
        Ok(Ok(f)) => f,
        _ => {
            ctx.bucket("fixed-added.not-loaded");
            return;
        }
    };
    let enc = |w: &dyn Fn() -> Vec<u8>| guard(|| w()).unwrap_or_default();
    let collect = |f: &FixedTransaction| -> Option<(Vec<Vec<u8>>, Vec<Vec<u8>>)> {
        guard(|| {
            let ws = f.witness_set();
            let v = ws.vkeys().map(|x| (0..x.len()).map(|i| x.get(i).to_bytes()).collect()).unwrap_or_default();
            let b = ws.bootstraps().map(|x| (0..x.len()).map(|i| x.get(i).to_bytes()).collect()).unwrap_or_default();
            (v, b)
        })
        .ok()
    };
    let (mut want_v, mut want_b) = match collect(&ft) {
        Some(x) => x,
        None => return,
    };
    for w in &add_v {
        if guard(|| ft.add_vkey_witness(w)).is_err() {
            return;
        }
        let b = enc(&|| w.to_bytes());
        if !want_v.contains(&b) {
            want_v.push(b);
        }
    }
    for w in &add_b {
        if guard(|| ft.add_bootstrap_witness(w)).is_err() {
            return;
        }
        let b = enc(&|| w.to_bytes());
        if !want_b.contains(&b) {
            want_b.push(b);
        }
    }
    let out = match guard(|| ft.to_bytes()) {
        Ok(b) => b,
        Err(p) => {
            ctx.panic_seen(&p);
            return;
        }
    };
    ctx.nontrivial_bytes("fixed-added", &out);
    match guard(|| FixedTransaction::from_bytes(out.clone())) {
        Ok(Ok(back)) => {
            let (mut got_v, mut got_b) = match collect(&back) {
                Some(x) => x,
                None => return,
            };
            let (mut wv, mut wb) = (want_v.clone(), want_b.clone());
            got_v.sort();
            got_b.sort();
            wv.sort();
            wb.sort();
            if got_v != wv {
                ctx.violation("FixedTransaction/from_bytes(to_bytes)/vkey-witnesses-differ-after-adding", json!({"input": hx(&bytes), "added_vkeys": add_v.len(), "added_bootstraps": add_b.len(), "encoded": hx(&out), "decoded": got_v.len(), "expected": wv.len()}));
            } else if got_b != wb {
                ctx.violation("FixedTransaction/from_bytes(to_bytes)/bootstrap-witnesses-differ-after-adding", json!({"input": hx(&bytes), "added_vkeys": add_v.len(), "added_bootstraps": add_b.len(), "encoded": hx(&out), "decoded": got_b.len(), "expected": wb.len()}));
            } else {
                ctx.bucket("fixed-added.roundtrip-ok");
                if !add_b.is_empty() && want_b.len() > add_b.len() {
                    ctx.bucket("fixed-added.bootstrap-added-to-existing-bootstraps");
                }
            }
        }
        Ok(Err(e)) => ctx.violation("FixedTransaction/from_bytes(to_bytes)/error-after-adding-witnesses", json!({"input": hx(&bytes), "encoded": hx(&out), "error": format!("{:?}", e)})),
        Err(p) => ctx.violation(&p.sig_at("FixedTransaction/from_bytes(to_bytes)"), json!({"encoded": hx(&out)})),
    }
}

fn random_large(ctx: &mut Ctx, r: &mut Rng, i: u64) {
    let rg = reg(ctx);
    let e = &rg[(i % rg.len() as u64) as usize];
    let (depth, coll) = if ctx.quick() { (6, 24) } else { (24, 40) };
    gen_and_check(ctx, r, e, depth, coll, None, None);
}

fn by_name(ctx: &Ctx, n: &str) -> &'static TypeEntry {
    reg(ctx).iter().find(|e| e.name == n).unwrap()
}

fn body_masks(ctx: &mut Ctx, r: &mut Rng, i: u64) {
    let e = by_name(ctx, "TransactionBody");
    ctx.bucket("mask.TransactionBody");
    gen_and_check(ctx, r, e, 1, 2, Some(i), None);
}

fn witness_masks(ctx: &mut Ctx, r: &mut Rng, i: u64) {
    let e = by_name(ctx, "TransactionWitnessSet");
    ctx.bucket("mask.TransactionWitnessSet");
    gen_and_check(ctx, r, e, 2, 3, Some(i % 64), None);
}

fn aux_masks(ctx: &mut Ctx, r: &mut Rng, i: u64) {
    let e = by_name(ctx, "AuxiliaryData");
    ctx.bucket("mask.AuxiliaryData");
    gen_and_check(ctx, r, e, 2, 3, Some(i % 8), None);
}

fn ppu_masks(ctx: &mut Ctx, r: &mut Rng, i: u64) {
    let e = by_name(ctx, "ProtocolParamUpdate");
    // all singles, all pairs, complements, then random
    let n = 30u64;
    let mask = if i < n {
        1u64 << i
    } else if i < n + n * (n - 1) / 2 {
        let mut k = i - n;
        let mut a = 0;
        while k >= n - 1 - a {
            k -= n - 1 - a;
            a += 1;
        }
        (1u64 << a) | (1u64 << (a + 1 + k))
    } else if i < 2 * n + n * (n - 1) / 2 {
        ((1u64 << n) - 1) & !(1u64 << (i - n - n * (n - 1) / 2))
    } else {
        r.u64() & ((1u64 << n) - 1)
    };
    ctx.bucket("mask.ProtocolParamUpdate");
    gen_and_check(ctx, r, e, 1, 3, Some(mask), None);
}

fn width_sweep(ctx: &mut Ctx, r: &mut Rng, i: u64) {
    let rg = reg(ctx);
    let nt = rg.len() as u64;
    let e = &rg[(i % nt) as usize];
    let v = LATTICE[((i / nt) % LATTICE.len() as u64) as usize];
    ctx.bucket("width.cases");
    gen_and_check(ctx, r, e, 2, 3, None, Some(v));
}

pub fn clip(s: &str) -> String {
    if s.len() > 700 {
        let mut e = 700;
        while !s.is_char_boundary(e) {
            e -= 1;
        }
        format!("{}...", &s[..e])
    } else {
        s.to_string()
    }
}

/// window around the first difference of two Debug renderings
pub fn diff_window(a: &str, b: &str) -> serde_json::Value {
    let (ab, bb) = (a.as_bytes(), b.as_bytes());
    let mut i = 0;
    while i < ab.len() && i < bb.len() && ab[i] == bb[i] {
        i += 1;
    }
    let lo = i.saturating_sub(160);
    let w = |x: &[u8]| String::from_utf8_lossy(&x[lo.min(x.len())..(i + 160).min(x.len())]).to_string();
    json!({"at": i, "original": w(ab), "decoded": w(bb)})
}
