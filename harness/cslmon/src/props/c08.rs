//! C08 — coin selection is sound under every random outcome.
//! The random draws of the library (rand::thread_rng -> uniform integer sampler) are put under the
//! control of a choice tape (harness-side patched copy of the rand crate), so the whole choice
//! tree of small instances is enumerated depth-first and any schedule can be replayed.

use super::bld::*;
use super::c05::{binit, ASSUMPTIONS};
use crate::fw::*;
use crate::scen::*;
use cardano_serialization_lib as csl;
use csl::*;
use serde_json::json;
use std::collections::BTreeSet;
use vkit::ledger::Val;
use vkit::rng::Rng;

pub fn def() -> PropDef {
    PropDef {
        id: "C08",
        rule: "an instance = (0-1 pre-existing inputs, 1-2 requested outputs, 1-6 offered UTxOs with amounts from a lattice around the output amount, strategy); for the two random strategies EVERY sequence of random choices is executed (depth-first enumeration of the choice tree through the controlled rand crate, capped at 4000 leaves per instance), larger instances (7-30 UTxOs) with seeded random tapes; each leaf is one evaluation; non-trivial = selection returned Ok or an insufficiency error was judged; distinct by hash of (instance, tape)",
        assumptions: ASSUMPTIONS,
        streams,
        floors: &[("ok.LargestFirst", 300), ("ok.RandomImprove", 2_000), ("ok.LargestFirstMultiAsset", 300), ("ok.RandomImproveMultiAsset", 2_000), ("trees.completed", 300), ("leaf.improvement-swap", 200), ("leaf.fee-top-up", 200), ("err.insufficient-judged", 200), ("lf.largest-clause-judged", 100)],
        init: Some(binit),
    }
}

fn streams() -> Vec<Stream> {
    vec![
        Stream { name: "trees-small", count: (6_000, 300_000), exhaustive: false, run: trees_small },
        Stream { name: "random-tapes-large", count: (6_000, 300_000), exhaustive: false, run: tapes_large },
        Stream { name: "tuned-to-the-boundary", count: (16_000, 800_000), exhaustive: false, run: tuned },
    ]
}

fn strat(k: u8) -> (CoinSelectionStrategyCIP2, &'static str) {
    match k % 4 {
        0 => (CoinSelectionStrategyCIP2::LargestFirst, "LargestFirst"),
        1 => (CoinSelectionStrategyCIP2::RandomImprove, "RandomImprove"),
        2 => (CoinSelectionStrategyCIP2::LargestFirstMultiAsset, "LargestFirstMultiAsset"),
        _ => (CoinSelectionStrategyCIP2::RandomImproveMultiAsset, "RandomImproveMultiAsset"),
    }
}

struct Inst {
    tb: TransactionBuilder,
    utxos: Vec<vkit::ledger::UtxoEntry>,
    offered: Vec<usize>,
    pre: Vec<usize>,
    offered_csl: TransactionUnspentOutputs,
    k: u8,
    desc: serde_json::Value,
    outputs_have_assets: bool,
    /// lovelace entering through a reward withdrawal (implicit input)
    implicit: u64,
    /// tokens the transaction mints (they enter on the input side)
    minted: Vec<((Vec<u8>, Vec<u8>), i128)>,
    /// the re-evaluations of the largest-first / insufficiency clauses re-add inputs by (address, input, amount)
    /// and cannot reproduce script-carrying or already-present UTxOs: those clauses are not judged then
    no_reeval: bool,
}

fn make_instance(r: &mut Rng, ring: &'static KeyRing, n_offered: usize, k: u8) -> Option<Inst> {
    // one instance in five prices reference scripts, and some offered UTxOs carry one (spending such a UTxO
    // is charged for it)
    let ref_mode = r.below(5) == 0;
    let params = vkit::ledger::Params { fee_a: 44, fee_b: 155_381, key_deposit: 2_000_000, pool_deposit: 500_000_000, coins_per_byte: 4310, max_value_size: 5000, max_tx_size: 16384, ex_prices: None, ref_script_price: if ref_mode { Some((15, 1)) } else { None } };
    // now and then the configuration drops an explicit reference input that also becomes a regular input, the
    // builder holds such a reference input, and the UTxO it names is offered by an address that already signs:
    // selecting it makes the transaction SMALLER
    let dedup_mode = r.below(8) == 0;
    let (cfg, _) = {
        let mut r2 = Rng::new(1);
        make_config(&params, &mut r2)
    };
    let cfg = if dedup_mode {
        let mut b = TransactionBuilderConfigBuilder::new()
            .fee_algo(&LinearFee::new(&BigNum::from(params.fee_a), &BigNum::from(params.fee_b)))
            .pool_deposit(&BigNum::from(params.pool_deposit))
            .key_deposit(&BigNum::from(params.key_deposit))
            .max_value_size(params.max_value_size as u32)
            .max_tx_size(params.max_tx_size as u32)
            .coins_per_utxo_byte(&BigNum::from(params.coins_per_byte))
            .deduplicate_explicit_ref_inputs_with_regular_inputs(true);
        if let Some((n, d)) = params.ref_script_price {
            b = b.ref_script_coins_per_byte(&UnitInterval::new(&BigNum::from(n), &BigNum::from(d)));
        }
        b.build().unwrap()
    } else {
        cfg
    };
    let mut pre_addr: Option<Address> = None;
    let mut s = Scn::new(r, ring, Focus::default());
    let mut tb = TransactionBuilder::new(&cfg);
    let multi = k % 4 >= 2;
    let identical = s.r.below(5) == 0;
    let n_out = if identical { 2 + s.r.below(2) } else { 1 + s.r.below(2) };
    let ident_addr = {
        let kx = s.key_ix();
        s.key_address(kx)
    };
    let base = *s.r.pick(&[2_000_000u64, 3_000_000, 10_000_000, 1_500_000]);
    let mut outs_desc = vec![];
    let mut outputs_have_assets = false;
    let mut want_assets: Vec<((Vec<u8>, Vec<u8>), i128)> = vec![];
    for j in 0..n_out {
        // identical outputs: the same address and amount several times
        let coin = if identical { base } else { base + j * 500_000 + s.r.below(3) * 100_000 };
        let mut v = Val::coin(coin);
        if multi && !identical && s.r.below(2) == 0 {
            let id = (vec![0xa1; 28], vec![0x61 + s.r.below(2) as u8]);
            let q = 1 + s.r.below(50) as i128;
            v.add_asset(id.clone(), q);
            want_assets.push((id, q));
            outputs_have_assets = true;
        }
        let kx = s.key_ix();
        let addr = if identical { ident_addr.clone() } else { s.key_address(kx) };
        let mut out = TransactionOutput::new(&addr, &val_to_csl(&v));
        if let Ok(Ok(min)) = guard(|| min_ada_for_output(&out, &DataCost::new_coins_per_byte(&BigNum::from(4310u64)))) {
            let min: u64 = min.into();
            if coin < min {
                v.coin = min as i128;
                out = TransactionOutput::new(&addr, &val_to_csl(&v));
            }
        }
        if guard(|| tb.add_output(&out)).ok()?.is_err() {
            return None;
        }
        outs_desc.push(format!("coin={} assets={:?}", v.coin, v.assets.values().collect::<Vec<_>>()));
    }
    // now and then tokens are burned: nothing is paid out in that asset, the inputs must still bring it
    let mut burned: Option<((Vec<u8>, Vec<u8>), i128)> = None;
    // (under the ADA-only strategies too, now and then: they cannot collect the token, so all they may do is refuse)
    if (multi || s.r.below(3) == 0) && s.r.below(5) == 0 {
        let ns = ring.natives[0].clone();
        let pid = ns.hash().to_bytes();
        let name = vec![0x62];
        let q = 1 + s.r.below(40) as i128;
        let mut mb = MintBuilder::new();
        let wit = MintWitness::new_native_script(&NativeScriptSource::new(&ns));
        if let Ok(Ok(())) = guard(|| mb.add_asset(&wit, &AssetName::new(name.clone()).unwrap(), &Int::new_negative(&BigNum::from(q as u64)))) {
            tb.set_mint_builder(&mb);
            burned = Some(((pid, name), q));
            // the multi-asset strategies then select by that asset first: the pure largest-by-coin clause does not apply
            outputs_have_assets = true;
        }
    }
    // now and then the transaction mints under two policies while an output asks for a token that is NOT
    // minted (the later policy with the earlier policy's asset name): it must come from the offered UTxOs
    let mut minted: Vec<((Vec<u8>, Vec<u8>), i128)> = vec![];
    let mut wanted_unminted: Option<((Vec<u8>, Vec<u8>), i128)> = None;
    if multi && burned.is_none() && s.r.below(6) == 0 {
        let (na, nb) = (ring.natives[1].clone(), ring.natives[2].clone());
        let (mut pa, mut pb) = (na.hash().to_bytes(), nb.hash().to_bytes());
        let (mut sa, mut sb) = (na, nb);
        if pa > pb {
            std::mem::swap(&mut pa, &mut pb);
            std::mem::swap(&mut sa, &mut sb);
        }
        let (name_a, name_b) = (vec![0x6e, 0x31], vec![0x6e, 0x32]);
        let mut mb = MintBuilder::new();
        let ok_a = guard(|| mb.add_asset(&MintWitness::new_native_script(&NativeScriptSource::new(&sa)), &AssetName::new(name_a.clone()).unwrap(), &Int::new_i32(5)));
        let ok_b = guard(|| mb.add_asset(&MintWitness::new_native_script(&NativeScriptSource::new(&sb)), &AssetName::new(name_b.clone()).unwrap(), &Int::new_i32(7)));
        if matches!(ok_a, Ok(Ok(()))) && matches!(ok_b, Ok(Ok(()))) {
            tb.set_mint_builder(&mb);
            minted.push(((pa.clone(), name_a.clone()), 5));
            minted.push(((pb.clone(), name_b.clone()), 7));
            // an output that takes the minted tokens and some of (later policy, earlier name)
            let q = 1 + s.r.below(20) as i128;
            let mut v = Val::coin(2_000_000);
            v.add_asset((pa.clone(), name_a.clone()), 5);
            v.add_asset((pb.clone(), name_b.clone()), 7);
            v.add_asset((pb.clone(), name_a.clone()), q);
            let kx = s.key_ix();
            let addr = s.key_address(kx);
            let out = TransactionOutput::new(&addr, &val_to_csl(&v));
            if matches!(guard(|| tb.add_output(&out)), Ok(Ok(()))) {
                wanted_unminted = Some(((pb, name_a), q));
                outputs_have_assets = true;
                outs_desc.push(format!("coin=2000000 assets=[5 minted, 7 minted, {} not minted]", q));
            }
        }
    }
    // now and then the caller asks for a minimum fee around the fee the selection will reach
    let mut asked_min_fee: Option<u64> = None;
    if s.r.below(4) == 0 {
        if let Ok(Ok(f0)) = guard(|| tb.min_fee()) {
            let f0: u64 = f0.into();
            let x = f0 + s.r.below(14_000);
            if guard(|| tb.set_min_fee(&BigNum::from(x))).is_ok() {
                asked_min_fee = Some(x);
            }
        }
    }
    // now and then a reward withdrawal pays (part of) the lovelace: the selection then starts from an
    // implicit input and, for the multi-asset strategies, still has to collect the tokens
    let mut implicit = 0u64;
    let with_withdrawal = s.r.below(5) == 0;
    if with_withdrawal {
        // ... or just covers outputs + the fee of the transaction without inputs
        let just = guard(|| (tb.get_total_output().map(|v| u64::from(v.coin())), tb.min_fee().map(u64::from))).ok().and_then(|(a, b)| Some(a.ok()? + b.ok()? + s.r.below(3_000)));
        let w = match (s.r.below(3), just) {
            (0, Some(j)) => j,
            _ => *s.r.pick(&[base * n_out + 5_000_000, 20 * base, 500_000, base]),
        };
        let kx = s.key_ix();
        let ra = RewardAddress::new(s.net, &Credential::from_keyhash(&ring.keys[kx].hash));
        let mut ws = Withdrawals::new();
        ws.insert(&ra, &BigNum::from(w));
        tb.set_withdrawals(&ws);
        implicit = w;
    }
    // pre-existing input
    let mut pre = vec![];
    if dedup_mode || (s.r.below(3) == 0 && !(with_withdrawal && s.r.bool())) {
        let kx = s.key_ix();
        let addr = s.key_address(kx);
        pre_addr = Some(addr.clone());
        let v = Val::coin(*s.r.pick(&[1_000_000u64, 1_500_000, base, 300_000]));
        let i = s.new_utxo(&addr, v);
        let mut ib = TxInputsBuilder::new();
        let _ = ib.add_regular_utxo(&s.csl_utxo(i, None, None));
        tb.set_inputs(&ib);
        pre.push(i);
    }
    // offered: amounts from a lattice around the output amount
    let total_out: u64 = base * n_out + 500_000;
    let lattice = [base / 2, base - 1, base, base + 1, base + 170_000, base + 200_000, 2 * base, 3 * base, total_out, total_out + 180_000, total_out + 400_000, 1_000_000, 1_200_000, 5 * base, 2 * base + 50_000, 4_000_000, 4_100_000, 2_050_000, 2_100_000];
    let mut offered = vec![];
    let mut offered_csl = TransactionUnspentOutputs::new();
    let mut off_desc = vec![];
    let overlap = !pre.is_empty() && s.r.below(5) == 0;
    if overlap {
        // the caller offers its whole wallet again: a UTxO that is already an input of the builder is among
        // the offered ones (it can be "selected" but brings nothing new)
        let i = pre[0];
        offered.push(i);
        offered_csl.add(&s.csl_utxo(i, None, None));
        off_desc.push(format!("#pre coin={} (already an input)", s.utxos[i].val.coin));
    }
    for j in 0..n_offered {
        let coin = *s.r.pick(&lattice);
        let mut v = Val::coin(coin.max(1_000_000));
        if with_withdrawal && j == n_offered - 1 && s.r.below(3) == 0 {
            // dust in the last place: worth less than the fee its own input costs
            v = Val::coin(*s.r.pick(&[1u64, 1_000, 5_000]));
        }
        if multi && s.r.below(2) == 0 {
            for (id, q) in &want_assets {
                if s.r.bool() {
                    v.add_asset(id.clone(), match s.r.below(3) { 0 => *q, 1 => *q / 2 + 1, _ => *q * 2 });
                }
            }
            if s.r.below(4) == 0 {
                v.add_asset((vec![0xa2; 28], vec![0x7a]), 1 + s.r.below(9) as i128);
            }
        }
        if let Some((id, q)) = &burned {
            if s.r.bool() {
                v.add_asset(id.clone(), match s.r.below(3) { 0 => *q, 1 => *q / 2 + 1, _ => *q * 2 });
            }
        }
        if let Some((id, q)) = &wanted_unminted {
            if s.r.bool() {
                v.add_asset(id.clone(), match s.r.below(3) { 0 => *q, 1 => *q / 2 + 1, _ => *q * 2 });
            }
        }
        let kx = s.key_ix();
        let mut addr = if s.r.below(8) == 0 { ring.byron[s.r.usize(ring.byron.len())].addr.to_address() } else { s.key_address(kx) };
        if dedup_mode && j == 0 {
            addr = pre_addr.clone().unwrap();
        }
        let i = s.new_utxo(&addr, v.clone());
        if dedup_mode && j == 0 {
            let o = s.outpoint(i);
            tb.add_reference_input(&Scn::tx_input(&o));
        }
        offered.push(i);
        let carried = if ref_mode && s.r.below(3) == 0 {
            let n = 200 + s.r.usize(2_000);
            let ps = PlutusScript::new_v2(s.r.bytes(n));
            s.utxos[i].ref_script_size = ps.bytes().len() as u64;
            Some(ScriptRef::new_plutus_script(&ps))
        } else {
            None
        };
        offered_csl.add(&s.csl_utxo(i, None, carried.as_ref()));
        off_desc.push(format!("#{} coin={} assets={:?}{}", j, v.coin, v.assets.values().collect::<Vec<_>>(), if carried.is_some() { format!(" script={}B", s.utxos[i].ref_script_size) } else { String::new() }));
    }
    let desc = json!({"strategy": strat(k).1, "outputs": outs_desc, "offered": off_desc, "pre_existing": pre.iter().map(|i| s.utxos[*i].val.coin).collect::<Vec<_>>(), "withdrawal": implicit, "identical_outputs": identical, "burn": burned.as_ref().map(|(_, q)| q.to_string()), "set_min_fee": asked_min_fee, "mints_two_policies": !minted.is_empty(), "ref_script_price": ref_mode, "offered_includes_existing_input": overlap, "first_offered_is_a_reference_input_dropped_when_spent": dedup_mode});
    Some(Inst { tb, utxos: s.utxos, offered, pre, offered_csl, k, desc, outputs_have_assets, implicit, minted, no_reeval: ref_mode || overlap || dedup_mode })
}

fn outpoints_of(tb: &TransactionBuilder) -> Vec<(Vec<u8>, u64)> {
    let ins = collect_inputs(tb);
    (0..ins.len()).map(|i| { let x = ins.get(i); (x.transaction_id().to_bytes(), x.index() as u64) }).collect()
}

fn sum_of(inst: &Inst, ops: &[(Vec<u8>, u64)]) -> Option<Val> {
    let mut v = Val::coin(inst.implicit);
    for (id, q) in &inst.minted {
        v.add_asset(id.clone(), *q);
    }
    for (t, i) in ops {
        v.add(&vkit::ledger::find_utxo(&inst.utxos, t, *i)?.val);
    }
    Some(v)
}

fn needed_of(tb: &TransactionBuilder) -> Option<Val> {
    // outputs (+ deposits etc.) as the builder totals them, plus its minimum fee for its current state
    let out = guard(|| tb.get_total_output()).ok()?.ok()?;
    let fee: u64 = guard(|| tb.min_fee()).ok()?.ok()?.into();
    let mut v = Val::coin(u64::from(out.coin()));
    v.coin += fee as i128;
    if let Some(ma) = out.multiasset() {
        let pols = ma.keys();
        for i in 0..pols.len() {
            let p = pols.get(i);
            let assets = ma.get(&p)?;
            let names = assets.keys();
            for j in 0..names.len() {
                let n = names.get(j);
                v.add_asset((p.to_bytes(), n.name()), u64::from(assets.get(&n)?) as i128);
            }
        }
    }
    Some(v)
}

fn covers(have: &Val, need: &Val) -> bool {
    have.coin >= need.coin && need.assets.iter().all(|(k, q)| have.assets.get(k).copied().unwrap_or(0) >= *q)
}

/// run one leaf: returns the draw log
fn run_leaf(ctx: &mut Ctx, inst: &Inst, tape: &[u64]) -> Vec<(u64, u64)> {
    ctx.eval();
    let (st, sname) = strat(inst.k);
    let mut tb = inst.tb.clone();
    let pre_ops = outpoints_of(&tb);
    let need_at_entry = needed_of(&tb);
    let have_at_entry = sum_of(inst, &pre_ops);
    rand::verif_choice::install(tape.to_vec());
    let res = guard(|| tb.add_inputs_from(&inst.offered_csl, st));
    let log = rand::verif_choice::uninstall();
    let mut hv = format!("{}|{:?}", inst.desc, log).into_bytes();
    hv.push(inst.k);
    ctx.nontrivial_bytes("c08", &hv);
    let det = || {
        let mut d = inst.desc.clone();
        d["tape"] = json!(log.iter().map(|x| vec![x.0, x.1]).collect::<Vec<_>>());
        d
    };
    let res = match res {
        Ok(r) => r,
        Err(p) => {
            ctx.panic_seen(&p);
            ctx.bucket("leaf.panic");
            return log;
        }
    };
    let offered_ops: Vec<(Vec<u8>, u64)> = inst.offered.iter().map(|i| (inst.utxos[*i].txid.clone(), inst.utxos[*i].ix)).collect();
    match res {
        Ok(()) => {
            ctx.bucket(&format!("ok.{}", sname));
            let after = outpoints_of(&tb);
            // distinct
            let set: BTreeSet<_> = after.iter().cloned().collect();
            if set.len() != after.len() {
                ctx.violation(&format!("add_inputs_from/same-input-twice/{}", sname), det());
            }
            // pre-existing untouched
            for p in &pre_ops {
                if !after.contains(p) {
                    ctx.violation(&format!("add_inputs_from/pre-existing-input-removed/{}", sname), det());
                }
            }
            let added: Vec<(Vec<u8>, u64)> = after.iter().filter(|x| !pre_ops.contains(x)).cloned().collect();
            for a in &added {
                if !offered_ops.contains(a) {
                    ctx.violation(&format!("add_inputs_from/added-input-not-among-offered/{}", sname), det());
                }
            }
            // cover outputs + min fee with what the inputs really hold
            match (sum_of(inst, &after), needed_of(&tb)) {
                (Some(have), Some(need)) => {
                    if !covers(&have, &need) {
                        let mut d = det();
                        d["inputs_hold"] = json!(have.coin.to_string());
                        d["outputs_plus_min_fee"] = json!(need.coin.to_string());
                        let cls = if have.coin < need.coin { "lovelace" } else { "asset" };
                        ctx.violation(&format!("add_inputs_from/Ok-but-inputs-do-not-cover-outputs-plus-fee/{}/{}", sname, cls), d);
                    } else {
                        ctx.bucket("leaf.covered");
                    }
                    // the builder's own figure agrees with the table
                    if let Ok(Ok(ei)) = guard(|| tb.get_explicit_input()) {
                        if u64::from(ei.coin()) as i128 != have.coin - inst.implicit as i128 {
                            let mut d = det();
                            d["get_explicit_input"] = json!(ei.coin().to_str());
                            d["table_sum"] = json!(have.coin.to_string());
                            ctx.violation(&format!("add_inputs_from/get_explicit_input-differs-from-the-inputs-held/{}", sname), d);
                        }
                    }
                }
                _ => ctx.bucket("skipped.sums-not-evaluable"),
            }
            // schedule shape
            if log.len() >= 2 {
                // an improvement swap happened when an added input is not the one drawn in phase 1 (approximation: more draws than inputs added)
                if log.len() > added.len() {
                    ctx.bucket("leaf.improvement-swap");
                }
            }
            if sname.starts_with("Random") && added.len() > 0 && log.len() > 0 && log.last().map(|x| x.0).unwrap_or(0) >= 1 {
                // top-up draws come last; detected as: inputs added > number of outputs' associated picks is not observable; use draw count
                if log.len() >= added.len() + 1 || added.len() >= 2 {
                    ctx.bucket("leaf.fee-top-up");
                }
            }
            // largest-first clause
            let lf_applicable = !inst.no_reeval && (inst.k % 4 == 0 || (inst.k % 4 == 2 && !inst.outputs_have_assets));
            if lf_applicable {
                if let (Some(have0), Some(need0)) = (&have_at_entry, &need_at_entry) {
                    if have0.coin < need0.coin {
                        ctx.bucket("lf.largest-clause-judged");
                        let mut offered_coins: Vec<i128> = inst.offered.iter().map(|i| inst.utxos[*i].val.coin).collect();
                        offered_coins.sort();
                        offered_coins.reverse();
                        let mut added_coins: Vec<i128> = added.iter().filter_map(|a| vkit::ledger::find_utxo(&inst.utxos, &a.0, a.1).map(|u| u.val.coin)).collect();
                        added_coins.sort();
                        added_coins.reverse();
                        if added_coins != offered_coins[..added_coins.len().min(offered_coins.len())] {
                            let mut d = det();
                            d["added_coins"] = json!(added_coins.iter().map(|x| x.to_string()).collect::<Vec<_>>());
                            ctx.violation(&format!("largest-first/added-set-is-not-the-largest-offered/{}", sname), d);
                        }
                        // minimality: without the member added LAST the pre-state must not cover. The order of
                        // addition is not observable among equal amounts (and members of equal amount can differ
                        // in what they cost: an owner already signing adds no witness), so every member of the
                        // smallest amount is tried as "the last one": refuted only if stopping before ANY of them
                        // would have covered
                        if let Some(smallest) = added_coins.last() {
                            let ties: Vec<&(Vec<u8>, u64)> = added.iter().filter(|a| vkit::ledger::find_utxo(&inst.utxos, &a.0, a.1).map(|u| u.val.coin) == Some(*smallest)).collect();
                            let mut all_cover = !ties.is_empty();
                            let mut judged = false;
                            for last in &ties {
                                let mut tb2 = inst.tb.clone();
                                let mut ok = true;
                                for a in &added {
                                    if a == *last {
                                        continue;
                                    }
                                    let idx = inst.utxos.iter().position(|x| x.txid == a.0 && x.ix == a.1).unwrap();
                                    let pos = inst.offered.iter().position(|o| *o == idx).unwrap();
                                    let cu = inst.offered_csl.get(pos);
                                    #[allow(deprecated)]
                                    if guard(|| tb2.add_regular_input(&cu.output().address(), &cu.input(), &cu.output().amount())).map(|r| r.is_err()).unwrap_or(true) {
                                        ok = false;
                                    }
                                }
                                let after2 = outpoints_of(&tb2);
                                match (ok, sum_of(inst, &after2), needed_of(&tb2)) {
                                    // with no inputs at all the code's "at least one input" branch applies: not judged
                                    (true, Some(h2), Some(n2)) if !after2.is_empty() => {
                                        judged = true;
                                        if h2.coin < n2.coin {
                                            all_cover = false;
                                        }
                                    }
                                    _ => all_cover = false,
                                }
                            }
                            if judged {
                                if all_cover {
                                    let mut d = det();
                                    d["added_coins"] = json!(added_coins.iter().map(|x| x.to_string()).collect::<Vec<_>>());
                                    ctx.violation(&format!("largest-first/did-not-stop-when-covered/{}", sname), d);
                                } else {
                                    ctx.bucket("lf.minimal");
                                }
                            }
                        }
                    }
                }
            }
        }
        Err(e) => {
            let msg = format!("{:?}", e);
            ctx.bucket(&format!("err.{}", sname));
            // (an arithmetic error such as "underflow" out of the fee bookkeeping is no better than a false
            // insufficiency report)
            let arithmetic = msg.contains("underflow") || msg.contains("overflow");
            if arithmetic {
                ctx.bucket(&format!("err.arithmetic.{}", sname));
            }
            if (msg.contains("UTxO Balance Insufficient") && !inst.no_reeval) || arithmetic {
                // refuted if the pre-state with ALL offered UTxOs covers outputs + fee
                let mut tb2 = inst.tb.clone();
                let mut ok = true;
                for pos in 0..inst.offered.len() {
                    let cu = inst.offered_csl.get(pos);
                    #[allow(deprecated)]
                    if guard(|| tb2.add_regular_input(&cu.output().address(), &cu.input(), &cu.output().amount())).map(|r| r.is_err()).unwrap_or(true) {
                        ok = false;
                    }
                }
                if ok {
                    let all = outpoints_of(&tb2);
                    if let (Some(h), Some(n)) = (sum_of(inst, &all), needed_of(&tb2)) {
                        ctx.bucket("err.insufficient-judged");
                        if covers(&h, &n) {
                            let lf = inst.k % 2 == 0;
                            if lf {
                                let mut d = det();
                                d["all_offered_hold"] = json!(h.coin.to_string());
                                d["outputs_plus_min_fee_with_all"] = json!(n.coin.to_string());
                                d["error"] = json!(msg);
                                ctx.violation(&format!("{}-although-all-offered-utxos-suffice/{}", if arithmetic { "arithmetic-error-reported" } else { "insufficiency-reported" }, sname), d);
                            } else {
                                // the statement demands this of largest-first only; random strategies may fail on an unlucky draw
                                ctx.bucket("info.random-strategy-insufficient-although-all-suffice");
                            }
                        }
                    }
                }
            }
        }
    }
    log
}

/// depth-first enumeration of all tapes; returns leaves executed
fn enumerate(ctx: &mut Ctx, inst: &Inst, cap: usize) -> (usize, bool) {
    let mut tape: Vec<u64> = vec![];
    let mut leaves = 0usize;
    loop {
        let log = run_leaf(ctx, inst, &tape);
        leaves += 1;
        if leaves >= cap {
            return (leaves, false);
        }
        let mut path: Vec<u64> = log.iter().map(|x| x.1).collect();
        let ranges: Vec<u64> = log.iter().map(|x| x.0).collect();
        let mut i = path.len();
        loop {
            if i == 0 {
                return (leaves, true);
            }
            i -= 1;
            if path[i] + 1 < ranges[i] {
                path[i] += 1;
                path.truncate(i + 1);
                break;
            }
        }
        tape = path;
    }
}

fn trees_small(ctx: &mut Ctx, r: &mut Rng, i: u64) {
    let ring = ring(ctx);
    let _ = i;
    let k = r.below(4) as u8;
    let n = 1 + r.usize(if ctx.quick() { 5 } else { 6 });
    let inst = match make_instance(r, ring, n, k) {
        Some(x) => x,
        None => return,
    };
    let (leaves, complete) = enumerate(ctx, &inst, 4000);
    if complete {
        ctx.bucket("trees.completed");
        if k % 2 == 1 {
            ctx.bucket("trees.completed-random-strategy");
            ctx.bucket_n("trees.leaves-in-completed-random-trees", leaves as u64);
        }
    } else {
        ctx.bucket("trees.capped");
    }
    ctx.sample(strat(k).1, || {
        let mut d = inst.desc.clone();
        d["leaves_executed"] = json!(leaves);
        d["tree_complete"] = json!(complete);
        d
    });
}

/// selections tuned to the boundary: an instance is run once (not judged) to learn which inputs a tape
/// selects and with how much slack; one selected UTxO is then made `slack + d` lovelace poorer
/// (d = 1..300), so that the same selection would end d lovelace short, and the tape is run again: the
/// strategy must select more or fail. A fee increment that is a few lovelace short shows only here.
fn tuned(ctx: &mut Ctx, r: &mut Rng, _i: u64) {
    let ring = ring(ctx);
    let k = r.below(4) as u8;
    let n = 2 + r.usize(7);
    let inst = match make_instance(r, ring, n, k) {
        Some(x) => x,
        None => return,
    };
    let tape: Vec<u64> = (0..64).map(|_| r.u64()).collect();
    // first run, silent
    let mut tb = inst.tb.clone();
    let pre_ops = outpoints_of(&tb);
    rand::verif_choice::install(tape.clone());
    let res = guard(|| tb.add_inputs_from(&inst.offered_csl, strat(inst.k).0));
    let _ = rand::verif_choice::uninstall();
    if !matches!(res, Ok(Ok(()))) {
        ctx.bucket("tuned.first-run-not-ok");
        return;
    }
    let after = outpoints_of(&tb);
    let (have, need) = match (sum_of(&inst, &after), needed_of(&tb)) {
        (Some(h), Some(n)) => (h, n),
        _ => return,
    };
    let slack = have.coin - need.coin;
    if slack < 0 {
        return; // judged by the other streams
    }
    let added: Vec<(Vec<u8>, u64)> = after.iter().filter(|x| !pre_ops.contains(x)).cloned().collect();
    if added.is_empty() {
        return;
    }
    let d = 1 + r.below(300) as i128;
    let victim = &added[r.usize(added.len())];
    let vi = match inst.utxos.iter().position(|u| u.txid == victim.0 && u.ix == victim.1) {
        Some(i) => i,
        None => return,
    };
    if inst.utxos[vi].val.coin <= slack + d + 1_000_000 {
        ctx.bucket("tuned.victim-too-small");
        return;
    }
    let mut utxos = inst.utxos.clone();
    utxos[vi].val.coin -= slack + d;
    let mut offered_csl = TransactionUnspentOutputs::new();
    for oi in &inst.offered {
        let u = &utxos[*oi];
        let input = TransactionInput::new(&TransactionHash::from_bytes(u.txid.clone()).unwrap(), u.ix as u32);
        let out = TransactionOutput::new(&Address::from_bytes(u.addr.clone()).unwrap(), &val_to_csl(&u.val));
        offered_csl.add(&TransactionUnspentOutput::new(&input, &out));
    }
    let mut desc = inst.desc.clone();
    desc["tuned"] = json!(format!("offered UTxO {}#{} made {} lovelace poorer (slack {} + {})", hx(&victim.0[..4]), victim.1, slack + d, slack, d));
    desc["offered"] = json!(inst.offered.iter().enumerate().map(|(j, oi)| format!("#{} coin={} assets={:?}", j, utxos[*oi].val.coin, utxos[*oi].val.assets.values().collect::<Vec<_>>())).collect::<Vec<_>>());
    let inst2 = Inst { tb: inst.tb.clone(), utxos, offered: inst.offered.clone(), pre: inst.pre.clone(), offered_csl, k: inst.k, desc, outputs_have_assets: inst.outputs_have_assets, implicit: inst.implicit, minted: inst.minted.clone(), no_reeval: inst.no_reeval };
    ctx.bucket("tuned.second-run");
    run_leaf(ctx, &inst2, &tape);
}

fn tapes_large(ctx: &mut Ctx, r: &mut Rng, i: u64) {
    let ring = ring(ctx);
    let _ = i;
    let k = r.below(4) as u8;
    let n = 7 + r.usize(24);
    let inst = match make_instance(r, ring, n, k) {
        Some(x) => x,
        None => return,
    };
    let reps = if k % 2 == 1 { 6 } else { 1 };
    for _ in 0..reps {
        let tape: Vec<u64> = (0..64).map(|_| r.u64()).collect();
        run_leaf(ctx, &inst, &tape);
    }
    ctx.bucket("large.instances");
}
