//! C18 — witness requirements are complete, unique, and sized exactly.
use super::bld::*;
use super::c05::{binit, ASSUMPTIONS};
use crate::fw::*;
use crate::scen::Focus;
use cardano_serialization_lib as csl;
use csl::*;
use serde_json::json;
use vkit::rng::Rng;

pub fn def() -> PropDef {
    PropDef {
        id: "C18",
        rule: "cases are seed-derived builder histories (scenario engine: parameters, key ring, UTxO table, operation list over the public TransactionBuilder API, balancing call, build_tx); judged: every history in which balancing and build_tx reported success; non-trivial = a transaction was built; distinct by hash of the built transaction bytes; scripts needed are derived from the emitted body by the ledger model and matched against the witness set / declared reference inputs; full_size() is compared with the size of the transaction signed by exactly the distinct required keys",
        assumptions: ASSUMPTIONS,
        streams,
        floors: &[("outcome.built", 3_000), ("c18.size-within-one-witness", 2_000), ("c18.script-available-once.spend.witness", 100), ("c18.script-available-once.mint.witness", 100), ("c18.script-available-once.spend.reference", 30), ("c18.plutus-use-has-redeemer", 300)],
        init: Some(binit),
    }
}

fn streams() -> Vec<Stream> {
    vec![
        Stream { name: "scenarios", count: (25_000, 1_000_000), exhaustive: false, run: |c, r, _| scenario(c, r, Focus::default(), c18_monitor) },
        Stream { name: "scenarios-overlap", count: (25_000, 800_000), exhaustive: false, run: ov },
        Stream { name: "many-signers", count: (330, 6_000), exhaustive: false, run: many_signers },
    ]
}
fn ov(c: &mut Ctx, r: &mut Rng, _i: u64) {
    let f = Focus { overlap: 13, scripts: 8, plutus: 7, certs: 10, withdrawals: 9, votes: 7, byron: 6, refs: 7, ..Focus::default() };
    scenario(c, r, f, c18_monitor)
}

/// The number of key witnesses at the CBOR width boundaries of a COUNT (23/24, 255/256) and beyond: n key inputs
/// of n distinct keys, one output, change; `full_size()` against the length of the transaction carrying exactly n
/// key witnesses (the length of a witness does not depend on its content)
fn many_signers(ctx: &mut Ctx, r: &mut Rng, i: u64) {
    const NS: [u64; 11] = [22, 23, 24, 25, 26, 254, 255, 256, 257, 258, 300];
    let n = NS[(i % NS.len() as u64) as usize];
    ctx.eval();
    let cfg = match guard(|| {
        TransactionBuilderConfigBuilder::new()
            .fee_algo(&LinearFee::new(&BigNum::from(44u64), &BigNum::from(155_381u64)))
            .pool_deposit(&BigNum::from(500_000_000u64))
            .key_deposit(&BigNum::from(2_000_000u64))
            .max_value_size(5000)
            .max_tx_size(200_000)
            .coins_per_utxo_byte(&BigNum::from(4310u64))
            .build()
    }) {
        Ok(Ok(c)) => c,
        _ => return,
    };
    let seed = r.u64();
    let kh = |j: u64| -> Vec<u8> {
        let mut b = vec![0u8; 28];
        b[..8].copy_from_slice(&vkit::rng::fnv64(&(seed ^ j.wrapping_mul(0x9e37_79b9)).to_le_bytes()).to_be_bytes());
        b[8..16].copy_from_slice(&j.to_be_bytes());
        b
    };
    let res = guard(|| -> Result<(usize, Vec<u8>), String> {
        let mut tb = TransactionBuilder::new(&cfg);
        for j in 0..n {
            let mut id = vec![0u8; 32];
            id[..8].copy_from_slice(&(seed.wrapping_add(j)).to_be_bytes());
            let input = TransactionInput::new(&TransactionHash::from_bytes(id).map_err(|e| format!("{:?}", e))?, (j % 7) as u32);
            let h = Ed25519KeyHash::from_bytes(kh(j)).map_err(|e| format!("{:?}", e))?;
            tb.add_key_input(&h, &input, &Value::new(&BigNum::from(2_000_000u64 + j)));
        }
        let pay = EnterpriseAddress::new(1, &Credential::from_keyhash(&Ed25519KeyHash::from_bytes(kh(100_000)).map_err(|e| format!("{:?}", e))?)).to_address();
        // the number of OUTPUTS crosses the same boundaries now and then (they all fit: every input brings 2 ADA)
        let n_out = if n < 100 { [1u64, 1, 23, 24, 25][((i / NS.len() as u64) % 5) as usize] } else { [1u64, 1, 24, 255, 256, 257][((i / NS.len() as u64) % 6) as usize] };
        for k in 0..n_out {
            tb.add_output(&TransactionOutput::new(&pay, &Value::new(&BigNum::from(1_500_000u64 + k)))).map_err(|e| format!("{:?}", e))?;
        }
        let chg = EnterpriseAddress::new(1, &Credential::from_keyhash(&Ed25519KeyHash::from_bytes(kh(100_001)).map_err(|e| format!("{:?}", e))?)).to_address();
        tb.add_change_if_needed(&chg).map_err(|e| format!("{:?}", e))?;
        let predicted = tb.full_size().map_err(|e| format!("{:?}", e))?;
        let tx = tb.build_tx().map_err(|e| format!("{:?}", e))?;
        let mut ws = tx.witness_set();
        let mut vks = Vkeywitnesses::new();
        for j in 0..n {
            let mut pk = vec![0u8; 32];
            pk[..8].copy_from_slice(&j.to_be_bytes());
            pk[8] = 0x5a;
            let vkey = Vkey::new(&PublicKey::from_bytes(&pk).map_err(|e| format!("{:?}", e))?);
            let sig = Ed25519Signature::from_bytes(vec![(j % 251) as u8; 64]).map_err(|e| format!("{:?}", e))?;
            vks.add(&Vkeywitness::new(&vkey, &sig));
        }
        if vks.len() as u64 != n {
            return Err("own witness set lost a witness".into());
        }
        ws.set_vkeys(&vks);
        let signed = Transaction::new(&tx.body(), &ws, tx.auxiliary_data());
        Ok((predicted, signed.to_bytes()))
    });
    let (predicted, signed) = match res {
        Ok(Ok(x)) => x,
        Ok(Err(e)) => {
            ctx.bucket("many-signers.not-built");
            ctx.sample("many-signers.not-built", || json!({"n": n, "error": e}));
            return;
        }
        Err(p) => {
            ctx.panic_seen(&p);
            return;
        }
    };
    let len = match vkit::cbor::parse(&signed) {
        Ok(it) => it.end - it.start,
        Err(_) => {
            ctx.violation("many-signers/signed-transaction-not-well-formed", json!({"n": n}));
            return;
        }
    };
    ctx.nontrivial_bytes("many", &signed[..signed.len().min(4096)]);
    ctx.bucket(&format!("many-signers.n-{}", n));
    let det = || json!({"signers": n, "full_size": predicted, "signed_length": len, "seed": seed.to_string()});
    if predicted < len {
        ctx.violation("full_size/smaller-than-signed-transaction/many-signers", det());
    } else if predicted - len >= 100 {
        ctx.violation("full_size/exceeds-signed-transaction-by-a-witness-or-more/many-signers", det());
    } else {
        ctx.bucket("c18.many-signers.size-ok");
    }
}
