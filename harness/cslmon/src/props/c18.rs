//! C18 — witness requirements are complete, unique, and sized exactly.
use super::bld::*;
use super::c05::{binit, ASSUMPTIONS};
use crate::fw::*;
use crate::scen::Focus;
use vkit::rng::Rng;

pub fn def() -> PropDef {
    PropDef {
        id: "C18",
        rule: "cases are seed-derived builder histories (scenario engine: parameters, key ring, UTxO table, operation list over the public TransactionBuilder API, balancing call, build_tx); judged: every history in which balancing and build_tx reported success; non-trivial = a transaction was built; distinct by hash of the built transaction bytes; scripts needed are derived from the emitted body by the ledger model and matched against the witness set / declared reference inputs; full_size() is compared with the size of the transaction signed by exactly the distinct required keys",
        assumptions: ASSUMPTIONS,
        streams,
        floors: &[("outcome.built", 3_000), ("c18.size-within-one-witness", 2_000), ("c18.script-available-once.spend.witness", 100), ("c18.script-available-once.mint.witness", 100), ("c18.script-available-once.spend.reference", 30), ("c18.plutus-use-has-redeemer", 300)],
        init: Some(binit),
    }
}

fn streams() -> Vec<Stream> {
    vec![
        Stream { name: "scenarios", count: (25_000, 1_000_000), exhaustive: false, run: |c, r, _| scenario(c, r, Focus::default(), c18_monitor) },
        Stream { name: "scenarios-overlap", count: (25_000, 800_000), exhaustive: false, run: ov },
    ]
}
fn ov(c: &mut Ctx, r: &mut Rng, _i: u64) {
    let f = Focus { overlap: 13, scripts: 8, plutus: 7, certs: 10, withdrawals: 9, votes: 7, byron: 6, refs: 7, ..Focus::default() };
    scenario(c, r, f, c18_monitor)
}
