//! Monitors over builder scenario outcomes (shared by C03, C05, C06, C07, C09, C10, C16, C18, C19).
//! Every monitor judges the transaction bytes as emitted, re-read by the independent CBOR reader,
//! against the scenario's UTxO table with the ledger model of vkit::ledger.

use crate::fw::*;
use crate::scen::*;
use cardano_serialization_lib as csl;
use csl::*;
use serde_json::json;
use std::collections::{BTreeMap, BTreeSet};
use vkit::cbor;
use vkit::ledger::{self, Tx};
use vkit::rng::Rng;

/// the key ring is derived once per process (shard)
static RING: std::sync::OnceLock<KeyRing> = std::sync::OnceLock::new();

pub fn init(_ctx: &mut Ctx) {
    let _ = ring_static();
}

pub fn ring(_ctx: &Ctx) -> &'static KeyRing {
    ring_static()
}

pub fn detail(o: &Outcome) -> serde_json::Value {
    json!({
        "log": o.log,
        "tx": o.tx_bytes.as_ref().map(|b| hx(b)),
        "params": format!("{:?}", o.params),
        "utxos": o.utxos.iter().map(|u| format!("{}#{} addr={} coin={} assets={} refsize={}", hx(&u.txid[..6]), u.ix, hx(&u.addr[..u.addr.len().min(8)]), u.val.coin, u.val.assets.len(), u.ref_script_size)).collect::<Vec<_>>(),
    })
}

/// run one scenario under `focus` and hand a successfully built transaction to `monitor`
pub fn scenario(ctx: &mut Ctx, r: &mut Rng, focus: Focus, monitor: fn(&mut Ctx, &Outcome, &Tx, &KeyRing)) {
    scenario_ex(ctx, r, focus, monitor, None)
}

/// as `scenario`; `on_balance_err` also sees the histories whose balancing call failed (no transaction)
pub fn scenario_ex(ctx: &mut Ctx, r: &mut Rng, focus: Focus, monitor: fn(&mut Ctx, &Outcome, &Tx, &KeyRing), on_balance_err: Option<fn(&mut Ctx, &Outcome)>) {
    let ring = ring(ctx);
    let o = match run_scenario(r, ring, focus) {
        Some(o) => o,
        None => return,
    };
    ctx.eval();
    for p in &o.panics {
        ctx.panic_seen(p);
    }
    match (&o.balance_result, &o.build_result) {
        (Err(_), _) => ctx.bucket("outcome.balance-err"),
        (Ok(_), Err(_)) => ctx.bucket("outcome.build-err"),
        (Ok(_), Ok(_)) => ctx.bucket("outcome.built"),
    }
    ctx.bucket(&format!("balance.{}.{}", balance_name(&o.balance), if o.balance_result.is_ok() { "ok" } else { "err" }));
    // balancing reported success and set a fee of its own choice, and the library's own strict build then finds
    // that fee below its minimum: the fee the builder set is insufficient (build(), which does not check,
    // hands the same body out). A fee the caller fixed is the caller's; the build failing is the stated outcome.
    // balancing reported success and the library's own strict build then finds inputs and outputs unequal: one of
    // the two is wrong about the same builder state
    if let (Ok(_), Err(e)) = (&o.balance_result, &o.build_result) {
        if e.contains("Total input and total output are not equal") {
            ctx.bucket("outcome.build-err.not-balanced-after-balancing");
            if ctx.prop == "C05" {
                ctx.violation("balancing-ok/build_tx-finds-inputs-and-outputs-unequal", json!({"history": o.log, "error": e.chars().take(600).collect::<String>()}));
            }
        }
    }
    if let (Ok(_), Err(e)) = (&o.balance_result, &o.build_result) {
        if e.contains("Fee is less than the minimum fee") {
            ctx.bucket("outcome.build-err.fee-below-own-minimum");
            // (a script data hash first computed after balancing adds a body entry the fee was not computed
            // with: the documented order of calls is the other way round, and the build failing is what the
            // caller is told)
            let bal = o.log.iter().position(|l| l.starts_with("balance ")).unwrap_or(0);
            let hash_after = o.log[bal..].iter().any(|l| l.starts_with("calc_script_data_hash"));
            if hash_after {
                ctx.bucket("outcome.build-err.fee-below-own-minimum.hash-after-balancing");
            } else if ctx.prop == "C06" && !o.fee_fixed_at_balancing {
                let nums: Vec<u64> = e.split(|c: char| !c.is_ascii_digit()).filter(|t| !t.is_empty()).filter_map(|t| t.parse().ok()).collect();
                let short = if nums.len() >= 2 { nums[0].saturating_sub(nums[1]) } else { 0 };
                let bytes = if o.params.fee_a > 0 { short / o.params.fee_a } else { 0 };
                ctx.violation(
                    &format!("fee/build_tx-refuses-the-fee-balancing-set/{}", balance_name(&o.balance)),
                    json!({"history": o.log, "error": e, "fee_mode": format!("{:?}", o.fee_mode), "short_by_bytes": bytes, "fee_a": o.params.fee_a, "coins_per_byte": o.params.coins_per_byte}),
                );
            }
        }
    }
    if o.tuned {
        ctx.bucket(&format!("tuned.applied.{}", match (&o.balance_result, &o.build_result) { (Err(_), _) => "balance-err", (Ok(_), Err(_)) => "build-err", _ => "built" }));
    }
    if let (Err(_), Some(f)) = (&o.balance_result, on_balance_err) {
        f(ctx, &o);
    }
    if let Some(bytes) = &o.tx_bytes {
        match Tx::parse(bytes) {
            Ok(tx) => {
                ctx.nontrivial_bytes("tx", bytes);
                coverage(ctx, &o, &tx);
                monitor(ctx, &o, &tx, ring);
                ctx.sample(balance_name(&o.balance), || json!({"history": o.log, "tx": hx(bytes)}));
            }
            Err(e) => ctx.violation("built-tx/not-well-formed-cbor", json!({"error": e.0, "tx": hx(bytes), "log": o.log})),
        }
    }
}

/// scenarios tuned to the change edge: a history is run once (not judged) to see how much change it
/// returns; the first key input is then made poorer so that the leftover lands around one of the
/// thresholds of the change logic - nothing left, a few lovelace left, just below / at / just above the
/// minimum ADA of the change output, just across a CBOR width boundary of fee or change - and the
/// history is run again on the same random stream and judged
pub fn scenario_tuned(ctx: &mut Ctx, r: &mut Rng, focus: Focus, monitor: fn(&mut Ctx, &Outcome, &Tx, &KeyRing)) {
    let ringr = ring(ctx);
    let mut r1 = r.clone();
    let first = match run_scenario(&mut r1, ringr, focus.clone()) {
        Some(o) => o,
        None => return,
    };
    let bytes = match &first.tx_bytes {
        Some(b) => b.clone(),
        None => {
            ctx.bucket("tuned.first-run-built-nothing");
            return scenario(ctx, r, focus, monitor);
        }
    };
    let tx = match Tx::parse(&bytes) {
        Ok(t) => t,
        Err(_) => return,
    };
    // change returned by the first run (lovelace, over all outputs to the change address)
    let change: Vec<&cbor::Item> = tx.outputs().unwrap_or_default().into_iter().filter(|x| ledger::output_address(x).as_deref() == Some(&first.change_addr[..])).collect();
    let change_coin: i128 = change.iter().filter_map(|c| ledger::output_value(c).ok()).map(|v| v.coin).sum();
    if change.is_empty() || change_coin <= 0 {
        ctx.bucket("tuned.first-run-without-change");
        return scenario(ctx, r, focus, monitor);
    }
    // the minimum of a change output like the last one
    let cpb = first.params.coins_per_byte as i128;
    let last_len = change.last().map(|c| (c.end - c.start) as i128).unwrap_or(60);
    let min_change = cpb * (160 + last_len);
    let j = r1.below(300) as i128;
    let (target, what) = match r1.below(9) {
        0 => (0, "nothing-left"),
        1 => (1 + j, "a-few-lovelace-left"),
        2 => (min_change - 1 - j, "just-below-min-ada"),
        3 => (min_change, "exactly-min-ada"),
        4 => (min_change + 1 + j, "just-above-min-ada"),
        5 => (65_536 + j - 150, "around-2^16"),
        6 => ((1i128 << 32) + j - 150, "around-2^32"),
        7 => (min_change - 5_000 - j * 20, "below-min-ada-by-a-fee"),
        _ => (min_change * 2 + j - 150, "around-twice-min-ada"),
    };
    let delta = change_coin - target.max(0);
    if delta <= 0 {
        ctx.bucket("tuned.target-above-change");
        return scenario(ctx, r, focus, monitor);
    }
    ctx.bucket(&format!("tuned.second-run.{}", what));
    let f2 = Focus { tune_first_key_input: Some(delta), ..focus };
    scenario(ctx, r, f2, monitor)
}

pub fn balance_name(b: &Balance) -> &'static str {
    match b {
        Balance::AddChange => "add_change_if_needed",
        Balance::AddChangeWithDatum => "add_change_if_needed_with_datum",
        Balance::InputsFromThenChange(_) => "add_inputs_from+add_change_if_needed",
        Balance::InputsFromAndChange(_) => "add_inputs_from_and_change",
        Balance::InputsFromAndChangeWithCollateralReturn(_, _) => "add_inputs_from_and_change_with_collateral_return",
    }
}

/// coverage buckets measured from the emitted transaction
pub fn coverage(ctx: &mut Ctx, o: &Outcome, tx: &Tx) {
    let outs = tx.outputs().map(|x| x.len()).unwrap_or(0);
    let change: Vec<&cbor::Item> = tx.outputs().unwrap_or_default().into_iter().filter(|x| ledger::output_address(x).as_deref() == Some(&o.change_addr[..])).collect();
    let with_assets = change.iter().filter(|c| ledger::output_value(c).map(|v| !v.assets.is_empty()).unwrap_or(false)).count();
    let layout = match (change.len(), with_assets) {
        (0, _) => "none",
        (1, 0) => "single-ada",
        (1, _) => "single-with-assets",
        (_, 0) => "multi-ada",
        (_, 1) => "multi-one-asset-output",
        _ => "multi-asset-outputs",
    };
    ctx.bucket(&format!("change.{}", layout));
    let _ = outs;
    if let Ok(m) = tx.mint() {
        if m.assets.values().any(|q| *q > 0) {
            ctx.bucket("feature.mint");
        }
        if m.assets.values().any(|q| *q < 0) {
            ctx.bucket("feature.burn");
        }
    }
    if !tx.withdrawals().is_empty() {
        ctx.bucket("feature.withdrawals");
    }
    for c in tx.certs() {
        if let Some(t) = c.as_arr().and_then(|a| a.first()).and_then(|x| x.as_u64()) {
            ctx.bucket(&format!("feature.cert-{}", t));
        }
    }
    if !tx.proposals().is_empty() {
        ctx.bucket("feature.proposals");
    }
    if !tx.voters().is_empty() {
        ctx.bucket("feature.votes");
    }
    if tx.field(22).is_some() {
        ctx.bucket("feature.donation");
    }
    if tx.field(13).is_some() {
        ctx.bucket("feature.collateral");
    }
    if tx.field(16).is_some() || tx.field(17).is_some() {
        ctx.bucket("feature.collateral-return-or-total");
    }
    if tx.field(18).is_some() {
        ctx.bucket("feature.reference-inputs");
    }
    if tx.wfield(5).is_some() {
        ctx.bucket("feature.redeemers");
    }
    if let Ok(ins) = tx.inputs() {
        if ins.iter().any(|i| o.utxos.iter().any(|u| u.txid == i.0 && u.ix == i.1 && u.ref_script_size > 0)) {
            ctx.bucket("feature.spent-input-carries-script");
            if o.params.ref_script_price.is_some() {
                ctx.bucket("feature.spent-input-carries-script.with-ref-script-price");
            }
        }
    }
    if tx.wfield(1).is_some() {
        ctx.bucket("feature.native-scripts");
    }
    if !tx.aux().is_null() {
        ctx.bucket("feature.aux-data");
    }
    // entry points the history went through (from the recorded calls that answered Ok)
    for (needle, name) in [
        ("tb.add_mint_asset n", "op.tb.add_mint_asset"),
        ("tb.set_mint_asset n", "op.tb.set_mint_asset"),
        ("tb.add_mint_asset_and_output n", "op.tb.add_mint_asset_and_output"),
        ("tb.add_mint_asset_and_output_min_required_coin n", "op.tb.add_mint_asset_and_output_min_required_coin"),
        ("tb.set_mint n", "op.tb.set_mint"),
    ] {
        if o.log.iter().any(|l| l.starts_with(needle) && l.ends_with("-> Ok")) {
            ctx.bucket(name);
        }
    }
    if o.log.iter().any(|l| l == "metadata helpers used") {
        ctx.bucket("op.metadata-helpers");
    }
    match o.fee_mode {
        FeeMode::Unspecified => ctx.bucket("fee.unspecified"),
        FeeMode::MinFee(_) => ctx.bucket("fee.set_min_fee"),
        FeeMode::Exact(_) => ctx.bucket("fee.set_fee"),
    }
    if let Ok(f) = tx.fee() {
        ctx.bucket(&format!("fee.width-{}", cbor::min_width(f)));
    }
}

// ------------------------------------------------------------------------------------------------ C05

pub fn c05_monitor(ctx: &mut Ctx, o: &Outcome, tx: &Tx, _ring: &KeyRing) {
    match ledger::consumed_produced(tx, &o.utxos, &o.params) {
        Ok((c, p)) => {
            let (c, p) = (c.normalized(), p.normalized());
            if c != p {
                let cls = match (c.coin != p.coin, c.assets != p.assets) {
                    (true, false) => "lovelace",
                    (false, true) => "asset",
                    _ => "lovelace-and-asset",
                };
                let mut d = detail(o);
                d["consumed_vs_produced"] = json!(c.describe_diff(&p));
                ctx.violation(&format!("built-tx/consumed!=produced/{}", cls), d);
            } else {
                ctx.bucket("c05.balanced");
            }
        }
        Err(e) => {
            ctx.bucket("skipped.ledger-model-could-not-evaluate");
            ctx.extra.insert("last_ledger_error".into(), json!(e.0));
        }
    }
}

// ------------------------------------------------------------------------------------------------ signing helper

pub struct Signed {
    pub tx: Transaction,
    pub bytes: Vec<u8>,
    pub keys: BTreeSet<Vec<u8>>,
    pub byron: BTreeSet<Vec<u8>>,
}

/// sign with exactly the distinct keys that must sign (ledger needs + native-script signers)
pub fn really_sign(ctx: &mut Ctx, o: &Outcome, tx: &Tx, ring: &KeyRing) -> Option<Signed> {
    let need = match ledger::needed(tx, &o.utxos, &o.params) {
        Ok(n) => n,
        Err(e) => {
            ctx.bucket("skipped.needed-could-not-evaluate");
            ctx.extra.insert("last_ledger_error".into(), json!(e.0));
            return None;
        }
    };
    let built = o.build_result.as_ref().ok()?;
    let mut keys = need.keys.clone();
    for k in native_script_signers(built, o, ring) {
        keys.insert(k);
    }
    for k in &o.extra_signers {
        keys.insert(k.clone());
    }
    let real = ctx.evals % 16 == 0;
    match guard(|| sign_tx(built, &keys, &need.byron, ring, real)) {
        Ok(Ok(stx)) => {
            let bytes = match guard(|| stx.to_bytes()) {
                Ok(b) => b,
                Err(p) => {
                    ctx.panic_seen(&p);
                    return None;
                }
            };
            if real {
                ctx.bucket("signed.genuine-signatures");
                // verify every vkey witness with cryptoxide directly over the body hash
                let body_hash = vkit::codec::blake2b256(&built.body().to_bytes());
                if let Some(vks) = stx.witness_set().vkeys() {
                    for i in 0..vks.len() {
                        let w = vks.get(i);
                        let pk = w.vkey().public_key().as_bytes();
                        let sig = w.signature().to_bytes();
                        let mut pk32 = [0u8; 32];
                        pk32.copy_from_slice(&pk);
                        let mut sig64 = [0u8; 64];
                        sig64.copy_from_slice(&sig);
                        if !cryptoxide::ed25519::verify(&body_hash, &pk32, &sig64) {
                            ctx.violation("signing/vkey-witness-does-not-verify-over-body-hash", detail(o));
                        }
                    }
                }
            }
            ctx.bucket(&format!("signed.vkeys-{}", keys.len().min(9)));
            if !need.byron.is_empty() {
                ctx.bucket("signed.with-bootstrap");
            }
            Some(Signed { tx: stx, bytes, keys, byron: need.byron })
        }
        Ok(Err(e)) => {
            ctx.bucket("skipped.cannot-sign");
            ctx.extra.insert("last_sign_error".into(), json!(e));
            None
        }
        Err(p) => {
            ctx.panic_seen(&p);
            None
        }
    }
}

/// cause class of a fee / size shortfall, computed from the observation
pub fn shortfall_class(o: &Outcome, tx: &Tx, signed: &Signed, ring: &KeyRing) -> &'static str {
    let byron_collateral = tx.collateral().map(|c| c.iter().any(|(t, i)| ledger::find_utxo(&o.utxos, t, *i).map(|u| ledger::payment_cred(&u.addr) == ledger::PayCred::Byron).unwrap_or(false))).unwrap_or(false);
    if byron_collateral {
        return "byron-collateral";
    }
    // a minting policy whose native script is supplied through a declared reference input
    let pols: Vec<Vec<u8>> = tx.field(9).and_then(|m| m.as_map()).map(|m| m.iter().filter_map(|(k, _)| k.as_bytes().map(|b| b.to_vec())).collect()).unwrap_or_default();
    let mint_ref_native = pols.iter().any(|p| o.declared_refs.iter().any(|(h, _)| h == p) && ring.natives.iter().any(|n| n.hash().to_bytes() == *p));
    if mint_ref_native {
        return "mint-native-script-via-reference-input";
    }
    if !signed.byron.is_empty() {
        "with-bootstrap-witness"
    } else if tx.wfield(5).is_some() {
        "with-plutus"
    } else if tx.wfield(1).is_some() {
        "with-native-script"
    } else {
        "vkey-only"
    }
}

// ------------------------------------------------------------------------------------------------ C06

pub fn c06_monitor(ctx: &mut Ctx, o: &Outcome, tx: &Tx, ring: &KeyRing) {
    let fee = match tx.fee() {
        Ok(f) => f,
        Err(_) => return,
    };
    match o.fee_mode {
        FeeMode::MinFee(m) => {
            if fee < m {
                ctx.violation("fee/below-requested-minimum", detail(o));
            } else if fee == m {
                ctx.bucket("c06.min-fee-binding");
            }
        }
        FeeMode::Exact(m) => {
            if fee != m {
                ctx.violation("fee/differs-from-fixed-fee", detail(o));
            } else {
                ctx.bucket("c06.exact-fee-used");
            }
        }
        _ => {}
    }
    let signed = match really_sign(ctx, o, tx, ring) {
        Some(s) => s,
        None => return,
    };
    let stx = match Tx::parse(&signed.bytes) {
        Ok(t) => t,
        Err(e) => {
            ctx.violation("signed-tx/not-well-formed-cbor", json!({"error": e.0, "tx": hx(&signed.bytes)}));
            return;
        }
    };
    let ref_bytes = ledger::total_ref_script_bytes(&stx, &o.utxos).unwrap_or(0);
    let min = ledger::min_fee(&stx, &o.params, ref_bytes);
    if ctx.replay_mode {
        let (m, st) = stx.ex_units();
        eprintln!("DEBUG signed_len={} built_len={} ref_bytes={} exunits=({}, {}) fee={} min={} builder.min_fee={:?} full_size={:?}", signed.bytes.len(), tx.bytes.len(), ref_bytes, m, st, fee, min, o.builder.min_fee().map(|x| x.to_str()), o.builder.full_size());
        let p0 = ledger::Params { ex_prices: None, ref_script_price: None, ..o.params.clone() };
        eprintln!("DEBUG linear part={} with-ex={} ", ledger::min_fee(&stx, &p0, 0), ledger::min_fee(&stx, &ledger::Params { ref_script_price: None, ..o.params.clone() }, 0));
    }
    if num_bigint::BigInt::from(fee) < min {
        let short = &min - num_bigint::BigInt::from(fee);
        let cls = shortfall_class(o, &stx, &signed, ring);
        let mut d = detail(o);
        d["signed_tx"] = json!(hx(&signed.bytes));
        d["fee"] = json!(fee.to_string());
        d["min_fee"] = json!(min.to_string());
        d["short_by"] = json!(short.to_string());
        d["signers"] = json!(signed.keys.len());
        d["bootstrap"] = json!(signed.byron.len());
        ctx.violation(&format!("fee/below-ledger-minimum-of-signed-tx/{}", cls), d);
    } else {
        ctx.bucket("c06.fee-sufficient");
        if num_bigint::BigInt::from(fee) == min {
            ctx.bucket("c06.fee-exactly-minimum");
        }
    }
}

// ------------------------------------------------------------------------------------------------ C07 (builder part)

pub fn c07_monitor(ctx: &mut Ctx, o: &Outcome, tx: &Tx, ring: &KeyRing) {
    let cpb = o.params.coins_per_byte;
    let mut outs: Vec<(&cbor::Item, &'static str)> = tx.outputs().unwrap_or_default().into_iter().map(|x| (x, "output")).collect();
    if let Some(r) = tx.field(16) {
        outs.push((r, "collateral-return"));
    }
    for (it, kind) in outs {
        let len = (it.end - it.start) as u64;
        let need = ledger::min_utxo(cpb, len);
        let coin = ledger::output_value(it).map(|v| v.coin).unwrap_or(0) as u128;
        let is_change = ledger::output_address(it).as_deref() == Some(&o.change_addr[..]);
        if coin < need {
            let mut d = detail(o);
            d["output"] = json!(hx(it.span(tx.bytes)));
            d["coin"] = json!(coin.to_string());
            d["needed"] = json!(need.to_string());
            ctx.violation(&format!("built-tx/{}-below-min-ada/{}", kind, if is_change { "change" } else { "requested" }), d);
        } else {
            ctx.bucket(&format!("c07.{}-min-ada-ok", kind));
        }
        if let Some(v) = ledger::output_value_item(it) {
            let vlen = (v.end - v.start) as u64;
            if vlen > o.params.max_value_size {
                let mut d = detail(o);
                d["value_size"] = json!(vlen);
                ctx.violation(&format!("built-tx/{}-value-larger-than-max-value-size/{}", kind, if is_change { "change" } else { "requested" }), d);
            } else if vlen * 2 > o.params.max_value_size {
                ctx.bucket("c07.value-size-above-half-limit");
            }
        }
    }
    if let Some(signed) = really_sign(ctx, o, tx, ring) {
        let n = signed.bytes.len() as u64;
        if n > o.params.max_tx_size {
            let mut d = detail(o);
            d["signed_size"] = json!(n);
            ctx.violation("built-tx/signed-size-above-max-tx-size", d);
        } else {
            ctx.bucket("c07.tx-size-ok");
            if n * 2 > o.params.max_tx_size {
                ctx.bucket("c07.tx-size-above-half-limit");
            }
        }
    }
}

// ------------------------------------------------------------------------------------------------ C09

pub fn c09_monitor(ctx: &mut Ctx, o: &Outcome, tx: &Tx, _ring: &KeyRing) {
    // auxiliary data hash
    let aux = tx.aux();
    match (tx.field(7), aux.is_null()) {
        (Some(h), false) => {
            let want = vkit::codec::blake2b256(aux.span(tx.bytes));
            if h.as_bytes() != Some(&want[..]) {
                ctx.violation("built-tx/auxiliary-data-hash-differs-from-emitted-aux-data", detail(o));
            } else {
                ctx.bucket("c09.aux-hash-ok");
            }
        }
        (Some(_), true) => ctx.violation("built-tx/auxiliary-data-hash-without-aux-data", detail(o)),
        (None, false) => ctx.violation("built-tx/aux-data-without-hash", detail(o)),
        (None, true) => {}
    }
    // script integrity hash: only when calc_script_data_hash was called (cost models known)
    let models = match &o.cost_models {
        Some(m) => m,
        None => return,
    };
    let red = tx.wfield(5);
    let dat = tx.wfield(4);
    // spending redeemers point into the sorted input set: an input added AFTER the hash was computed
    // (a key input selected by the balancing call, say) shifts them. The quantifier admits exactly that
    // ("computed after the last SCRIPT item was added"), so these histories are judged like the others;
    // they are counted, because they are where a cached hash goes stale
    let has_spend = tx.redeemers().iter().any(|(t, _, _, _)| *t == 0);
    let mut stale_class = "";
    if has_spend {
        let mut now = tx.inputs().unwrap_or_default();
        now.sort();
        now.dedup();
        if o.inputs_at_hash_time.as_ref() != Some(&now) {
            ctx.bucket("c09.inputs-changed-after-calc_script_data_hash-with-spend-redeemers");
            stale_class = "/inputs-added-after-the-hash-was-computed";
        }
    }
    // languages in use: witness-set scripts plus declared reference scripts that are needed
    let mut langs: BTreeSet<u8> = BTreeSet::new();
    for (_, l) in ledger::witness_scripts(tx) {
        if l > 0 {
            langs.insert(l);
        }
    }
    if let Ok(need) = ledger::needed(tx, &o.utxos, &o.params) {
        for (_, _, h) in &need.scripts {
            for (rh, _) in &o.declared_refs {
                if rh == h {
                    // language of the ring script with that hash
                    let ring = ring_static();
                    if let Some(ps) = ring.plutus.iter().find(|p| p.hash().to_bytes() == *h) {
                        langs.insert(match ps.language_version().kind() {
                            LanguageKind::PlutusV1 => 1,
                            LanguageKind::PlutusV2 => 2,
                            LanguageKind::PlutusV3 => 3,
                        });
                    }
                }
            }
        }
    }
    let mut views: BTreeMap<u8, Vec<i128>> = BTreeMap::new();
    for l in &langs {
        match models.get(l) {
            Some(c) => {
                views.insert(*l, c.clone());
            }
            None => {
                ctx.bucket("skipped.cost-model-missing-for-language-in-use");
                return;
            }
        }
    }
    let body_hash = tx.field(11).and_then(|x| x.as_bytes());
    if red.is_none() && dat.is_none() && views.is_empty() {
        if body_hash.is_some() {
            // the ledger derives "no hash" from a witness set without redeemers, datums and languages
            ctx.violation("built-tx/script-data-hash-present-without-script-data", detail(o));
        }
        return;
    }
    let want = ledger::script_integrity_hash(red.map(|r| r.span(tx.bytes)), dat.map(|d| d.span(tx.bytes)), &views);
    let cls = match (red.is_some(), dat.is_some()) {
        (true, true) => "redeemers+datums",
        (true, false) => "redeemers-only",
        (false, true) => "datums-only",
        _ => "views-only",
    };
    match body_hash {
        Some(h) if h == &want[..] => {
            ctx.bucket(&format!("c09.script-hash-ok.{}", cls));
            ctx.bucket(&format!("c09.langs-{}", langs.iter().map(|l| l.to_string()).collect::<Vec<_>>().join("")));
        }
        Some(_) => {
            let mut d = detail(o);
            d["languages"] = json!(langs.iter().collect::<Vec<_>>());
            d["want"] = json!(hx(&want));
            ctx.violation(&format!("built-tx/script-data-hash-differs-from-emitted-witness-set/{}{}", cls, stale_class), d);
        }
        None => ctx.violation(&format!("built-tx/script-data-hash-missing/{}", cls), detail(o)),
    }
}

pub fn set_ring_static(_r: &'static KeyRing) {}
fn ring_static() -> &'static KeyRing {
    RING.get_or_init(KeyRing::new)
}

// ------------------------------------------------------------------------------------------------ C10

fn marker_of(data: &cbor::Item) -> Option<u64> {
    // the marker integer is the first integer found in the redeemer data
    match &data.v {
        cbor::V::U(n) => Some(*n),
        cbor::V::A(xs) => xs.iter().find_map(marker_of),
        cbor::V::Tag(_, inner) => marker_of(inner),
        _ => None,
    }
}

pub fn c10_monitor(ctx: &mut Ctx, o: &Outcome, tx: &Tx, _ring: &KeyRing) {
    let need = match ledger::needed(tx, &o.utxos, &o.params) {
        Ok(n) => n,
        Err(_) => {
            ctx.bucket("skipped.needed-could-not-evaluate");
            return;
        }
    };
    let reds = tx.redeemers();
    if o.unit_redeemers {
        // no markers: every Plutus use the ledger sees must find exactly one redeemer at its pointer, and no
        // redeemer may sit at any other pointer
        let plutus_hashes: BTreeSet<Vec<u8>> = _ring.plutus.iter().map(|p| p.hash().to_bytes()).collect();
        let purpose = |t: u64| ["spend", "mint", "cert", "reward", "vote", "propose"].get(t as usize).copied().unwrap_or("unknown");
        let mut wanted: BTreeSet<(u64, u64)> = BTreeSet::new();
        for (t, i, h) in &need.scripts {
            if plutus_hashes.contains(h) {
                wanted.insert((*t, *i));
                let n = reds.iter().filter(|(rt, ri, _, _)| rt == t && ri == i).count();
                if n == 1 {
                    ctx.bucket("c10.unit-redeemer-at-its-pointer");
                } else {
                    ctx.violation(&format!("redeemer/unit-redeemers/{}-at-the-pointer-of-a-plutus-item/{}", n, purpose(*t)), detail(o));
                }
            }
        }
        for (t, i, _, _) in &reds {
            if !wanted.contains(&(*t, *i)) {
                ctx.violation(&format!("redeemer/unit-redeemers/points-at-no-plutus-item/{}", purpose(*t)), detail(o));
            }
        }
        return;
    }
    if o.superseded {
        ctx.bucket("c10.history-with-superseded-plutus-registration");
        if std::env::var("CSLMON_DEBUG").is_ok() {
            eprintln!("SUPERSEDED reds={} log={:#?}", reds.len(), o.log);
        }
    }
    if reds.is_empty() {
        return;
    }
    let sensitive = ledger::mixed_cred_order_sensitive(tx);
    let suffix = |tag: u64| if sensitive && (tag == 3 || tag == 4) { "/mixed-cred-order" } else { "" };
    let purpose = |t: u64| ["spend", "mint", "cert", "reward", "vote", "propose"].get(t as usize).copied().unwrap_or("unknown");
    // duplicates
    let mut seen = BTreeSet::new();
    for (t, i, _, _) in &reds {
        if !seen.insert((*t, *i)) {
            ctx.violation(&format!("redeemer/duplicate-pointer/{}", purpose(*t)), detail(o));
        }
    }
    // the ordered item lists under the ledger's rules
    let mut ins = tx.inputs().unwrap_or_default();
    ins.sort();
    ins.dedup();
    let mut pols: Vec<Vec<u8>> = tx.field(9).and_then(|m| m.as_map()).map(|m| m.iter().filter_map(|(k, _)| k.as_bytes().map(|b| b.to_vec())).collect()).unwrap_or_default();
    pols.sort();
    pols.dedup();
    let certs: Vec<Vec<u8>> = tx.certs().iter().map(|c| c.span(tx.bytes).to_vec()).collect();
    let props: Vec<Vec<u8>> = tx.proposals().iter().map(|c| c.span(tx.bytes).to_vec()).collect();
    // withdrawals and voters in ledger order
    let mut wd: Vec<(u8, u8, Vec<u8>, Vec<u8>)> = tx
        .withdrawals()
        .iter()
        .filter_map(|(a, _)| ledger::reward_cred(a).map(|(net, c)| match c {
            ledger::Cred::Script(h) => (net, 0u8, h, a.clone()),
            ledger::Cred::Key(h) => (net, 1u8, h, a.clone()),
        }))
        .collect();
    wd.sort();
    let mut voters: Vec<(u8, u8, Vec<u8>, Vec<u8>)> = tx
        .voters()
        .iter()
        .filter_map(|v| {
            let a = v.as_arr()?;
            let h = a.get(1)?.as_bytes()?.to_vec();
            let (role, rank) = match a.first()?.as_u64()? {
                0 => (0, 1),
                1 => (0, 0),
                2 => (1, 1),
                3 => (1, 0),
                4 => (2, 1),
                _ => return None,
            };
            Some((role, rank, h, v.span(tx.bytes).to_vec()))
        })
        .collect();
    voters.sort();

    for (t, i, data, _) in &reds {
        let m = match marker_of(data) {
            Some(m) => m,
            None => {
                ctx.bucket("skipped.redeemer-without-marker");
                continue;
            }
        };
        let mk = match o.markers.iter().find(|x| x.marker == m) {
            Some(x) => x,
            None => {
                // a redeemer the history did not leave attached to any item of the final transaction
                // (its item was re-registered without a script witness)
                ctx.violation(&format!("redeemer/emitted-for-an-item-it-is-no-longer-attached-to/{}", purpose(*t)), detail(o));
                continue;
            }
        };
        ctx.bucket(&format!("c10.redeemer-{}", purpose(*t)));
        if *t != mk.purpose {
            ctx.violation(&format!("redeemer/wrong-purpose/attached-as-{}", purpose(mk.purpose)), detail(o));
            continue;
        }
        let idx = *i as usize;
        let resolved: Option<ItemId> = match t {
            0 => ins.get(idx).map(|(a, b)| ItemId::Input(a.clone(), *b)),
            1 => pols.get(idx).map(|p| ItemId::Policy(p.clone())),
            2 => certs.get(idx).map(|c| ItemId::Cert(c.clone())),
            3 => wd.get(idx).map(|w| ItemId::Reward(w.3.clone())),
            4 => voters.get(idx).map(|v| ItemId::Voter(v.3.clone())),
            5 => props.get(idx).map(|p| ItemId::Proposal(p.clone())),
            _ => None,
        };
        match resolved {
            None => ctx.violation(&format!("redeemer/pointer-out-of-range/{}{}", purpose(*t), suffix(*t)), detail(o)),
            Some(item) => {
                if item != mk.item {
                    let mut d = detail(o);
                    d["redeemer"] = json!(format!("({}, {}) marker {}", t, i, m));
                    d["resolves_to"] = json!(format!("{:?}", item));
                    d["attached_to"] = json!(format!("{:?}", mk.item));
                    ctx.violation(&format!("redeemer/points-at-different-item/{}{}", purpose(*t), suffix(*t)), d);
                } else {
                    ctx.bucket(&format!("c10.resolved-ok-{}", purpose(*t)));
                    // insertion order differs from ledger order?
                    if need.scripts.iter().any(|(tt, ii, _)| tt == t && *ii == *i) {
                        ctx.bucket("c10.points-at-script-item");
                    } else {
                        ctx.violation(&format!("redeemer/points-at-non-script-item/{}{}", purpose(*t), suffix(*t)), detail(o));
                    }
                }
            }
        }
    }
    // every marker attached must have its redeemer
    for mk in &o.markers {
        if !reds.iter().any(|(_, _, d, _)| marker_of(d) == Some(mk.marker)) {
            ctx.violation(&format!("redeemer/missing-for-attached-item/{}", purpose(mk.purpose)), detail(o));
        }
    }
}

// ------------------------------------------------------------------------------------------------ C16 (determinism part)

pub fn c16_monitor(ctx: &mut Ctx, o: &Outcome, tx: &Tx, _ring: &KeyRing) {
    // certificates: the order of first registration
    {
        let emitted: Vec<Vec<u8>> = tx.certs().iter().map(|c| c.span(tx.bytes).to_vec()).collect();
        if !emitted.is_empty() && !o.cert_order.is_empty() {
            if emitted == o.cert_order {
                if emitted.len() >= 2 {
                    ctx.bucket("c16.certificates-in-first-registration-order");
                }
            } else {
                let mut a = emitted.clone();
                let mut b = o.cert_order.clone();
                a.sort();
                b.sort();
                let cls = if a == b { "order-differs-from-first-registration" } else if emitted.len() > o.cert_order.len() { "more-than-registered" } else { "differs-from-registered" };
                ctx.violation(&format!("built-tx/certificates/{}", cls), detail(o));
            }
        }
    }
    let n_ref = tx.reference_inputs().map(|x| x.len()).unwrap_or(0);
    if n_ref >= 2 {
        ctx.bucket("c16.rebuilt-with-2+-reference-inputs");
    }
    let first = tx.bytes.to_vec();
    let mut distinct: BTreeSet<Vec<u8>> = BTreeSet::new();
    distinct.insert(first);
    let mut sizes = BTreeSet::new();
    let mut fees = BTreeSet::new();
    for _ in 0..7 {
        match guard(|| o.builder.build_tx().map(|t| t.to_bytes())) {
            Ok(Ok(b)) => {
                distinct.insert(b);
            }
            Ok(Err(_)) => {
                ctx.violation("rebuild/build_tx-fails-on-unchanged-builder", detail(o));
                return;
            }
            Err(p) => {
                ctx.panic_seen(&p);
                return;
            }
        }
        if let Ok(Ok(s)) = guard(|| o.builder.full_size()) {
            sizes.insert(s);
        }
        if let Ok(Ok(f)) = guard(|| o.builder.min_fee()) {
            fees.insert(u64::from(f));
        }
    }
    ctx.bucket("c16.rebuilt-8x");
    if distinct.len() > 1 {
        let cls = if n_ref >= 2 { "with-2+-reference-inputs" } else { "other" };
        let mut d = detail(o);
        d["distinct_results"] = json!(distinct.len());
        d["variants"] = json!(distinct.iter().take(3).map(|b| hx(b)).collect::<Vec<_>>());
        ctx.violation(&format!("rebuild/build_tx-bytes-differ-between-calls/{}", cls), d);
    }
    if sizes.len() > 1 {
        ctx.violation("rebuild/full_size-differs-between-calls", detail(o));
    }
    if fees.len() > 1 {
        ctx.violation("rebuild/min_fee-differs-between-calls", detail(o));
    }
    // set-typed fields of the emitted body hold no element twice; mint keys canonical
    for k in [0u64, 13, 14, 18, 4, 20] {
        if let Some(f) = tx.field(k) {
            if let Some(a) = f.untag(258).as_arr() {
                let mut enc: Vec<&[u8]> = a.iter().map(|x| x.span(tx.bytes)).collect();
                let n = enc.len();
                enc.sort();
                enc.dedup();
                if enc.len() != n {
                    ctx.violation(&format!("built-tx/duplicate-element-in-set-field-{}", k), detail(o));
                }
                if n >= 2 {
                    ctx.bucket(&format!("c16.set-field-{}-with-2+", k));
                }
            }
        }
    }
    for k in [1u64, 3, 4, 6, 7] {
        if let Some(f) = tx.wfield(k) {
            if let Some(a) = f.untag(258).as_arr() {
                let mut enc: Vec<&[u8]> = a.iter().map(|x| x.span(tx.bytes)).collect();
                let n = enc.len();
                enc.sort();
                enc.dedup();
                if enc.len() != n {
                    ctx.violation(&format!("built-tx/duplicate-element-in-witness-field-{}", k), detail(o));
                }
            }
        }
    }
    if let Some(m) = tx.field(9).and_then(|m| m.as_map()) {
        let keys: Vec<&[u8]> = m.iter().map(|(k, _)| k.span(tx.bytes)).collect();
        if !keys.windows(2).all(|w| cbor::canonical_key_cmp(w[0], w[1]) == std::cmp::Ordering::Less) {
            ctx.violation("built-tx/mint-policy-ids-not-in-canonical-order", detail(o));
        }
        for (_, assets) in m {
            if let Some(am) = assets.as_map() {
                let ks: Vec<&[u8]> = am.iter().map(|(k, _)| k.span(tx.bytes)).collect();
                if !ks.windows(2).all(|w| cbor::canonical_key_cmp(w[0], w[1]) == std::cmp::Ordering::Less) {
                    ctx.violation("built-tx/mint-asset-names-not-in-canonical-order", detail(o));
                }
            }
        }
        if m.len() >= 2 {
            ctx.bucket("c16.mint-with-2+-policies");
        }
    }
    for out in tx.outputs().unwrap_or_default() {
        if let Some(v) = ledger::output_value_item(out) {
            if let Some(a) = v.as_arr() {
                if let Some(ma) = a.get(1).and_then(|x| x.as_map()) {
                    let keys: Vec<&[u8]> = ma.iter().map(|(k, _)| k.span(tx.bytes)).collect();
                    if !keys.windows(2).all(|w| cbor::canonical_key_cmp(w[0], w[1]) == std::cmp::Ordering::Less) {
                        ctx.violation("built-tx/output-policy-ids-not-in-canonical-order", detail(o));
                    }
                    for (_, assets) in ma {
                        if let Some(am) = assets.as_map() {
                            let ks: Vec<&[u8]> = am.iter().map(|(k, _)| k.span(tx.bytes)).collect();
                            if !ks.windows(2).all(|w| cbor::canonical_key_cmp(w[0], w[1]) == std::cmp::Ordering::Less) {
                                ctx.violation("built-tx/output-asset-names-not-in-canonical-order", detail(o));
                            }
                        }
                    }
                }
            }
        }
    }
}

// ------------------------------------------------------------------------------------------------ C18

pub fn c18_monitor(ctx: &mut Ctx, o: &Outcome, tx: &Tx, ring: &KeyRing) {
    let need = match ledger::needed(tx, &o.utxos, &o.params) {
        Ok(n) => n,
        Err(_) => {
            ctx.bucket("skipped.needed-could-not-evaluate");
            return;
        }
    };
    let purpose = |t: u64| ["spend", "mint", "cert", "reward", "vote", "propose"].get(t as usize).copied().unwrap_or("unknown");
    let wits = ledger::witness_scripts(tx);
    // no script twice in the witness set
    {
        let mut hs: Vec<&Vec<u8>> = wits.iter().map(|(h, _)| h).collect();
        let n = hs.len();
        hs.sort();
        hs.dedup();
        if hs.len() != n {
            ctx.violation("witness-set/same-script-emitted-twice", detail(o));
        }
    }
    let refs = tx.reference_inputs().unwrap_or_default();
    let ins = tx.inputs().unwrap_or_default();
    let mut needed_hashes: BTreeSet<Vec<u8>> = BTreeSet::new();
    for (t, _i, h) in &need.scripts {
        needed_hashes.insert(h.clone());
        let in_wits = wits.iter().filter(|(wh, _)| wh == h).count();
        // declared reference input carrying this script, present among reference inputs (or spent inputs)
        let via_ref = o.declared_refs.iter().filter(|(rh, _)| rh == h).filter(|(_, op)| refs.contains(op) || ins.contains(op)).count();
        let declared_but_absent = o.declared_refs.iter().any(|(rh, op)| rh == h && !refs.contains(op) && !ins.contains(op));
        match (in_wits, via_ref) {
            (1, 0) | (0, 1) => ctx.bucket(&format!("c18.script-available-once.{}.{}", purpose(*t), if in_wits == 1 { "witness" } else { "reference" })),
            (0, 0) => {
                let cls = if declared_but_absent { "declared-reference-input-not-in-body" } else { "not-provided" };
                ctx.violation(&format!("script/missing/{}/{}", purpose(*t), cls), detail(o));
            }
            _ => ctx.violation(&format!("script/available-more-than-once/{}", purpose(*t)), detail(o)),
        }
    }
    // a datum supplied "through a reference input": that reference input is in the body
    for (inp, dref) in &o.datum_refs {
        if ins.contains(inp) {
            if refs.contains(dref) || ins.contains(dref) {
                ctx.bucket("c18.datum-reference-input-in-body");
            } else {
                ctx.violation("datum/declared-reference-input-not-in-body", detail(o));
            }
        }
    }
    // redeemer for every plutus use
    let reds = tx.redeemers();
    for (t, i, h) in &need.scripts {
        let is_plutus = ring.plutus.iter().any(|p| p.hash().to_bytes() == *h);
        if is_plutus {
            let n = reds.iter().filter(|(rt, ri, _, _)| rt == t && ri == i).count();
            if n != 1 {
                let sensitive = ledger::mixed_cred_order_sensitive(tx) && (*t == 3 || *t == 4);
                ctx.violation(&format!("plutus-use/{}-redeemers-at-its-pointer/{}{}", n, purpose(*t), if sensitive { "/mixed-cred-order" } else { "" }), detail(o));
            } else {
                ctx.bucket("c18.plutus-use-has-redeemer");
            }
        }
    }
    // datum for plutus spends of datum-hash outputs
    let mut sorted_ins = ins.clone();
    sorted_ins.sort();
    sorted_ins.dedup();
    let datum_hashes: Vec<Vec<u8>> = tx
        .wfield(4)
        .and_then(|d| d.untag(258).as_arr().map(|a| a.iter().map(|x| vkit::codec::blake2b256(x.span(tx.bytes))).collect()))
        .unwrap_or_default();
    {
        let mut d = datum_hashes.clone();
        let n = d.len();
        d.sort();
        d.dedup();
        if d.len() != n {
            ctx.violation("witness-set/same-datum-emitted-twice", detail(o));
        }
    }
    for (txid, ix) in &sorted_ins {
        if let Some(u) = ledger::find_utxo(&o.utxos, txid, *ix) {
            if let ledger::PayCred::Script(h) = ledger::payment_cred(&u.addr) {
                let is_plutus = ring.plutus.iter().any(|p| p.hash().to_bytes() == h);
                if is_plutus {
                    if let Some(dh) = &u.datum_hash {
                        // in the witness set, or through a reference input declared with the datum (scenario: datum_mode 2)
                        let in_wits = datum_hashes.iter().any(|x| x == dh);
                        let via_ref = o.log.iter().any(|l| l.contains(&format!("{}#{} datum_mode=2", hx(&txid[..4]), ix)));
                        if !in_wits && !via_ref {
                            ctx.violation("plutus-spend/datum-missing-from-witness-set", detail(o));
                        } else {
                            ctx.bucket("c18.datum-available");
                        }
                    }
                }
            }
        }
    }
    // size prediction
    let s = match guard(|| o.builder.full_size()) {
        Ok(Ok(s)) => s as i64,
        _ => {
            ctx.bucket("skipped.full_size-failed");
            return;
        }
    };
    if let Some(signed) = really_sign(ctx, o, tx, ring) {
        let r = signed.bytes.len() as i64;
        if ctx.replay_mode {
            eprintln!("DEBUG full_size={} signed={} built={}", s, r, tx.bytes.len());
            eprintln!("DEBUG signed witness set: {}", signed.tx.witness_set().to_json().unwrap_or_default());
            eprintln!("DEBUG needed keys: {:?}", signed.keys.iter().map(|k| hx(k)).collect::<Vec<_>>());
        }
        const VKEY_WITNESS: i64 = 101; // 82 5820 <32 bytes> 5840 <64 bytes>
        let cls = if !signed.byron.is_empty() { "with-bootstrap" } else { "vkey-only" };
        if s < r {
            let mut d = detail(o);
            d["full_size"] = json!(s);
            d["really_signed_size"] = json!(r);
            d["signers"] = json!(signed.keys.iter().map(|k| hx(&k[..4])).collect::<Vec<_>>());
            d["bootstrap"] = json!(signed.byron.len());
            let _ = cls;
            ctx.violation(&format!("full_size/smaller-than-really-signed-tx/{}", shortfall_class(o, tx, &signed, ring)), d);
        } else if s - r >= VKEY_WITNESS {
            let mut d = detail(o);
            d["full_size"] = json!(s);
            d["really_signed_size"] = json!(r);
            d["signers"] = json!(signed.keys.iter().map(|k| hx(&k[..4])).collect::<Vec<_>>());
            ctx.violation(&format!("full_size/exceeds-really-signed-tx-by-a-witness-or-more/{}", cls), d);
        } else {
            ctx.bucket("c18.size-within-one-witness");
            if s == r {
                ctx.bucket("c18.size-exact");
            }
        }
        ctx.bucket(&format!("c18.signers-{}", signed.keys.len().min(9)));
    }
}

// ------------------------------------------------------------------------------------------------ C19 (on full scenarios)

pub fn c19_monitor(ctx: &mut Ctx, o: &Outcome, tx: &Tx, _ring: &KeyRing) {
    let by_helper = matches!(o.balance, Balance::InputsFromAndChangeWithCollateralReturn(_, _)) || matches!(&o.collateral_op, Some((_, Ok(()))));
    if !by_helper {
        return;
    }
    c19_check_body(ctx, tx, &o.utxos, &o.params, match o.balance {
        Balance::InputsFromAndChangeWithCollateralReturn(_, pct) => Some(pct),
        _ => None,
    }, &detail(o), "scenario");
}

/// "a failed attempt leaves neither field set": the percentage helper failed; what does the builder hold now?
pub fn c19_failed_helper(ctx: &mut Ctx, o: &Outcome) {
    if !matches!(o.balance, Balance::InputsFromAndChangeWithCollateralReturn(_, _)) {
        return;
    }
    if matches!(&o.collateral_op, Some((_, Ok(())))) {
        // the history itself set the fields earlier with another helper
        ctx.bucket("c19.failed-helper.fields-set-earlier-by-the-history");
        return;
    }
    let mut tb = o.builder.clone();
    if o.builder.get_fee_if_set().is_none() {
        tb.set_fee(&BigNum::from(300_000u64));
    }
    let bytes = match guard(|| tb.build_tx_unsafe().map(|t| t.to_bytes())) {
        Ok(Ok(b)) => b,
        _ => {
            ctx.bucket("c19.failed-helper.body-could-not-be-assembled");
            return;
        }
    };
    let tx = match Tx::parse(&bytes) {
        Ok(t) => t,
        Err(_) => return,
    };
    let mut hv = bytes.clone();
    hv.extend_from_slice(b"failed-helper");
    ctx.nontrivial_bytes("c19", &hv);
    if tx.field(16).is_some() || tx.field(17).is_some() {
        let mut d = detail(o);
        d["body_after_failed_attempt"] = json!(hx(&bytes));
        ctx.violation("add_inputs_from_and_change_with_collateral_return/failed-attempt-left-a-field-set", d);
    } else {
        ctx.bucket("c19.failed-helper.leaves-neither-field");
    }
}

/// the collateral equation on an emitted body
pub fn c19_check_body(ctx: &mut Ctx, tx: &Tx, utxos: &[ledger::UtxoEntry], params: &ledger::Params, pct: Option<u64>, det: &serde_json::Value, origin: &str) {
    let ret = tx.field(16);
    let total = tx.field(17).and_then(|x| x.as_u64());
    if ret.is_none() && total.is_none() {
        ctx.bucket("c19.neither-field-set");
        return;
    }
    let mut sum = ledger::Val::default();
    for (t, i) in tx.collateral().unwrap_or_default() {
        match ledger::find_utxo(utxos, &t, i) {
            Some(u) => sum.add(&u.val),
            None => {
                ctx.bucket("skipped.collateral-not-in-table");
                return;
            }
        }
    }
    let mut rhs = ledger::Val::default();
    if let Some(r) = ret {
        match ledger::output_value(r) {
            Ok(v) => rhs.add(&v),
            Err(_) => {
                ctx.violation(&format!("{}/collateral-return-unreadable", origin), det.clone());
                return;
            }
        }
    }
    match total {
        Some(t) => rhs.coin += t as i128,
        None => {
            ctx.violation(&format!("{}/collateral-return-without-total", origin), det.clone());
            return;
        }
    }
    let (a, b) = (sum.normalized(), rhs.normalized());
    if a != b {
        let cls = match (a.coin != b.coin, a.assets != b.assets) {
            (true, false) => "lovelace",
            (false, true) => {
                // which way
                let foreign = b.assets.keys().any(|k| !a.assets.contains_key(k));
                if foreign {
                    "return-holds-asset-the-inputs-do-not"
                } else {
                    "asset-of-inputs-not-in-return"
                }
            }
            _ => "lovelace-and-asset",
        };
        let mut d = det.clone();
        d["inputs_vs_return_plus_total"] = json!(a.describe_diff(&b));
        ctx.violation(&format!("{}/collateral-inputs!=return+total/{}", origin, cls), d);
    } else {
        ctx.bucket("c19.equation-holds");
    }
    if let Some(r) = ret {
        let len = (r.end - r.start) as u64;
        let coin = ledger::output_value(r).map(|v| v.coin).unwrap_or(0) as u128;
        if coin < ledger::min_utxo(params.coins_per_byte, len) {
            ctx.violation(&format!("{}/collateral-return-below-min-ada", origin), det.clone());
        }
    }
    if let (Some(pct), Some(t), Ok(fee)) = (pct, total, tx.fee()) {
        if (t as u128) * 100 < fee as u128 * pct as u128 {
            ctx.violation(&format!("{}/total-collateral-below-percentage-of-fee", origin), det.clone());
        } else {
            ctx.bucket("c19.percentage-ok");
        }
    }
}

// ------------------------------------------------------------------------------------------------ C03 (builder outputs)

pub fn c03_monitor(ctx: &mut Ctx, o: &Outcome, tx: &Tx, _ring: &KeyRing) {
    let opts = vkit::cddl::Opts { legacy_ok: false, strict_output_assets: true, discipline: true, allow_empty_maps: false };
    match vkit::cddl::validate("transaction", tx.bytes, opts) {
        Ok(f) => {
            if f.is_empty() {
                ctx.bucket("validated.ok");
                ctx.bucket("builder.validated-ok");
            }
            let mut seen: Vec<&str> = vec![];
            for x in &f {
                if seen.contains(&x.clause) {
                    continue;
                }
                seen.push(x.clause);
                if o.verbatim_datums && x.clause == "discipline/nonempty-plutus-list-definite" {
                    // the caller supplied that datum as bytes in this spelling; keeping it verbatim is what C04 demands
                    ctx.bucket("info.caller-spelled-datum-kept-verbatim");
                    continue;
                }
                let mut d = detail(o);
                d["path"] = json!(x.path);
                d["note"] = json!(x.note);
                ctx.violation(&format!("cddl/{}/builder-output", x.clause), d);
            }
        }
        Err(e) => ctx.violation("cbor/not-well-formed", json!({"error": e, "tx": hx(tx.bytes)})),
    }
}
