//! C14 — amount arithmetic is exact or fails explicitly.
//! Oracle: exact arithmetic on num-bigint / u128 / BTreeMap models, own CBOR reader.

use crate::fw::*;
use cardano_serialization_lib as csl;
use csl::*;
use num_bigint::BigInt as NB;
use num_traits::{One, Signed, Zero};
use serde_json::json;
use std::collections::BTreeMap;
use vkit::cbor::{self, Item, V};
use vkit::rng::{Rng, LATTICE};

pub fn def() -> PropDef {
    PropDef {
        id: "C14",
        rule: "cases are operand tuples (boundary lattice exhaustively, then seeded random) fed to every public arithmetic / conversion operation of BigNum, Int, BigInt, Value, MultiAsset, Mint, MintBuilder; non-trivial = at least one operand outside 0..=23 or a non-empty asset bundle; distinct by hash of (operation class, operands)",
        assumptions: &[
            "num-bigint is trusted for exact reference arithmetic",
            "division by zero is not generated (no exact result exists)",
            "clamped_sub and MultiAsset::sub are documented as saturating and are judged against the saturating model",
        ],
        streams,
        floors: &[
            ("bignum.pair", 300),
            ("int.value", 300),
            ("bigint.value", 300),
            ("value.triple", 300),
            ("mint.case", 100),
        ],
        init: None,
    }
}

fn streams() -> Vec<Stream> {
    let l = LATTICE.len() as u64;
    vec![
        Stream { name: "bignum-lattice", count: (l * l, l * l), exhaustive: true, run: bignum_lattice },
        Stream { name: "bignum-random", count: (200_000, 4_000_000), exhaustive: false, run: bignum_random },
        Stream { name: "bignum-str", count: (40_000, 800_000), exhaustive: false, run: bignum_str },
        Stream { name: "int-lattice", count: (2 * l + 8, 2 * l + 8), exhaustive: true, run: int_lattice },
        Stream { name: "int-random", count: (200_000, 4_000_000), exhaustive: false, run: int_random },
        Stream { name: "int-str", count: (60_000, 1_000_000), exhaustive: false, run: int_str },
        Stream { name: "bigint-random", count: (60_000, 1_500_000), exhaustive: false, run: bigint_random },
        Stream { name: "bigint-cbor-forms", count: (40_000, 800_000), exhaustive: false, run: bigint_cbor_forms },
        Stream { name: "value-random", count: (80_000, 2_000_000), exhaustive: false, run: value_random },
        Stream { name: "mint", count: (40_000, 800_000), exhaustive: false, run: mint_case },
    ]
}

fn pow2(k: usize) -> NB {
    let one: NB = NB::one();
    one << k
}
fn nb(x: u64) -> NB {
    NB::from(x)
}
fn max64() -> NB {
    NB::from(u64::MAX)
}

fn h2(ctx: &mut Ctx, tag: &str, a: u64, b: u64) {
    if a > 23 || b > 23 {
        let mut v = tag.as_bytes().to_vec();
        v.extend_from_slice(&a.to_le_bytes());
        v.extend_from_slice(&b.to_le_bytes());
        ctx.nontrivial(vkit::rng::fnv64(&v));
    }
}

// ------------------------------------------------------------------------------------------------ BigNum

fn check_bignum_pair(ctx: &mut Ctx, a: u64, b: u64) {
    ctx.eval();
    ctx.bucket("bignum.pair");
    h2(ctx, "bn", a, b);
    if a > 1 << 40 && b > 1 {
        ctx.sample("bignum-pair", || json!({"ops": "checked_add/sub/mul, clamped_sub, div_floor, compare, max", "a": a.to_string(), "b": b.to_string()}));
    }
    let (x, y) = (BigNum::from(a), BigNum::from(b));
    let r = guard(|| {
        let mut bad: Vec<(String, String)> = vec![];
        let exact_add = nb(a) + nb(b);
        match x.checked_add(&y) {
            Ok(v) => {
                if nb(v.into()) != exact_add {
                    bad.push(("BigNum.checked_add/wrong".into(), format!("{}", u64::from(v))));
                }
            }
            Err(_) => {
                if exact_add <= max64() {
                    bad.push(("BigNum.checked_add/spurious-error".into(), String::new()));
                }
            }
        }
        let exact_mul = nb(a) * nb(b);
        match x.checked_mul(&y) {
            Ok(v) => {
                if nb(v.into()) != exact_mul {
                    bad.push(("BigNum.checked_mul/wrong".into(), format!("{}", u64::from(v))));
                }
            }
            Err(_) => {
                if exact_mul <= max64() {
                    bad.push(("BigNum.checked_mul/spurious-error".into(), String::new()));
                }
            }
        }
        match x.checked_sub(&y) {
            Ok(v) => {
                if a < b || u64::from(v) != a - b {
                    bad.push(("BigNum.checked_sub/wrong".into(), format!("{}", u64::from(v))));
                }
            }
            Err(_) => {
                if a >= b {
                    bad.push(("BigNum.checked_sub/spurious-error".into(), String::new()));
                }
            }
        }
        let cs: u64 = x.clamped_sub(&y).into();
        if cs != a.saturating_sub(b) {
            bad.push(("BigNum.clamped_sub/wrong".into(), format!("{}", cs)));
        }
        if b != 0 {
            let d: u64 = x.div_floor(&y).into();
            if d != a / b {
                bad.push(("BigNum.div_floor/wrong".into(), format!("{}", d)));
            }
        }
        let c = x.compare(&y);
        let want = if a < b { -1 } else if a == b { 0 } else { 1 };
        if c != want {
            bad.push(("BigNum.compare/wrong".into(), format!("{}", c)));
        }
        if x.less_than(&y) != (a < b) {
            bad.push(("BigNum.less_than/wrong".into(), String::new()));
        }
        let m: u64 = BigNum::max(&x, &y).into();
        if m != a.max(b) {
            bad.push(("BigNum.max/wrong".into(), format!("{}", m)));
        }
        bad
    });
    match r {
        Ok(bad) => {
            for (sig, got) in bad {
                ctx.violation(&sig, json!({"a": a.to_string(), "b": b.to_string(), "got": got}));
            }
        }
        Err(p) => ctx.violation(&format!("BigNum.pair/{}", p.sig()), json!({"a": a.to_string(), "b": b.to_string(), "loc": p.loc, "msg": p.msg})),
    }
}

fn check_bignum_single(ctx: &mut Ctx, a: u64) {
    ctx.eval();
    let x = BigNum::from(a);
    let r = guard(|| {
        let mut bad: Vec<(String, String)> = vec![];
        let s = x.to_str();
        if s != a.to_string() {
            bad.push(("BigNum.to_str/wrong".into(), s.clone()));
        }
        match BigNum::from_str(&s) {
            Ok(v) if u64::from(v) == a => {}
            _ => bad.push(("BigNum.from_str/roundtrip".into(), s.clone())),
        }
        let bytes = x.to_bytes();
        let want = cbor::to_vec(&Item::u(a));
        if bytes != want {
            bad.push(("BigNum.to_bytes/not-shortest-uint".into(), hx(&bytes)));
        }
        match BigNum::from_bytes(bytes.clone()) {
            Ok(v) if u64::from(v) == a => {}
            _ => bad.push(("BigNum.from_bytes/roundtrip".into(), hx(&bytes))),
        }
        // every non-minimal width decodes to the same number
        for w in [1u8, 2, 4, 8] {
            if w >= cbor::min_width(a) {
                let b = cbor::to_vec(&Item::u(a).with_width(w));
                match BigNum::from_bytes(b.clone()) {
                    Ok(v) if u64::from(v) == a => {}
                    Ok(v) => bad.push(("BigNum.from_bytes/wide-head-wrong".into(), format!("{} -> {}", hx(&b), u64::from(v)))),
                    Err(_) => {} // rejecting a non-minimal head is an explicit error
                }
            }
        }
        match x.to_json() {
            Ok(j) => {
                if j != format!("\"{}\"", a) {
                    bad.push(("BigNum.to_json/wrong".into(), j.clone()));
                }
                match BigNum::from_json(&j) {
                    Ok(v) if u64::from(v) == a => {}
                    _ => bad.push(("BigNum.from_json/roundtrip".into(), j)),
                }
            }
            Err(_) => bad.push(("BigNum.to_json/error".into(), String::new())),
        }
        use std::convert::TryFrom;
        match u32::try_from(x) {
            Ok(v) => {
                if v as u64 != a {
                    bad.push(("BigNum.try_into_u32/truncated".into(), v.to_string()));
                }
            }
            Err(_) => {
                if a <= u32::MAX as u64 {
                    bad.push(("BigNum.try_into_u32/spurious-error".into(), String::new()));
                }
            }
        }
        if x.is_zero() != (a == 0) {
            bad.push(("BigNum.is_zero/wrong".into(), String::new()));
        }
        bad
    });
    match r {
        Ok(bad) => {
            for (sig, got) in bad {
                ctx.violation(&sig, json!({"a": a.to_string(), "got": got}));
            }
        }
        Err(p) => ctx.violation(&format!("BigNum.single/{}", p.sig()), json!({"a": a.to_string(), "loc": p.loc, "msg": p.msg})),
    }
}

fn bignum_lattice(ctx: &mut Ctx, _r: &mut Rng, i: u64) {
    let l = LATTICE.len() as u64;
    let (a, b) = (LATTICE[(i / l) as usize], LATTICE[(i % l) as usize]);
    check_bignum_pair(ctx, a, b);
    if i % l == 0 {
        check_bignum_single(ctx, a);
    }
}

fn bignum_random(ctx: &mut Ctx, r: &mut Rng, _i: u64) {
    let a = r.wide_u64();
    let b = match r.below(6) {
        0 => a,
        1 => a.wrapping_add(1),
        2 => u64::MAX - a,
        3 => (u64::MAX - a).wrapping_add(1),
        4 if a != 0 => (u64::MAX / a).wrapping_add(r.below(2)),
        _ => r.wide_u64(),
    };
    check_bignum_pair(ctx, a, b);
    check_bignum_single(ctx, a);
}

/// decimal strings around the u64 range, plus malformed ones: from_str must be exact or Err
fn bignum_str(ctx: &mut Ctx, r: &mut Rng, _i: u64) {
    ctx.eval();
    let (s, exact): (String, Option<NB>) = gen_decimal(r, false);
    let res = guard(|| BigNum::from_str(&s));
    match res {
        Ok(Ok(v)) => {
            let ok = match &exact {
                Some(e) => *e == nb(v.into()),
                None => false,
            };
            if !ok {
                ctx.violation(
                    "BigNum.from_str/accepted-different-number",
                    json!({"input": s, "got": u64::from(v).to_string()}),
                );
            }
        }
        Ok(Err(_)) => {
            if let Some(e) = &exact {
                // plain canonical decimals in range must parse
                if *e >= NB::zero() && *e <= max64() && is_plain_decimal(&s) {
                    ctx.violation("BigNum.from_str/spurious-error", json!({"input": s}));
                }
            }
        }
        Err(p) => ctx.violation(&format!("BigNum.from_str/{}", p.sig()), json!({"input": s, "msg": p.msg})),
    }
    ctx.nontrivial_bytes("bnstr", s.as_bytes());
}

fn is_plain_decimal(s: &str) -> bool {
    let t = s.strip_prefix('-').unwrap_or(s);
    !t.is_empty() && t.bytes().all(|c| c.is_ascii_digit()) && (t == "0" || !t.starts_with('0')) && s != "-0"
}

/// returns a decimal-ish string and, if it denotes an integer under Rust's integer grammar
/// ([+-]?digits), the exact value
fn gen_decimal(r: &mut Rng, signed: bool) -> (String, Option<NB>) {
    let two64 = pow2(64);
    let base: NB = match r.below(8) {
        0 => two64.clone(),
        1 => pow2(63),
        2 => pow2(127),
        3 => pow2(128),
        4 => NB::from(r.wide_u64()),
        5 => NB::from(r.u64()) * NB::from(r.u64()),
        6 => NB::zero(),
        _ => NB::from(r.below(1 << 20)),
    };
    let delta = NB::from(r.below(5) as i64 - 2);
    let mut v = base + delta;
    if (signed && r.bool()) || (!signed && r.chance(1, 8)) {
        v = -v;
    }
    let mut s = v.to_string();
    let mut exact = Some(v.clone());
    match r.below(14) {
        0 => {
            s = format!("+{}", s.trim_start_matches('-'));
            exact = Some(v.abs());
        }
        1 => {
            // leading zeros
            let neg = s.starts_with('-');
            let t = s.trim_start_matches('-').to_string();
            s = format!("{}000{}", if neg { "-" } else { "" }, t);
        }
        2 => {
            s = format!(" {}", s);
            exact = None;
        }
        3 => {
            s = format!("{}.0", s);
            exact = None;
        }
        4 => {
            s = format!("{}e3", s);
            exact = None;
        }
        5 => {
            s = format!("0x{}", s);
            exact = None;
        }
        6 => {
            s = String::new();
            exact = None;
        }
        7 => {
            s = "-".into();
            exact = None;
        }
        8 => {
            s = format!("{}_000", s);
            exact = None;
        }
        _ => {}
    }
    (s, exact)
}

// ------------------------------------------------------------------------------------------------ Int

fn int_range_ok(i: &NB) -> bool {
    let lo = -(pow2(64));
    let hi = (pow2(64)) - 1;
    *i >= lo && *i <= hi
}

fn int_value(x: &Int) -> NB {
    x.to_str().parse::<NB>().unwrap_or_else(|_| NB::from(i128::MIN)) // to_str prints the raw i128
}

/// all single-value checks on an Int whose exact value is `exact`
fn check_int(ctx: &mut Ctx, x: &Int, exact: &NB, origin: &str) {
    ctx.eval();
    ctx.bucket("int.value");
    if exact.abs() > NB::from(23) {
        ctx.nontrivial_bytes("int", exact.to_string().as_bytes());
    }
    let r = guard(|| {
        let mut bad: Vec<(String, String)> = vec![];
        let got = int_value(x);
        if got != *exact {
            bad.push((format!("Int.{}/wrong-value", origin), got.to_string()));
        }
        if !int_range_ok(&got) {
            bad.push((format!("Int.{}/out-of-range", origin), got.to_string()));
            return bad;
        }
        let cls = if *exact == -(pow2(64)) { "-2^64" } else { "in-range" };
        if x.is_positive() != (*exact >= NB::zero()) {
            bad.push(("Int.is_positive/wrong".into(), String::new()));
        }
        match x.as_positive() {
            Some(v) => {
                if *exact < NB::zero() || nb(v.into()) != *exact {
                    bad.push(("Int.as_positive/wrong".into(), u64::from(v).to_string()));
                }
            }
            None => {
                if *exact >= NB::zero() {
                    bad.push(("Int.as_positive/none-for-nonnegative".into(), String::new()));
                }
            }
        }
        match x.as_negative() {
            Some(v) => {
                if *exact >= NB::zero() || nb(v.into()) != exact.abs() {
                    bad.push((format!("Int.as_negative/wrong/{}", cls), u64::from(v).to_string()));
                }
            }
            None => {
                if *exact < NB::zero() && exact.abs() <= max64() {
                    bad.push(("Int.as_negative/none-for-negative".into(), String::new()));
                }
            }
        }
        let fits32 = *exact >= NB::from(i32::MIN) && *exact <= NB::from(i32::MAX);
        match x.as_i32_or_nothing() {
            Some(v) => {
                if NB::from(v) != *exact {
                    bad.push(("Int.as_i32_or_nothing/wrong".into(), v.to_string()));
                }
            }
            None => {
                if fits32 {
                    bad.push(("Int.as_i32_or_nothing/none-in-range".into(), String::new()));
                }
            }
        }
        match x.as_i32_or_fail() {
            Ok(v) => {
                if NB::from(v) != *exact {
                    bad.push(("Int.as_i32_or_fail/wrong".into(), v.to_string()));
                }
            }
            Err(_) => {
                if fits32 {
                    bad.push(("Int.as_i32_or_fail/error-in-range".into(), String::new()));
                }
            }
        }
        // decimal string round trip
        let s = x.to_str();
        match Int::from_str(&s) {
            Ok(y) => {
                if int_value(&y) != *exact {
                    bad.push((format!("Int.from_str(to_str)/different/{}", cls), int_value(&y).to_string()));
                }
            }
            Err(_) => bad.push((format!("Int.from_str(to_str)/error/{}", cls), s.clone())),
        }
        // JSON
        match x.to_json() {
            Ok(j) => match Int::from_json(&j) {
                Ok(y) => {
                    if int_value(&y) != *exact {
                        bad.push((format!("Int.from_json(to_json)/different/{}", cls), j));
                    }
                }
                Err(_) => bad.push((format!("Int.from_json(to_json)/error/{}", cls), j)),
            },
            Err(_) => bad.push(("Int.to_json/error".into(), String::new())),
        }
        bad
    });
    report(ctx, r, "Int.single", json!({"value": exact.to_string(), "origin": origin}));
    // CBOR separately: the checked build is known to panic inside cbor_event for some values
    let r = guard(|| {
        let mut bad: Vec<(String, String)> = vec![];
        let bytes = x.to_bytes();
        let want = cbor::to_vec(&nb_to_cbor_int(exact));
        if bytes != want {
            bad.push(("Int.to_bytes/wrong-encoding".into(), format!("{} want {}", hx(&bytes), hx(&want))));
        }
        match Int::from_bytes(want.clone()) {
            Ok(y) => {
                if int_value(&y) != *exact {
                    bad.push(("Int.from_bytes/different".into(), int_value(&y).to_string()));
                }
            }
            Err(_) => bad.push(("Int.from_bytes/error".into(), hx(&want))),
        }
        bad
    });
    report(ctx, r, "Int.cbor", json!({"value": exact.to_string(), "origin": origin}));
}

fn report(ctx: &mut Ctx, r: Result<Vec<(String, String)>, PanicRec>, what: &str, detail: serde_json::Value) {
    match r {
        Ok(bad) => {
            for (sig, got) in bad {
                let mut d = detail.clone();
                d["got"] = json!(got);
                ctx.violation(&sig, d);
            }
        }
        Err(p) => {
            let mut d = detail.clone();
            d["loc"] = json!(p.loc);
            d["msg"] = json!(p.msg);
            d["entry"] = json!(what);
            ctx.violation(&p.sig(), d);
        }
    }
}

fn nb_to_cbor_int(v: &NB) -> Item {
    use num_traits::ToPrimitive;
    if *v >= NB::zero() {
        Item::u(v.to_u64().unwrap())
    } else {
        Item::n((-v - NB::one()).to_u64().unwrap())
    }
}

fn int_lattice(ctx: &mut Ctx, _r: &mut Rng, i: u64) {
    let l = LATTICE.len() as u64;
    if i < l {
        let a = LATTICE[i as usize];
        let x = guard(|| Int::new(&BigNum::from(a)));
        if let Ok(x) = x {
            check_int(ctx, &x, &nb(a), "new");
        }
    } else if i < 2 * l {
        let a = LATTICE[(i - l) as usize];
        let x = guard(|| Int::new_negative(&BigNum::from(a)));
        if let Ok(x) = x {
            check_int(ctx, &x, &(-nb(a)), "new_negative");
        }
    } else {
        let k = i - 2 * l;
        let v: i32 = [0, 1, -1, i32::MAX, i32::MIN, 23, -24, -25][k as usize];
        let x = Int::new_i32(v);
        check_int(ctx, &x, &NB::from(v), "new_i32");
    }
}

fn int_random(ctx: &mut Ctx, r: &mut Rng, _i: u64) {
    let a = r.wide_u64();
    match r.below(4) {
        0 => {
            let x = Int::new(&BigNum::from(a));
            check_int(ctx, &x, &nb(a), "new");
        }
        1 => {
            let x = Int::new_negative(&BigNum::from(a));
            check_int(ctx, &x, &(-nb(a)), "new_negative");
        }
        2 => {
            let v = r.u32() as i32;
            check_int(ctx, &Int::new_i32(v), &NB::from(v), "new_i32");
        }
        _ => {
            // from CBOR: any nint / uint head, any width
            let neg = r.bool();
            let w = *r.pick(&[0u8, 1, 2, 4, 8]);
            let it = if neg { Item::n(a) } else { Item::u(a) };
            let w = w.max(cbor::min_width(a));
            let bytes = cbor::to_vec(&it.with_width(w));
            let exact = if neg { -nb(a) - NB::one() } else { nb(a) };
            match guard(|| Int::from_bytes(bytes.clone())) {
                Ok(Ok(x)) => check_int(ctx, &x, &exact, "from_bytes"),
                Ok(Err(_)) => {
                    ctx.eval();
                    if w == cbor::min_width(a) {
                        ctx.violation("Int.from_bytes/error-on-valid-int", json!({"bytes": hx(&bytes)}));
                    }
                }
                Err(p) => ctx.violation(&format!("Int.from_bytes/{}", p.sig()), json!({"bytes": hx(&bytes), "msg": p.msg})),
            }
        }
    }
}

fn int_str(ctx: &mut Ctx, r: &mut Rng, _i: u64) {
    ctx.eval();
    let (s, exact) = gen_decimal(r, true);
    ctx.nontrivial_bytes("intstr", s.as_bytes());
    match guard(|| Int::from_str(&s)) {
        Ok(Ok(x)) => {
            let got = int_value(&x);
            if !int_range_ok(&got) {
                let cls = if s.trim_start_matches('-').len() >= 39 { "i128-extreme" } else { "other" };
                ctx.violation(&format!("Int.from_str/out-of-range/{}", cls), json!({"input": s, "got": got.to_string()}));
            } else if exact.as_ref() != Some(&got) {
                ctx.violation("Int.from_str/accepted-different-number", json!({"input": s, "got": got.to_string()}));
            }
        }
        Ok(Err(_)) => {
            if let Some(e) = &exact {
                if int_range_ok(e) && is_plain_decimal(&s) {
                    let cls = if *e == -(pow2(64)) { "-2^64" } else { "in-range" };
                    ctx.violation(&format!("Int.from_str/spurious-error/{}", cls), json!({"input": s}));
                }
            }
        }
        Err(p) => ctx.violation(&format!("Int.from_str/{}", p.sig()), json!({"input": s, "msg": p.msg})),
    }
    // the JSON form of an Int is its decimal text: the reader is one more way to obtain an Int, and is held to
    // the same range and exactness
    let j = serde_json::to_string(&s).unwrap_or_default();
    match guard(|| Int::from_json(&j)) {
        Ok(Ok(x)) => {
            let got = int_value(&x);
            if !int_range_ok(&got) {
                ctx.violation("Int.from_json/out-of-range", json!({"input": j, "got": got.to_string()}));
            } else if exact.as_ref() != Some(&got) {
                ctx.violation("Int.from_json/accepted-different-number", json!({"input": j, "got": got.to_string()}));
            } else {
                ctx.bucket("Int.from_json.ok");
            }
        }
        Ok(Err(_)) => {
            if let Some(e) = &exact {
                if int_range_ok(e) && is_plain_decimal(&s) {
                    ctx.violation("Int.from_json/spurious-error", json!({"input": j}));
                }
            }
        }
        Err(p) => ctx.violation(&format!("Int.from_json/{}", p.sig()), json!({"input": j, "msg": p.msg})),
    }
}

// ------------------------------------------------------------------------------------------------ BigInt

fn gen_nb(r: &mut Rng) -> NB {
    let mag: NB = match r.below(12) {
        0 => NB::from(r.wide_u64()),
        1 => pow2(64),
        2 => (pow2(64)) - 1,
        3 => (pow2(64)) + 1,
        4 => {
            // chunk boundaries: 63, 64, 65, 127, 128, 129 bytes
            let n = *r.pick(&[63usize, 64, 65, 127, 128, 129, 192, 193]);
            let mut b = r.bytes(n);
            b[0] |= 1;
            NB::from_bytes_be(num_bigint::Sign::Plus, &b)
        }
        5 => pow2(r.below(2000) as usize),
        6 => (pow2(r.below(2000) as usize)) - 1,
        7 => NB::zero(),
        _ => {
            let n = 1 + r.usize(250);
            NB::from_bytes_be(num_bigint::Sign::Plus, &r.bytes(n))
        }
    };
    if r.bool() {
        -mag
    } else {
        mag
    }
}

/// our own encoding of a big integer as the ledger's `int / big_uint / big_nint`
fn nb_to_cbor(v: &NB, force_tag: bool, chunk: usize, indef_small: bool) -> Item {
    let lo = -(pow2(64));
    let hi = (pow2(64)) - 1;
    if !force_tag && *v >= lo && *v <= hi {
        return nb_to_cbor_int(v);
    }
    let (tag, mag) = if *v >= NB::zero() { (2, v.clone()) } else { (3, -v - NB::one()) };
    let (_, mut bytes) = mag.to_bytes_be();
    if mag.is_zero() {
        bytes = vec![];
    }
    let mut it = Item::bytes(&bytes);
    if bytes.len() > chunk || indef_small {
        it.indef = true;
        it.w = 0;
        it.chunks = bytes.chunks(chunk.max(1)).map(|c| (c.len(), cbor::min_width(c.len() as u64))).collect();
    }
    Item::tag(tag, it)
}

fn cbor_to_nb(it: &Item) -> Option<NB> {
    match &it.v {
        V::U(n) => Some(nb(*n)),
        V::N(n) => Some(-nb(*n) - NB::one()),
        V::Tag(2, inner) => inner.as_bytes().map(|b| NB::from_bytes_be(num_bigint::Sign::Plus, b)),
        V::Tag(3, inner) => inner.as_bytes().map(|b| -NB::from_bytes_be(num_bigint::Sign::Plus, b) - NB::one()),
        _ => None,
    }
}

fn bi(v: &NB) -> Option<BigInt> {
    BigInt::from_str(&v.to_string()).ok()
}

fn bi_val(x: &BigInt) -> NB {
    x.to_str().parse::<NB>().unwrap()
}

fn bigint_random(ctx: &mut Ctx, r: &mut Rng, _i: u64) {
    ctx.eval();
    ctx.bucket("bigint.value");
    let a = gen_nb(r);
    let b = match r.below(4) {
        0 => a.clone(),
        1 => -a.clone(),
        _ => gen_nb(r),
    };
    let e = r.below(9) as u32;
    ctx.nontrivial_bytes("bigint", format!("{}|{}", a, b).as_bytes());
    if a.bits() > 100 {
        ctx.sample("bigint-pair", || json!({"a": a.to_string(), "b": b.to_string(), "exp": e}));
    }
    let res = guard(|| {
        let mut bad: Vec<(String, String)> = vec![];
        let (x, y) = match (bi(&a), bi(&b)) {
            (Some(x), Some(y)) => (x, y),
            _ => {
                bad.push(("BigInt.from_str/error-on-decimal".into(), String::new()));
                return bad;
            }
        };
        if x.to_str() != a.to_string() {
            bad.push(("BigInt.to_str/wrong".into(), x.to_str()));
        }
        let chk = |name: &str, got: BigInt, want: NB, bad: &mut Vec<(String, String)>| {
            if bi_val(&got) != want {
                bad.push((format!("BigInt.{}/wrong", name), got.to_str()));
            }
        };
        chk("add", x.add(&y), &a + &b, &mut bad);
        chk("sub", x.sub(&y), &a - &b, &mut bad);
        chk("mul", x.mul(&y), &a * &b, &mut bad);
        chk("abs", x.abs(), a.abs(), &mut bad);
        chk("increment", x.increment(), &a + NB::one(), &mut bad);
        if a.bits() <= 600 {
            let mut p = NB::one();
            for _ in 0..e {
                p = &p * &a;
            }
            chk("pow", x.pow(e), p, &mut bad);
        }
        if x.is_zero() != a.is_zero() {
            bad.push(("BigInt.is_zero/wrong".into(), String::new()));
        }
        if !b.is_zero() {
            // floor: a = q*b + rem, rem has the sign of b (or zero), |rem| < |b|
            let q = bi_val(&x.div_floor(&y));
            let rem = &a - &q * &b;
            let ok = rem.abs() < b.abs() && (rem.is_zero() || rem.is_negative() == b.is_negative());
            if !ok {
                bad.push(("BigInt.div_floor/wrong".into(), q.to_string()));
            }
            // ceil: a = q*b - rem', rem' = q*b - a has the sign of b (or zero), |rem'| < |b|
            let qc = bi_val(&x.div_ceil(&y));
            let remc = &qc * &b - &a;
            let okc = remc.abs() < b.abs() && (remc.is_zero() || remc.is_negative() == b.is_negative());
            if !okc {
                bad.push(("BigInt.div_ceil/wrong".into(), qc.to_string()));
            }
        }
        match x.as_u64() {
            Some(v) => {
                if nb(v.into()) != a {
                    bad.push(("BigInt.as_u64/wrong".into(), u64::from(v).to_string()));
                }
            }
            None => {
                if a >= NB::zero() && a <= max64() {
                    bad.push(("BigInt.as_u64/none-in-range".into(), String::new()));
                }
            }
        }
        match x.as_int() {
            Some(v) => {
                if int_value(&v) != a {
                    bad.push(("BigInt.as_int/wrong".into(), v.to_str()));
                }
            }
            None => {
                if a.abs() <= max64() {
                    bad.push(("BigInt.as_int/none-in-range".into(), String::new()));
                }
            }
        }
        // CBOR: emitted form must denote exactly a, in the ledger's form, and decode back
        let bytes = x.to_bytes();
        match cbor::parse(&bytes) {
            Ok(it) => {
                if cbor_to_nb(&it) != Some(a.clone()) {
                    bad.push(("BigInt.to_bytes/denotes-different-number".into(), hx(&bytes)));
                }
                let want = cbor::to_vec(&nb_to_cbor(&a, false, 64, false));
                if bytes != want {
                    bad.push(("BigInt.to_bytes/unexpected-form".into(), format!("{} want {}", hx(&bytes), hx(&want))));
                }
            }
            Err(e) => bad.push(("BigInt.to_bytes/malformed".into(), format!("{} {:?}", hx(&bytes), e))),
        }
        match BigInt::from_bytes(bytes.clone()) {
            Ok(z) => {
                if bi_val(&z) != a {
                    bad.push(("BigInt.from_bytes(to_bytes)/different".into(), z.to_str()));
                }
            }
            Err(_) => bad.push(("BigInt.from_bytes(to_bytes)/error".into(), hx(&bytes))),
        }
        match x.to_json() {
            Ok(j) => match BigInt::from_json(&j) {
                Ok(z) => {
                    if bi_val(&z) != a {
                        bad.push(("BigInt.from_json(to_json)/different".into(), j));
                    }
                }
                Err(_) => bad.push(("BigInt.from_json(to_json)/error".into(), j)),
            },
            Err(_) => bad.push(("BigInt.to_json/error".into(), String::new())),
        }
        bad
    });
    report(ctx, res, "BigInt.ops", json!({"a": a.to_string(), "b": b.to_string(), "exp": e}));
}

/// alternative encodings written by our own writer: whatever is accepted must denote the number
fn bigint_cbor_forms(ctx: &mut Ctx, r: &mut Rng, _i: u64) {
    ctx.eval();
    let a = gen_nb(r);
    let force_tag = r.bool();
    let chunk = *r.pick(&[1usize, 7, 32, 63, 64]);
    let indef_small = r.chance(1, 4);
    let mut it = nb_to_cbor(&a, force_tag, chunk, indef_small);
    // optional leading zero bytes in the magnitude
    if let V::Tag(_, inner) = &mut it.v {
        if r.chance(1, 5) && !inner.indef {
            if let V::B(b) = &mut inner.v {
                b.insert(0, 0);
            }
            inner.w = cbor::min_width(inner.as_bytes().unwrap().len() as u64);
        }
    }
    let bytes = cbor::to_vec(&it);
    ctx.nontrivial_bytes("bigintform", &bytes);
    match guard(|| BigInt::from_bytes(bytes.clone())) {
        Ok(Ok(z)) => {
            ctx.bucket("bigint.form.accepted");
            if bi_val(&z) != a {
                ctx.violation("BigInt.from_bytes/accepted-different-number", json!({"bytes": hx(&bytes), "want": a.to_string(), "got": z.to_str()}));
            }
        }
        Ok(Err(_)) => ctx.bucket("bigint.form.rejected"),
        Err(p) => ctx.violation(&format!("BigInt.from_bytes/{}", p.sig()), json!({"bytes": hx(&bytes), "msg": p.msg})),
    }
}

// ------------------------------------------------------------------------------------------------ Value

type AssetModel = BTreeMap<(u8, Vec<u8>), u64>;

#[derive(Clone, Debug)]
struct VModel {
    coin: u64,
    assets: AssetModel,
    /// representation quirks: Some(empty multiasset) / policy with empty Assets / zero quantities
    empty_ma: bool,
}

pub fn policy(i: u8) -> ScriptHash {
    ScriptHash::from_bytes(vec![i; 28]).unwrap()
}

fn gen_amount(r: &mut Rng) -> u64 {
    match r.below(6) {
        0 => u64::MAX,
        1 => u64::MAX - r.below(3),
        2 => 1u64 << 63,
        3 => r.below(4),
        _ => r.wide_u64(),
    }
}

fn gen_vmodel(r: &mut Rng, names: &[Vec<u8>]) -> VModel {
    let coin = gen_amount(r);
    let mut assets = AssetModel::new();
    let n = match r.below(5) {
        0 => 0,
        1 => 1,
        _ => r.below(6),
    };
    for _ in 0..n {
        let p = r.below(3) as u8;
        let name = r.pick(names).clone();
        let q = gen_amount(r);
        assets.insert((p, name), q);
    }
    VModel { coin, assets, empty_ma: r.chance(1, 6) }
}

fn build_value(m: &VModel) -> Value {
    let mut ma = MultiAsset::new();
    for ((p, name), q) in &m.assets {
        ma.set_asset(&policy(*p), &AssetName::new(name.clone()).unwrap(), &BigNum::from(*q));
    }
    if m.assets.is_empty() && !m.empty_ma {
        Value::new(&BigNum::from(m.coin))
    } else {
        let mut v = Value::new(&BigNum::from(m.coin));
        v.set_multiasset(&ma);
        v
    }
}

/// semantic normal form read back through public getters: zeros dropped
fn read_value(v: &Value) -> (u64, AssetModel) {
    let mut out = AssetModel::new();
    if let Some(ma) = v.multiasset() {
        let pols = ma.keys();
        for i in 0..pols.len() {
            let p = pols.get(i);
            let assets = ma.get(&p).unwrap();
            let names = assets.keys();
            for j in 0..names.len() {
                let n = names.get(j);
                let q: u64 = assets.get(&n).unwrap().into();
                if q != 0 {
                    out.insert((p.to_bytes()[0], n.name()), q);
                }
            }
        }
    }
    (v.coin().into(), out)
}

fn nz(a: &AssetModel) -> AssetModel {
    a.iter().filter(|(_, q)| **q != 0).map(|(k, v)| (k.clone(), *v)).collect()
}

fn value_random(ctx: &mut Ctx, r: &mut Rng, _i: u64) {
    ctx.eval();
    ctx.bucket("value.triple");
    let names: Vec<Vec<u8>> = vec![vec![], vec![0x41], vec![0x42; 32], vec![0x43, 0x44]];
    let ma = gen_vmodel(r, &names);
    let mut mb = gen_vmodel(r, &names);
    let mut mc = gen_vmodel(r, &names);
    // steer towards overlapping keys and sums near the limit
    if r.chance(1, 3) {
        for (k, q) in &ma.assets {
            if r.bool() {
                mb.assets.insert(k.clone(), match r.below(3) { 0 => u64::MAX - q, 1 => (u64::MAX - q).wrapping_add(1), _ => *q });
            }
        }
    }
    if r.chance(1, 4) {
        mc.coin = r.below(100);
        mc.assets.clear();
    }
    if !ma.assets.is_empty() || !mb.assets.is_empty() {
        ctx.nontrivial_bytes("value", format!("{:?}{:?}{:?}", ma, mb, mc).as_bytes());
    }
    let detail = json!({"a": format!("{:?}", ma), "b": format!("{:?}", mb), "c": format!("{:?}", mc)});
    if ma.assets.len() > 1 && mb.assets.len() > 1 {
        ctx.sample("value-triple", || detail.clone());
    }
    let res = guard(|| {
        let mut bad: Vec<(String, String)> = vec![];
        let (a, b, c) = (build_value(&ma), build_value(&mb), build_value(&mc));
        // ---- checked_add exact
        let exact_add = |x: &VModel, y: &VModel| -> Option<(u64, AssetModel)> {
            let coin = x.coin.checked_add(y.coin)?;
            let mut out = x.assets.clone();
            for (k, q) in &y.assets {
                let e = out.entry(k.clone()).or_insert(0);
                *e = e.checked_add(*q)?;
            }
            Some((coin, nz(&out)))
        };
        let ab = a.checked_add(&b);
        let want_ab = exact_add(&ma, &mb);
        match (&ab, &want_ab) {
            (Ok(v), Some(w)) => {
                if read_value(v) != *w {
                    bad.push(("Value.checked_add/wrong".into(), format!("{:?}", read_value(v))));
                }
            }
            (Ok(v), None) => bad.push(("Value.checked_add/overflow-not-reported".into(), format!("{:?}", read_value(v)))),
            (Err(_), Some(_)) => bad.push(("Value.checked_add/spurious-error".into(), String::new())),
            (Err(_), None) => {}
        }
        // commutativity
        let ba = b.checked_add(&a);
        match (&ab, &ba) {
            (Ok(x), Ok(y)) => {
                if read_value(x) != read_value(y) {
                    bad.push(("Value.checked_add/not-commutative".into(), String::new()));
                }
            }
            (Err(_), Err(_)) => {}
            _ => bad.push(("Value.checked_add/not-commutative-error".into(), String::new())),
        }
        // associativity whenever all partial sums fit
        if let (Ok(ab_v), Ok(bc_v)) = (&ab, b.checked_add(&c)) {
            if let (Ok(l), Ok(rr)) = (ab_v.checked_add(&c), a.checked_add(&bc_v)) {
                if read_value(&l) != read_value(&rr) {
                    bad.push(("Value.checked_add/not-associative".into(), String::new()));
                }
            }
        }
        // (a+b)-b == a
        if let Ok(ab_v) = &ab {
            match ab_v.checked_sub(&b) {
                Ok(d) => {
                    if read_value(&d) != (ma.coin, nz(&ma.assets)) {
                        bad.push(("Value.(a+b)-b/not-a".into(), format!("{:?}", read_value(&d))));
                    }
                }
                Err(_) => bad.push(("Value.(a+b)-b/error".into(), String::new())),
            }
        }
        // ---- checked_sub exact-or-error
        let underflow_asset = mb.assets.iter().any(|(k, q)| *q > *ma.assets.get(k).unwrap_or(&0));
        match a.checked_sub(&b) {
            Ok(d) => {
                if ma.coin < mb.coin {
                    bad.push(("Value.checked_sub/coin-underflow-not-reported".into(), String::new()));
                } else if underflow_asset {
                    bad.push(("Value.checked_sub/asset-underflow-saturates-silently".into(), format!("{:?}", read_value(&d))));
                } else {
                    let mut w = ma.assets.clone();
                    for (k, q) in &mb.assets {
                        if *q != 0 {
                            *w.get_mut(k).unwrap() -= q;
                        }
                    }
                    if read_value(&d) != (ma.coin - mb.coin, nz(&w)) {
                        bad.push(("Value.checked_sub/wrong".into(), format!("{:?}", read_value(&d))));
                    }
                }
            }
            Err(_) => {
                if ma.coin >= mb.coin && !underflow_asset {
                    bad.push(("Value.checked_sub/spurious-error".into(), String::new()));
                }
            }
        }
        // ---- clamped_sub: documented saturating
        {
            let d = a.clamped_sub(&b);
            let mut w = ma.assets.clone();
            for (k, q) in &mb.assets {
                if let Some(x) = w.get_mut(k) {
                    *x = x.saturating_sub(*q);
                }
            }
            if read_value(&d) != (ma.coin.saturating_sub(mb.coin), nz(&w)) {
                bad.push(("Value.clamped_sub/wrong".into(), format!("{:?}", read_value(&d))));
            }
            // MultiAsset::sub, same model
            if let (Some(x), Some(y)) = (a.multiasset(), b.multiasset()) {
                let s = Value::new_with_assets(&BigNum::zero(), &x.sub(&y));
                if read_value(&s).1 != nz(&w) {
                    bad.push(("MultiAsset.sub/wrong".into(), format!("{:?}", read_value(&s))));
                }
            }
        }
        // ---- compare agrees with component-wise comparison
        {
            let keys: std::collections::BTreeSet<_> = ma.assets.keys().chain(mb.assets.keys()).cloned().collect();
            let mut le = ma.coin <= mb.coin;
            let mut ge = ma.coin >= mb.coin;
            for k in keys {
                let (x, y) = (*ma.assets.get(&k).unwrap_or(&0), *mb.assets.get(&k).unwrap_or(&0));
                le &= x <= y;
                ge &= x >= y;
            }
            let want = match (le, ge) {
                (true, true) => Some(0),
                (true, false) => Some(-1),
                (false, true) => Some(1),
                _ => None,
            };
            let got = a.compare(&b);
            if got != want {
                bad.push(("Value.compare/disagrees-with-componentwise".into(), format!("{:?} want {:?}", got, want)));
            }
        }
        // is_zero
        if a.is_zero() != (ma.coin == 0 && ma.assets.is_empty()) {
            // representation with zero-quantity assets only: semantic zero
            let cls = if ma.coin == 0 && nz(&ma.assets).is_empty() { "zero-quantity-assets" } else { "other" };
            bad.push((format!("Value.is_zero/wrong/{}", cls), String::new()));
        }
        // CBOR round trip keeps the amounts
        {
            let bytes = a.to_bytes();
            match Value::from_bytes(bytes.clone()) {
                Ok(v) => {
                    if read_value(&v) != (ma.coin, nz(&ma.assets)) {
                        bad.push(("Value.from_bytes(to_bytes)/amounts-differ".into(), hx(&bytes)));
                    }
                }
                Err(_) => bad.push(("Value.from_bytes(to_bytes)/error".into(), hx(&bytes))),
            }
        }
        bad
    });
    report(ctx, res, "Value.ops", detail);
}

// ------------------------------------------------------------------------------------------------ Mint / MintBuilder

fn mint_case(ctx: &mut Ctx, r: &mut Rng, _i: u64) {
    ctx.eval();
    ctx.bucket("mint.case");
    // a sequence of (policy, name, signed amount) operations
    let n = 1 + r.usize(5);
    let mut ops: Vec<(u8, Vec<u8>, bool, u64, bool)> = vec![]; // policy, name, negative, magnitude, set?
    for _ in 0..n {
        let mag = match r.below(5) {
            0 => u64::MAX,
            1 => 1u64 << 63,
            2 => (1u64 << 63) - 1,
            3 => 1 + r.below(10),
            _ => r.wide_u64().max(1),
        };
        ops.push((r.below(2) as u8, vec![0x61 + r.below(2) as u8], r.bool(), mag, r.chance(1, 4)));
    }
    ctx.nontrivial_bytes("mint", format!("{:?}", ops).as_bytes());
    let detail = json!({"ops": format!("{:?}", ops)});
    if ops.len() > 2 {
        ctx.sample("mint-ops", || detail.clone());
    }
    // ---- MintBuilder: add_asset accumulates, set_asset replaces; build must be exact or error
    let res = guard(|| {
        let mut bad: Vec<(String, String)> = vec![];
        let mut mb = MintBuilder::new();
        let mut model: BTreeMap<(u8, Vec<u8>), NB> = BTreeMap::new();
        let mut any_err = false;
        let plutus_p1 = ops.len() % 2 == 1;
        let plutus_policy = PlutusScript::new_v2(vec![0x4d, 0x01, 0x00, 0x00, 0x22, 0x33]);
        for (p, name, neg, mag, set) in &ops {
            // a distinct native script per policy index (timelock with different slot)
            let script = NativeScript::new_timelock_start(&TimelockStart::new_timelockstart(&BigNum::from(*p as u64 + 1)));
            // policy 1 is a Plutus policy in every other case: both witness kinds go through the same arithmetic
            let wit = if *p == 1 && plutus_p1 {
                let red = Redeemer::new(&RedeemerTag::new_mint(), &BigNum::from(0u64), &PlutusData::new_integer(&BigInt::from_str("1").unwrap()), &ExUnits::new(&BigNum::from(1u64), &BigNum::from(1u64)));
                MintWitness::new_plutus_script(&PlutusScriptSource::new(&plutus_policy), &red)
            } else {
                MintWitness::new_native_script(&NativeScriptSource::new(&script))
            };
            let amt = if *neg { Int::new_negative(&BigNum::from(*mag)) } else { Int::new(&BigNum::from(*mag)) };
            let an = AssetName::new(name.clone()).unwrap();
            let exact_amt = if *neg { -nb(*mag) } else { nb(*mag) };
            let r1 = if *set { mb.set_asset(&wit, &an, &amt) } else { mb.add_asset(&wit, &an, &amt) };
            match r1 {
                Ok(()) => {
                    let e = model.entry((*p, name.clone())).or_insert_with(NB::zero);
                    if *set {
                        *e = exact_amt;
                    } else {
                        *e = &*e + exact_amt;
                    }
                }
                Err(_) => {
                    any_err = true;
                    break;
                }
            }
        }
        if !any_err {
            // whatever the mint builder accepted is what the transaction builder balances with: its totals
            // return (a value or an error), whether or not build() would accept the amounts
            let cfg = TransactionBuilderConfigBuilder::new()
                .fee_algo(&LinearFee::new(&BigNum::from(44u64), &BigNum::from(155_381u64)))
                .pool_deposit(&BigNum::from(500_000_000u64))
                .key_deposit(&BigNum::from(2_000_000u64))
                .max_value_size(5000)
                .max_tx_size(16384)
                .coins_per_utxo_byte(&BigNum::from(4310u64))
                .build()
                .unwrap();
            let mut tb = TransactionBuilder::new(&cfg);
            tb.set_mint_builder(&mb);
            if std::panic::catch_unwind(std::panic::AssertUnwindSafe(|| (tb.get_total_input().is_ok(), tb.get_total_output().is_ok()))).is_err() {
                bad.push(("MintBuilder->TransactionBuilder.get_total_input/output/panics".into(), String::new()));
            }
            match mb.build() {
                Ok(mint) => {
                    // read back every entry
                    let mut got: BTreeMap<(u8, Vec<u8>), NB> = BTreeMap::new();
                    let pols = mint.keys();
                    for i in 0..pols.len() {
                        let pid = pols.get(i);
                        let script_slot = (1..=2u8).find(|s| {
                            NativeScript::new_timelock_start(&TimelockStart::new_timelockstart(&BigNum::from(*s as u64))).hash() == pid
                        });
                        let pidx = script_slot.map(|s| s - 1).unwrap_or(if pid == plutus_policy.hash() { 1 } else { 255 });
                        let mas = mint.get(&pid).unwrap();
                        for k in 0..mas.len() {
                            let ma = mas.get(k).unwrap();
                            let names = ma.keys();
                            for j in 0..names.len() {
                                let nm = names.get(j);
                                let v = int_value(&ma.get(&nm).unwrap());
                                *got.entry((pidx, nm.name())).or_insert_with(NB::zero) += v;
                            }
                        }
                    }
                    let want: BTreeMap<_, _> = model.iter().filter(|(_, v)| !v.is_zero()).map(|(k, v)| (k.clone(), v.clone())).collect();
                    let got_nz: BTreeMap<_, _> = got.iter().filter(|(_, v)| !v.is_zero()).map(|(k, v)| (k.clone(), v.clone())).collect();
                    let out_of_range = want.values().any(|v| !int_range_ok(v));
                    if got_nz != want {
                        bad.push(("MintBuilder.build/amounts-differ-from-exact-sum".into(), format!("{:?}", got_nz)));
                    } else if out_of_range {
                        bad.push(("MintBuilder.build/amount-outside-int-range".into(), format!("{:?}", got_nz)));
                    }
                    // what the builder built feeds the balance of the transaction builder: the split into
                    // minted and burned bundles returns (never panics) and is exact
                    let pos = mint.as_positive_multiasset();
                    let negm = mint.as_negative_multiasset();
                    let sum_side = |ma: &MultiAsset| -> NB {
                        let mut t = NB::zero();
                        let pols = ma.keys();
                        for i in 0..pols.len() {
                            if let Some(a) = ma.get(&pols.get(i)) {
                                let names = a.keys();
                                for j in 0..names.len() {
                                    if let Some(q) = a.get(&names.get(j)) {
                                        t += nb(u64::from(q));
                                    }
                                }
                            }
                        }
                        t
                    };
                    let want_pos: NB = want.values().filter(|v| **v > NB::zero()).cloned().sum();
                    let want_neg: NB = want.values().filter(|v| **v < NB::zero()).map(|v| -v.clone()).sum();
                    if sum_side(&pos) != want_pos || sum_side(&negm) != want_neg {
                        bad.push(("MintBuilder.build().as_positive/negative_multiasset/differs-from-exact".into(), format!("{:?}", got_nz)));
                    }
                    // the emitted bytes must denote the same amounts
                    let bytes = mint.to_bytes();
                    if let Ok(it) = cbor::parse(&bytes) {
                        let mut enc: BTreeMap<(Vec<u8>, Vec<u8>), NB> = BTreeMap::new();
                        if let Some(m) = it.as_map() {
                            for (k, v) in m {
                                if let (Some(pk), Some(inner)) = (k.as_bytes(), v.as_map()) {
                                    for (nk, q) in inner {
                                        if let (Some(nn), Some(qi)) = (nk.as_bytes(), q.as_int()) {
                                            *enc.entry((pk.to_vec(), nn.to_vec())).or_insert_with(NB::zero) += NB::from(qi);
                                        }
                                    }
                                }
                            }
                        }
                        let sum_enc: NB = enc.values().cloned().sum();
                        let sum_got: NB = got.values().cloned().sum();
                        if sum_enc != sum_got {
                            bad.push(("Mint.to_bytes/encoded-amounts-differ-from-value".into(), hx(&bytes)));
                        }
                    } else {
                        bad.push(("Mint.to_bytes/malformed".into(), hx(&bytes)));
                    }
                }
                Err(_) => {}
            }
        }
        bad
    });
    report(ctx, res, "MintBuilder", detail.clone());

    // ---- Mint::as_positive/negative_multiasset on a mint with distinct policies
    let res = guard(|| {
        let mut bad: Vec<(String, String)> = vec![];
        let mut per_policy: BTreeMap<u8, BTreeMap<Vec<u8>, NB>> = BTreeMap::new();
        for (p, name, neg, mag, _) in &ops {
            per_policy.entry(*p).or_default().insert(name.clone(), if *neg { -nb(*mag) } else { nb(*mag) });
        }
        let mut mint = Mint::new();
        let mut refused: Vec<(u8, Vec<u8>)> = vec![];
        for (p, assets) in &per_policy {
            let mut ma = MintAssets::new();
            for (n, v) in assets {
                let amt = if v.is_negative() {
                    Int::new_negative(&BigNum::from_str(&v.abs().to_string()).unwrap())
                } else {
                    Int::new(&BigNum::from_str(&v.to_string()).unwrap())
                };
                if ma.insert(&AssetName::new(n.clone()).unwrap(), &amt).is_err() {
                    // an explicit refusal of a quantity a mint field cannot hold (outside int64) is an error
                    // reported, not a wrong number
                    if *v >= -nb(1u64 << 63) && *v < nb(1u64 << 63) {
                        bad.push(("MintAssets.insert/error-on-nonzero".into(), v.to_string()));
                    } else {
                        refused.push((*p, n.clone()));
                    }
                }
            }
            mint.insert(&policy(*p), &ma);
        }
        let pos = read_value(&Value::new_with_assets(&BigNum::zero(), &mint.as_positive_multiasset())).1;
        let neg = read_value(&Value::new_with_assets(&BigNum::zero(), &mint.as_negative_multiasset())).1;
        let mut want_pos = AssetModel::new();
        let mut want_neg = AssetModel::new();
        use num_traits::ToPrimitive;
        for (p, assets) in &per_policy {
            for (n, v) in assets {
                if refused.contains(&(*p, n.clone())) {
                    continue;
                }
                if v.is_positive() {
                    want_pos.insert((*p, n.clone()), v.to_u64().unwrap());
                } else if v.is_negative() {
                    want_neg.insert((*p, n.clone()), v.abs().to_u64().unwrap());
                }
            }
        }
        if pos != want_pos {
            bad.push(("Mint.as_positive_multiasset/wrong".into(), format!("{:?}", pos)));
        }
        if neg != want_neg {
            bad.push(("Mint.as_negative_multiasset/wrong".into(), format!("{:?}", neg)));
        }
        // zero quantity must be refused explicitly
        let mut z = MintAssets::new();
        if z.insert(&AssetName::new(vec![1]).unwrap(), &Int::new_i32(0)).is_ok() && z.len() != 0 {
            // accepted silently: not an arithmetic error, tolerated (C03 judges emitted zeros)
        }
        bad
    });
    report(ctx, res, "Mint.split", detail);
}
