//! C06 — the fee set by the builder is sufficient for the really signed transaction.
use super::bld::*;
use super::c05::{binit, ASSUMPTIONS};
use crate::fw::*;
use crate::scen::Focus;
use vkit::rng::Rng;

pub fn def() -> PropDef {
    PropDef {
        id: "C06",
        rule: "cases are seed-derived builder histories (scenario engine: parameters, key ring, UTxO table, operation list over the public TransactionBuilder API, balancing call, build_tx); judged: every history in which balancing and build_tx reported success, and every history in which balancing reported success with a fee of the builder's choice and build_tx then refused that fee as below its own minimum (a script data hash first computed after balancing excepted); the fee request may come before or after balancing; non-trivial = a transaction was built; distinct by hash of the built transaction bytes; the built transaction is signed with exactly the distinct required keys (ring keys; genuine signatures on 1/16 of the cases, fixed-content 64-byte signatures otherwise) and the Conway minimum fee is recomputed on the signed bytes",
        assumptions: ASSUMPTIONS,
        streams,
        floors: &[("outcome.built", 3_000), ("c06.fee-sufficient", 2_500), ("signed.with-bootstrap", 100), ("fee.set_min_fee", 50), ("c06.exact-fee-used", 20), ("feature.redeemers", 300), ("feature.native-scripts", 300)],
        init: Some(binit),
    }
}

fn streams() -> Vec<Stream> {
    vec![
        Stream { name: "scenarios", count: (30_000, 1_200_000), exhaustive: false, run: |c, r, _| scenario(c, r, Focus::default(), c06_monitor) },
        Stream { name: "scenarios-tuned-change", count: (24_000, 800_000), exhaustive: false, run: |c, r, _| scenario_tuned(c, r, Focus { coin_select: 3, ..Focus::default() }, c06_monitor) },
        Stream { name: "scenarios-witness-mix", count: (20_000, 600_000), exhaustive: false, run: mix },
    ]
}
fn mix(c: &mut Ctx, r: &mut Rng, _i: u64) {
    let f = Focus { byron: 8, scripts: 8, plutus: 8, refs: 8, overlap: 10, ..Focus::default() };
    scenario(c, r, f, c06_monitor)
}
