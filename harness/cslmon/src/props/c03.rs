//! C03 — emitted bytes conform to the Conway-era CDDL wire format.
//! Oracle: vkit::cbor (independent reader) + vkit::cddl (schema-directed validator + encoding discipline).

use crate::fw::*;
use crate::gen::registry::{registry, TypeEntry};
use crate::gen::typed::G;
use cardano_serialization_lib::*;
use serde_json::json;
use vkit::cddl::{validate, Opts};
use vkit::rng::{Rng, LATTICE};

pub fn def() -> PropDef {
    PropDef {
        id: "C03",
        rule: "typed values of every registry type that is a transaction or a part of one (same generators as C01: sized random, presence masks, width lattice) and every transaction produced by the builder scenarios are serialized by the library and validated byte-by-byte by an independent CBOR reader and a schema-directed Conway CDDL validator incl. the encoding discipline; non-trivial = encoding longer than 3 bytes; distinct by hash of (type, bytes)",
        assumptions: &[
            "the Conway CDDL is the harness's transcription (spec/conway_subset.cddl), most permissive published reading",
            "values containing pre-Conway constructs (update, certificate kinds 5/6) are validated with legacy_ok",
            "Block/Header types are not parts of a transaction and are not judged here",
        ],
        streams,
        floors: &[("validated.ok", 20_000), ("mask.TransactionBody", 60_000), ("builder.validated-ok", 3_000)],
        init: Some(init),
    }
}

struct St {
    reg: Vec<TypeEntry>,
}

fn init(ctx: &mut Ctx) {
    let reg: Vec<TypeEntry> = registry().into_iter().filter(|e| !e.cddl.is_empty()).collect();
    ctx.state = Some(Box::new(St { reg }));
}

fn reg(ctx: &Ctx) -> &'static Vec<TypeEntry> {
    let st = ctx.state.as_ref().unwrap().downcast_ref::<St>().unwrap();
    unsafe { &*(&st.reg as *const Vec<TypeEntry>) }
}

fn streams() -> Vec<Stream> {
    let nt = registry().iter().filter(|e| !e.cddl.is_empty()).count() as u64;
    vec![
        Stream { name: "random", count: (nt * 2_000, nt * 50_000), exhaustive: false, run: random },
        Stream { name: "random-large", count: (nt * 30, nt * 1_500), exhaustive: false, run: random_large },
        Stream { name: "body-masks", count: (1 << 18, 1 << 18), exhaustive: true, run: body_masks },
        Stream { name: "witness-masks", count: (64 * 8, 64 * 8), exhaustive: true, run: witness_masks },
        Stream { name: "wide-index", count: (nt * 20, nt * 400), exhaustive: false, run: wide_index },
        Stream { name: "builder-outputs", count: (30_000, 1_000_000), exhaustive: false, run: builder_outputs },
        Stream { name: "width-sweep", count: (nt * LATTICE.len() as u64 * 4, nt * LATTICE.len() as u64 * 40), exhaustive: false, run: width_sweep },
        Stream { name: "bounded-constructors", count: (60_000, 2_000_000), exhaustive: false, run: bounded_constructors },
    ]
}

/// validate bytes emitted for `type_name` against `rule`
pub fn check_bytes(ctx: &mut Ctx, type_name: &str, rule: &str, bytes: &[u8], opts: Opts, origin: &str) {
    ctx.eval();
    if bytes.len() > 3 {
        ctx.nontrivial_bytes(type_name, bytes);
    }
    match validate(rule, bytes, opts) {
        Err(e) => {
            ctx.violation("cbor/not-well-formed", json!({"type": type_name, "bytes": hx(bytes), "error": e, "origin": origin}));
        }
        Ok(findings) => {
            if findings.is_empty() {
                ctx.bucket("validated.ok");
                ctx.bucket(&format!("type.{}", type_name));
            }
            let mut seen: Vec<&str> = vec![];
            for f in &findings {
                if seen.contains(&f.clause) {
                    continue;
                }
                seen.push(f.clause);
                let suffix = if origin.ends_with("wide-index") && f.clause.ends_with("index-uint16") {
                    "/api-accepts-u32-index"
                } else if origin.ends_with("wide-index") && f.clause.ends_with("redeemer-index-uint32") {
                    "/api-accepts-u64-index"
                } else {
                    ""
                };
                ctx.violation(
                    &format!("cddl/{}{}", f.clause, suffix),
                    json!({"type": type_name, "bytes": hx(bytes), "path": f.path, "note": f.note, "rule": rule, "origin": origin, "legacy_ok": opts.legacy_ok}),
                );
            }
        }
    }
    if bytes.len() > 60 {
        ctx.sample(type_name, || json!({"type": type_name, "rule": rule, "bytes": hx(bytes)}));
    }
}

fn gen_and_check(ctx: &mut Ctx, r: &mut Rng, e: &TypeEntry, depth: u32, coll: usize, mask: Option<u64>, force: Option<u64>) {
    gen_and_check_w(ctx, r, e, depth, coll, mask, force, false)
}

fn gen_and_check_w(ctx: &mut Ctx, r: &mut Rng, e: &TypeEntry, depth: u32, coll: usize, mask: Option<u64>, force: Option<u64>, wide: bool) {
    let mut g = G::new(r, depth, coll);
    g.wide_index = wide;
    g.mask = mask;
    g.force_int = force;
    let v = match guard(|| (e.gen)(&mut g)) {
        Ok(v) => v,
        Err(p) => {
            ctx.panic_seen(&p);
            return;
        }
    };
    let tags = g.tags.clone();
    let bytes = match guard(|| v.to_bytes()) {
        Ok(b) => b,
        Err(p) => {
            ctx.panic_seen(&p); // judged by C01
            return;
        }
    };
    let opts = Opts { legacy_ok: tags.legacy, strict_output_assets: false, discipline: true, allow_empty_maps: false };
    check_bytes(ctx, e.name, e.cddl, &bytes, opts, if wide { "typed-api/wide-index" } else { "typed-api" });
}

/// text of about `target` UTF-8 bytes made of 1-, 2-, 3- and 4-byte characters (so that the number of
/// characters, UTF-16 units and bytes all differ)
fn unicode_text(r: &mut Rng, target: usize) -> String {
    let pieces: &[&str] = match r.below(4) {
        0 => &["a"],
        1 => &["é"],
        2 => &["a", "é", "€", "😀"],
        _ => &["€", "😀", "x"],
    };
    let mut s = String::new();
    while s.len() < target {
        let p = pieces[r.usize(pieces.len())];
        if s.len() + p.len() > target && r.bool() {
            break;
        }
        s.push_str(p);
    }
    s
}

/// sizes around a limit: in bytes and (for multi-byte text) in characters
fn around(r: &mut Rng, limit: usize) -> usize {
    match r.below(8) {
        0 => limit,
        1 => limit + 1,
        2 => limit.saturating_sub(1),
        3 => limit * 2,
        4 => limit * 4 + 1,
        5 => limit + 2 + r.usize(6),
        6 => 0,
        _ => r.usize(limit + 1),
    }
}

/// the constructors that enforce a CDDL size bound: whatever they ACCEPT must serialize to bytes the
/// grammar allows (values on both sides of every bound, in bytes and in characters)
fn bounded_constructors(ctx: &mut Ctx, r: &mut Rng, i: u64) {
    let opts = Opts { legacy_ok: false, strict_output_assets: false, discipline: true, allow_empty_maps: false };
    let kind = i / 16 % 17; // i is congruent to the shard number modulo 16
    let accepted = |ctx: &mut Ctx, what: &str, ok: bool| ctx.bucket(&format!("bounded.{}.{}", what, if ok { "accepted" } else { "refused" }));
    macro_rules! judged {
        ($what:expr, $rule:expr, $make:expr) => {{
            match guard(|| $make) {
                Ok(Some(bytes)) => {
                    accepted(ctx, $what, true);
                    check_bytes(ctx, $what, $rule, &bytes, opts, "bounded-constructor");
                }
                Ok(None) => accepted(ctx, $what, false),
                Err(p) => ctx.panic_seen(&p),
            }
        }};
    }
    match kind {
        0 => {
            let n = around(r, 64);
            let t = unicode_text(r, n);
            judged!("TransactionMetadatum::new_text", "transaction_metadatum", TransactionMetadatum::new_text(t.clone()).ok().map(|m| m.to_bytes()));
        }
        1 => {
            let n = around(r, 64);
            let b = r.bytes(n);
            judged!("TransactionMetadatum::new_bytes", "transaction_metadatum", TransactionMetadatum::new_bytes(b.clone()).ok().map(|m| m.to_bytes()));
        }
        2 => {
            let n = around(r, 128);
            let t = unicode_text(r, n);
            judged!("URL::new", "url128", URL::new(t.clone()).ok().map(|u| u.to_bytes()));
        }
        3 => {
            let n = around(r, 128);
            let t = unicode_text(r, n);
            let h = AnchorDataHash::from_bytes(r.bytes(32)).unwrap();
            judged!("Anchor(URL::new)", "anchor", URL::new(t.clone()).ok().map(|u| Anchor::new(&u, &h).to_bytes()));
        }
        4 => {
            let n = around(r, 128);
            let t = unicode_text(r, n);
            let port = if r.bool() { Some(r.below(65536) as u16) } else { None };
            judged!("DNSRecordAorAAAA::new", "relay", DNSRecordAorAAAA::new(t.clone()).ok().map(|d| Relay::new_single_host_name(&SingleHostName::new(port, &d)).to_bytes()));
        }
        5 => {
            let n = around(r, 128);
            let t = unicode_text(r, n);
            judged!("DNSRecordSRV::new", "relay", DNSRecordSRV::new(t.clone()).ok().map(|d| Relay::new_multi_host_name(&MultiHostName::new(&d)).to_bytes()));
        }
        6 => {
            let n = around(r, 32);
            let b = r.bytes(n);
            judged!("AssetName::new", "asset_name", AssetName::new(b.clone()).ok().map(|a| a.to_bytes()));
        }
        7 => {
            let n = around(r, 4);
            let b = r.bytes(n);
            judged!("Ipv4::new", "ipv4", Ipv4::new(b.clone()).ok().map(|a| a.to_bytes()));
        }
        8 => {
            let n = around(r, 16);
            let b = r.bytes(n);
            judged!("Ipv6::new", "ipv6", Ipv6::new(b.clone()).ok().map(|a| a.to_bytes()));
        }
        9 => {
            // the JSON front ends reach the same bounds
            let n = around(r, 64);
            let t = unicode_text(r, n);
            let schema = [MetadataJsonSchema::NoConversions, MetadataJsonSchema::BasicConversions, MetadataJsonSchema::DetailedSchema][r.usize(3)];
            let doc = match (schema, r.below(3)) {
                (MetadataJsonSchema::DetailedSchema, 0) => serde_json::json!({ "string": t }),
                (MetadataJsonSchema::DetailedSchema, 1) => serde_json::json!({"map": [{"k": {"string": t}, "v": {"int": 1}}]}),
                (MetadataJsonSchema::DetailedSchema, _) => serde_json::json!({"list": [{"string": t}]}),
                (_, 0) => serde_json::json!(t),
                (_, 1) => serde_json::json!({ t.clone(): 1 }),
                (_, _) => serde_json::json!([t]),
            };
            judged!("encode_json_str_to_metadatum(text)", "transaction_metadatum", encode_json_str_to_metadatum(doc.to_string(), schema).ok().map(|m| m.to_bytes()));
        }
        10 => {
            let n = around(r, 64);
            let hexs = format!("0x{}", hx(&r.bytes(n)));
            let detailed = r.bool();
            let doc = if detailed { serde_json::json!({"bytes": &hexs[2..]}) } else { serde_json::json!(hexs) };
            let schema = if detailed { MetadataJsonSchema::DetailedSchema } else { MetadataJsonSchema::BasicConversions };
            judged!("encode_json_str_to_metadatum(bytes)", "transaction_metadatum", encode_json_str_to_metadatum(doc.to_string(), schema).ok().map(|m| m.to_bytes()));
        }
        11 => {
            let n = around(r, 64);
            let t = unicode_text(r, n);
            judged!("MetadataMap::insert_str", "transaction_metadatum", {
                let mut m = MetadataMap::new();
                match m.insert_str(&t, &TransactionMetadatum::new_int(&Int::new_i32(1))) {
                    Ok(_) => Some(TransactionMetadatum::new_map(&m).to_bytes()),
                    Err(_) => None,
                }
            });
        }
        12 => {
            let n = around(r, 64);
            let b = r.bytes(n);
            judged!("encode_arbitrary_bytes_as_metadatum", "transaction_metadatum", Some(encode_arbitrary_bytes_as_metadatum(&b).to_bytes()));
        }
        13 => {
            let n = around(r, 64);
            let b = r.bytes(n);
            judged!("PlutusData::new_bytes", "plutus_data", Some(PlutusData::new_bytes(b.clone()).to_bytes()));
        }
        // the JSON readers of the same types are constructors too
        14 => {
            let n = around(r, 128);
            let t = unicode_text(r, n);
            let doc = serde_json::json!(t).to_string();
            judged!("URL::from_json", "url128", URL::from_json(&doc).ok().map(|u| u.to_bytes()));
        }
        15 => {
            let n = around(r, 128);
            let t = unicode_text(r, n);
            let doc = serde_json::json!({"anchor_url": t, "anchor_data_hash": "00".repeat(32)}).to_string();
            judged!("Anchor::from_json", "anchor", Anchor::from_json(&doc).ok().map(|u| u.to_bytes()));
        }
        _ => {
            let n = around(r, 128);
            let t = unicode_text(r, n);
            let doc = serde_json::json!(t).to_string();
            if r.bool() {
                judged!("DNSRecordAorAAAA::from_json", "relay", DNSRecordAorAAAA::from_json(&doc).ok().map(|d| Relay::new_single_host_name(&SingleHostName::new(None, &d)).to_bytes()));
            } else {
                judged!("DNSRecordSRV::from_json", "relay", DNSRecordSRV::from_json(&doc).ok().map(|d| Relay::new_multi_host_name(&MultiHostName::new(&d)).to_bytes()));
            }
        }
    }
}

fn random(ctx: &mut Ctx, r: &mut Rng, i: u64) {
    let rg = reg(ctx);
    let e = &rg[(i % rg.len() as u64) as usize];
    let (depth, coll) = if ctx.quick() { (r.below(5) as u32, 4) } else { (r.below(7) as u32, 6) };
    gen_and_check(ctx, r, e, depth, coll, None, None);
}
fn random_large(ctx: &mut Ctx, r: &mut Rng, i: u64) {
    let rg = reg(ctx);
    let e = &rg[(i % rg.len() as u64) as usize];
    let (depth, coll) = if ctx.quick() { (6, 24) } else { (24, 40) };
    gen_and_check(ctx, r, e, depth, coll, None, None);
}
fn by_name(ctx: &Ctx, n: &str) -> &'static TypeEntry {
    reg(ctx).iter().find(|e| e.name == n).unwrap()
}
fn body_masks(ctx: &mut Ctx, r: &mut Rng, i: u64) {
    let e = by_name(ctx, "TransactionBody");
    ctx.bucket("mask.TransactionBody");
    gen_and_check(ctx, r, e, 1, 2, Some(i), None);
}
fn witness_masks(ctx: &mut Ctx, r: &mut Rng, i: u64) {
    let e = by_name(ctx, "TransactionWitnessSet");
    gen_and_check(ctx, r, e, 2, 3, Some(i % 64), None);
}
fn width_sweep(ctx: &mut Ctx, r: &mut Rng, i: u64) {
    let rg = reg(ctx);
    let nt = rg.len() as u64;
    let e = &rg[(i % nt) as usize];
    let v = LATTICE[((i / nt) % LATTICE.len() as u64) as usize];
    gen_and_check(ctx, r, e, 2, 3, None, Some(v));
}

/// indices above 65535: accepted by the u32-typed API, outside the CDDL's uint .size 2
fn wide_index(ctx: &mut Ctx, r: &mut Rng, i: u64) {
    let rg = reg(ctx);
    let e = &rg[(i % rg.len() as u64) as usize];
    gen_and_check_w(ctx, r, e, 2, 3, None, None, true);
}

/// every transaction the builder scenarios produce, validated with strict output assets
fn builder_outputs(ctx: &mut Ctx, r: &mut Rng, _i: u64) {
    super::bld::scenario(ctx, r, crate::scen::Focus::default(), super::bld::c03_monitor);
}
