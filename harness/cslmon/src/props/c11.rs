//! C11 — address encodings are lossless and classified by their header.
//!
//! Oracle: a three-valued reference classifier written from the Shelley address binary format and
//! the Byron address CBOR format, using only vkit codecs (own CBOR reader/writer, Bech32, Base58,
//! CRC32, var-nat). The library's encoders are never used to compute an expected value.
//!
//! (a) typed round trips          streams typed-shelley, typed-pointer-edges, typed-byron
//! (b) bounded-exhaustive parsing stream  strict-cells (256 headers x lengths 0..=80), byron-mutants
//! (c) embedded addresses         stream  embedded-cells (same byte strings), byron-mutants

use crate::fw::*;
use cardano_serialization_lib as csl;
use csl::legacy_address::ByronAddressType;
use csl::*;
use serde_json::json;
use vkit::cbor::{self, Item, V};
use vkit::codec;
use vkit::rng::Rng;

const MAINNET_MAGIC: u64 = 764824073;
const CELLS: u64 = 256 * 81;

pub fn def() -> PropDef {
    PropDef {
        id: "C11",
        rule: "cases are (i) typed addresses: every header type (base kk/sk/ks/ss, pointer k/s, enterprise k/s, reward k/s) x network 0..=15 with random 28-byte hashes and pointer triples from the u64 edge lattice (all 9^3 edge triples exhaustively), Byron addresses from Bip32 keys (icarus) and from own CBOR encodings (derivation payload absent / 0..=64 bytes, protocol magic absent / mainnet / other u32, type 0..=2); (ii) byte strings: all 256 header bytes x total lengths 0..=80 exhaustively, several contents per cell (random, constant fill, crafted var-nat fields: exact-fit, unterminated, overflowing, non-minimal, trailing; crafted Byron CBOR: valid, trailing, bad CRC, truncated, wrong array length) and structurally mutated Byron addresses; each byte string is judged stand-alone by the strict parsers and embedded in 6 containers. Non-trivial = non-empty byte string / typed address; distinct by hash of the address bytes",
        assumptions: &[
            "network ids above 15 are not passed to the typed constructors (the header has 4 bits)",
            "Byron address type above 2, attribute keys other than 1 and 2, non-canonical CBOR inside a Byron address and non-minimal var-nats are don't-care for the strict parsers (only no-panic and re-encode stability are required)",
            "the default Bech32 prefix is checked only for network 0 (_test) and 1 (no suffix); for networks 2..=15 either suffix is accepted",
            "Byron network_id(): Err for a protocol magic the library does not know is an explicit error, not a violation",
            "cryptoxide sha3/blake2b (called through vkit) is trusted for the icarus root hash",
        ],
        streams,
        floors: &[
            ("a.kind.Base", 500),
            ("a.kind.Pointer", 500),
            ("a.kind.Enterprise", 200),
            ("a.kind.Reward", 200),
            ("a.kind.Byron", 500),
            ("a.byron.icarus", 100),
            ("a.byron.deriv-present", 100),
            ("a.bech32.custom-prefix.ok", 500),
            ("b.verdict.must-accept", 500),
            ("b.verdict.must-reject.truncated", 1000),
            ("b.verdict.must-reject.trailing-bytes-shelley", 1000),
            ("b.verdict.must-reject.trailing-bytes-byron", 20),
            ("b.verdict.must-reject.unterminated-varnat", 100),
            ("b.verdict.must-reject.varnat-overflow", 50),
            ("b.verdict.must-reject.reserved-header", 1000),
            ("b.verdict.must-reject.byron-crc-mismatch", 20),
            ("b.verdict.must-reject.empty", 100),
            ("b.verdict.dont-care", 100),
            ("c.lib.malformed", 1000),
            ("c.lib.typed", 500),
            ("c.container.out-legacy.decoded", 1000),
            ("c.container.out-map.decoded", 1000),
            ("c.container.body.decoded", 1000),
            ("c.container.tx.decoded", 1000),
            ("c.container.utxo-legacy.decoded", 1000),
            ("c.container.utxo-map.decoded", 1000),
            ("c.control.ok", 1000),
        ],
        init: Some(init),
    }
}

fn streams() -> Vec<Stream> {
    vec![
        Stream { name: "typed-shelley", count: (48_000, 960_000), exhaustive: false, run: typed_shelley },
        Stream { name: "typed-pointer-edges", count: (729 * 2, 729 * 2), exhaustive: true, run: typed_pointer_edges },
        Stream { name: "typed-byron", count: (16_000, 320_000), exhaustive: false, run: typed_byron },
        Stream { name: "strict-cells", count: (CELLS, CELLS), exhaustive: true, run: strict_cells },
        Stream { name: "embedded-cells", count: (CELLS, CELLS), exhaustive: true, run: embedded_cells },
        Stream { name: "byron-mutants", count: (24_000, 480_000), exhaustive: false, run: byron_mutants },
        Stream { name: "wide-network-id", count: (2_400, 48_000), exhaustive: false, run: wide_network_id },
    ]
}

// ------------------------------------------------------------------------------------------------
// per-shard state: a few Bip32 public keys (64 raw bytes each) derived once from fixed entropy

struct State {
    xpubs: Vec<Vec<u8>>,
}

fn init(ctx: &mut Ctx) {
    let r = guard(|| {
        let mut v = Vec::new();
        for e in 0..2u8 {
            let entropy: Vec<u8> = (0..32u8).map(|x| x.wrapping_mul(7).wrapping_add(e)).collect();
            let root = Bip32PrivateKey::from_bip39_entropy(&entropy, b"");
            for ix in [0u32, 1, 0x8000_0000 + 1852] {
                v.push(root.derive(ix).to_public().as_bytes());
            }
        }
        v
    });
    match r {
        Ok(v) if v.iter().all(|k| k.len() == 64) => ctx.state = Some(Box::new(State { xpubs: v })),
        Ok(_) => ctx.bucket("skipped.init-bad-key-length"),
        Err(p) => ctx.panic_seen(&p),
    }
}

fn xpub(ctx: &Ctx, ix: usize) -> Option<Vec<u8>> {
    let st = ctx.state.as_ref()?.downcast_ref::<State>()?;
    if st.xpubs.is_empty() {
        return None;
    }
    st.xpubs.get(ix % st.xpubs.len()).cloned()
}

// ------------------------------------------------------------------------------------------------
// reference model

#[derive(Clone, Copy, Debug, PartialEq)]
enum Kind {
    Base,
    Pointer,
    Enterprise,
    Reward,
    Byron,
}

impl Kind {
    fn name(self) -> &'static str {
        match self {
            Kind::Base => "Base",
            Kind::Pointer => "Pointer",
            Kind::Enterprise => "Enterprise",
            Kind::Reward => "Reward",
            Kind::Byron => "Byron",
        }
    }
}

/// the content of a Byron address: [root, {1: deriv, 2: magic}, type]
#[derive(Clone, Debug, PartialEq)]
struct ByronSpec {
    root: Vec<u8>,
    /// raw content of the attribute-1 byte string (normally the CBOR encoding of a byte string)
    deriv: Option<Vec<u8>>,
    magic: Option<u64>,
    typ: u64,
}

/// (is_script, 28 hash bytes)
type Cred = (bool, Vec<u8>);

#[derive(Clone, Debug, PartialEq)]
struct Decoded {
    kind: Kind,
    network: u8,
    pay: Option<Cred>,
    stake: Option<Cred>,
    ptr: Option<(u64, u64, u64)>,
    byron: Option<ByronSpec>,
}

#[derive(Clone, Debug)]
enum Verdict {
    Accept(Decoded),
    Reject(&'static str),
    DontCare(&'static str),
}

/// what the classifier knows about a valid address at the front of the bytes (for embedded use)
#[derive(Clone, Copy, Debug, PartialEq)]
enum Prefix {
    Exact,
    Trailing,
    NoneValid,
    Unknown,
}

#[derive(Clone, Debug)]
struct Cls {
    verdict: Verdict,
    prefix: Prefix,
}

impl Cls {
    fn accept(d: Decoded) -> Cls {
        Cls { verdict: Verdict::Accept(d), prefix: Prefix::Exact }
    }
    fn reject(c: &'static str) -> Cls {
        let prefix = if c.starts_with("trailing-bytes") { Prefix::Trailing } else { Prefix::NoneValid };
        Cls { verdict: Verdict::Reject(c), prefix }
    }
    fn dont_care(w: &'static str) -> Cls {
        Cls { verdict: Verdict::DontCare(w), prefix: Prefix::Unknown }
    }
    fn label(&self) -> String {
        match &self.verdict {
            Verdict::Accept(d) => format!("must-accept.{}", d.kind.name()),
            Verdict::Reject(c) => format!("must-reject.{}", c),
            Verdict::DontCare(w) => format!("dont-care.{}", w),
        }
    }
}

// ---------------------------------------------------------------- var-nat (own decoder)

enum Vn {
    Ok { v: u64, n: usize, minimal: bool },
    Overflow,
    Unterminated,
    Missing,
}

fn vn_decode(b: &[u8]) -> Vn {
    if b.is_empty() {
        return Vn::Missing;
    }
    let mut v: u128 = 0;
    let mut over = false;
    for (i, &x) in b.iter().enumerate() {
        if !over {
            v = (v << 7) | (x & 0x7f) as u128;
            if v > u64::MAX as u128 {
                over = true;
            }
        }
        if x & 0x80 == 0 {
            if over {
                return Vn::Overflow;
            }
            return Vn::Ok { v: v as u64, n: i + 1, minimal: b[0] != 0x80 };
        }
    }
    Vn::Unterminated
}

// ---------------------------------------------------------------- Shelley

fn cred_at(b: &[u8], pos: usize, script: bool) -> Option<Cred> {
    let end = pos.checked_add(28)?;
    if end > b.len() {
        return None;
    }
    Some((script, b[pos..end].to_vec()))
}

fn classify(b: &[u8]) -> Cls {
    if b.is_empty() {
        return Cls::reject("empty");
    }
    let header = b[0];
    let t = header >> 4;
    let network = header & 0x0f;
    let pay_script = header & 0x10 != 0;
    match t {
        0..=3 => {
            if b.len() < 57 {
                return Cls::reject("truncated");
            }
            if b.len() > 57 {
                return Cls::reject("trailing-bytes-shelley");
            }
            Cls::accept(Decoded {
                kind: Kind::Base,
                network,
                pay: cred_at(b, 1, pay_script),
                stake: cred_at(b, 29, header & 0x20 != 0),
                ptr: None,
                byron: None,
            })
        }
        4 | 5 => {
            if b.len() < 29 {
                return Cls::reject("truncated");
            }
            let mut p = 29usize;
            let mut vals = [0u64; 3];
            let mut nonmin = false;
            for k in 0..3 {
                match vn_decode(&b[p.min(b.len())..]) {
                    Vn::Missing => return Cls::reject("truncated"),
                    Vn::Unterminated => return Cls::reject("unterminated-varnat"),
                    Vn::Overflow => return Cls::reject("varnat-overflow"),
                    Vn::Ok { v, n, minimal } => {
                        vals[k] = v;
                        p = p.saturating_add(n);
                        nonmin |= !minimal;
                    }
                }
            }
            if nonmin {
                return Cls::dont_care("non-minimal-varnat");
            }
            if p < b.len() {
                return Cls::reject("trailing-bytes-shelley");
            }
            Cls::accept(Decoded {
                kind: Kind::Pointer,
                network,
                pay: cred_at(b, 1, pay_script),
                stake: None,
                ptr: Some((vals[0], vals[1], vals[2])),
                byron: None,
            })
        }
        6 | 7 | 14 | 15 => {
            if b.len() < 29 {
                return Cls::reject("truncated");
            }
            if b.len() > 29 {
                return Cls::reject("trailing-bytes-shelley");
            }
            Cls::accept(Decoded {
                kind: if t >= 14 { Kind::Reward } else { Kind::Enterprise },
                network,
                pay: cred_at(b, 1, pay_script),
                stake: None,
                ptr: None,
                byron: None,
            })
        }
        8 => classify_byron(b),
        _ => Cls::reject("reserved-header"),
    }
}

// ---------------------------------------------------------------- Byron

enum ByronParse {
    Truncated,
    NotCanonical(&'static str),
    Canonical { spec: ByronSpec, consumed: usize, crc_ok: bool },
}

fn canon_u(it: &Item) -> Option<u64> {
    if it.head_minimal() {
        it.as_u64()
    } else {
        None
    }
}
fn canon_b(it: &Item) -> Option<&[u8]> {
    if it.head_minimal() {
        it.as_bytes()
    } else {
        None
    }
}

fn byron_parse(b: &[u8]) -> ByronParse {
    use ByronParse::*;
    let (it, consumed) = match cbor::parse_prefix(b) {
        Ok(x) => x,
        Err(cbor::CborErr::Truncated(_)) => return Truncated,
        Err(_) => return NotCanonical("bad-cbor"),
    };
    let outer = match it.as_arr() {
        Some(a) if it.head_minimal() && a.len() == 2 => a,
        Some(_) => return NotCanonical("outer-array-shape"),
        None => return NotCanonical("not-an-array"),
    };
    let payload = match outer[0].as_tag() {
        Some((24, inner)) if outer[0].head_minimal() => match canon_b(inner) {
            Some(p) => p,
            None => return NotCanonical("payload-not-canonical-bytes"),
        },
        _ => return NotCanonical("no-tag-24"),
    };
    let crc = match canon_u(&outer[1]) {
        Some(c) => c,
        None => return NotCanonical("crc-not-canonical-uint"),
    };
    let pit = match cbor::parse(payload) {
        Ok(p) => p,
        Err(_) => return NotCanonical("payload-bad-cbor"),
    };
    let inner = match pit.as_arr() {
        Some(a) if pit.head_minimal() && a.len() == 3 => a,
        _ => return NotCanonical("payload-shape"),
    };
    let root = match canon_b(&inner[0]) {
        Some(r) if r.len() == 28 => r.to_vec(),
        _ => return NotCanonical("root"),
    };
    let attrs = match inner[1].as_map() {
        Some(m) if inner[1].head_minimal() && m.len() <= 2 => m,
        _ => return NotCanonical("attributes-shape"),
    };
    let mut deriv = None;
    let mut magic = None;
    let mut last_key = 0u64;
    for (k, v) in attrs {
        let key = match canon_u(k) {
            Some(x) => x,
            None => return NotCanonical("attribute-key"),
        };
        if key <= last_key || key > 2 {
            return NotCanonical("attribute-key");
        }
        last_key = key;
        let content = match canon_b(v) {
            Some(c) => c,
            None => return NotCanonical("attribute-value"),
        };
        if key == 1 {
            match cbor::parse(content) {
                Ok(x) if canon_b(&x).is_some() => deriv = Some(content.to_vec()),
                _ => return NotCanonical("derivation-path-not-cbor-bytes"),
            }
        } else {
            match cbor::parse(content) {
                Ok(x) => match canon_u(&x) {
                    Some(m) if m <= u32::MAX as u64 => magic = Some(m),
                    _ => return NotCanonical("protocol-magic"),
                },
                _ => return NotCanonical("protocol-magic"),
            }
        }
    }
    let typ = match canon_u(&inner[2]) {
        Some(t) if t <= 2 => t,
        _ => return NotCanonical("address-type"),
    };
    let crc_ok = crc == codec::crc32(payload) as u64;
    Canonical { spec: ByronSpec { root, deriv, magic, typ }, consumed, crc_ok }
}

/// classification of bytes offered to a Byron parser (also used for header nibble 8)
fn classify_byron(b: &[u8]) -> Cls {
    if b.is_empty() {
        return Cls::reject("empty");
    }
    match byron_parse(b) {
        ByronParse::Truncated => Cls::reject("truncated"),
        ByronParse::NotCanonical(w) => Cls::dont_care(w),
        ByronParse::Canonical { spec, consumed, crc_ok } => {
            if !crc_ok {
                Cls::reject("byron-crc-mismatch")
            } else if consumed < b.len() {
                Cls::reject("trailing-bytes-byron")
            } else {
                Cls::accept(Decoded { kind: Kind::Byron, network: 0, pay: None, stake: None, ptr: None, byron: Some(spec) })
            }
        }
    }
}

// ---------------------------------------------------------------- own encoders

fn enc_shelley(d: &Decoded) -> Vec<u8> {
    let ps = d.pay.as_ref().map(|c| c.0).unwrap_or(false) as u8;
    let ss = d.stake.as_ref().map(|c| c.0).unwrap_or(false) as u8;
    let nib: u8 = match d.kind {
        Kind::Base => ps | (ss << 1),
        Kind::Pointer => 4 | ps,
        Kind::Enterprise => 6 | ps,
        Kind::Reward => 14 | ps,
        Kind::Byron => 8,
    };
    let mut out = vec![(nib << 4) | (d.network & 0x0f)];
    if let Some(c) = &d.pay {
        out.extend_from_slice(&c.1);
    }
    if let Some(c) = &d.stake {
        out.extend_from_slice(&c.1);
    }
    if let Some((a, b, c)) = d.ptr {
        out.extend(codec::varnat_encode(a));
        out.extend(codec::varnat_encode(b));
        out.extend(codec::varnat_encode(c));
    }
    out
}

fn byron_attrs_item(s: &ByronSpec) -> Item {
    let mut m = Vec::new();
    if let Some(d) = &s.deriv {
        m.push((Item::u(1), Item::bytes(d)));
    }
    if let Some(mg) = s.magic {
        m.push((Item::u(2), Item::bytes(&cbor::to_vec(&Item::u(mg)))));
    }
    Item::map(m)
}

fn byron_payload(s: &ByronSpec) -> Vec<u8> {
    cbor::to_vec(&Item::arr(vec![Item::bytes(&s.root), byron_attrs_item(s), Item::u(s.typ)]))
}

fn byron_wrap(payload: &[u8], crc: u64) -> Vec<u8> {
    cbor::to_vec(&Item::arr(vec![Item::tag(24, Item::bytes(payload)), Item::u(crc)]))
}

fn enc_byron(s: &ByronSpec) -> Vec<u8> {
    let p = byron_payload(s);
    byron_wrap(&p, codec::crc32(&p) as u64)
}

/// root of an icarus-style address: blake2b224(sha3_256(cbor([0, [0, xpub], attrs])))
fn icarus_root(xpub: &[u8], magic: Option<u64>) -> Vec<u8> {
    let attrs = byron_attrs_item(&ByronSpec { root: vec![], deriv: None, magic, typ: 0 });
    let pre = cbor::to_vec(&Item::arr(vec![Item::u(0), Item::arr(vec![Item::u(0), Item::bytes(xpub)]), attrs]));
    codec::blake2b224(&codec::sha3_256(&pre))
}

fn hl(n: usize) -> usize {
    if n < 24 {
        1
    } else if n < 256 {
        2
    } else if n < 65536 {
        3
    } else {
        5
    }
}

/// total length of a canonical Byron address with a 4-byte CRC
fn byron_total_len(mlen: Option<usize>, d: Option<usize>) -> usize {
    let mut attrs = 1;
    if let Some(n) = d {
        let inner = hl(n) + n;
        attrs += 1 + hl(inner) + inner;
    }
    if let Some(m) = mlen {
        attrs += 1 + 1 + m;
    }
    let payload = 1 + 2 + 28 + attrs + 1;
    1 + 2 + hl(payload) + payload + 5
}

// ------------------------------------------------------------------------------------------------
// observing the library

enum Out<T> {
    Ok(T),
    Err(String),
    Panic(PanicRec),
}

fn call<T, E: std::fmt::Debug>(f: impl FnOnce() -> Result<T, E>) -> Out<T> {
    match guard(|| f().map_err(|e| format!("{:?}", e))) {
        Ok(Ok(v)) => Out::Ok(v),
        Ok(Err(e)) => Out::Err(e),
        Err(p) => Out::Panic(p),
    }
}

struct CredObs {
    script: bool,
    bytes: Vec<u8>,
    consistent: bool,
}

struct ByronObs {
    magic: u32,
    typ: u8,
    attrs: Vec<u8>,
    net: Result<u8, String>,
    b58: String,
    bytes: Vec<u8>,
}

struct Obs {
    kind: String,
    malformed: bool,
    net: Result<u8, String>,
    pay: Option<CredObs>,
    stake: Option<CredObs>,
    ptr: Option<(u64, u64, u64)>,
    byron: Option<ByronObs>,
    bytes: Vec<u8>,
    hex: String,
    /// which typed views exist: base, pointer, enterprise, reward, byron, malformed
    views: [bool; 6],
    /// typed network_id() of the typed view, if Shelley
    typed_net: Option<u8>,
}

fn cred_obs(c: &Credential) -> CredObs {
    let script = c.kind() == CredKind::Script;
    let (bytes, ok) = match (c.to_keyhash(), c.to_scripthash()) {
        (Some(k), None) => (k.to_bytes(), !script),
        (None, Some(s)) => (s.to_bytes(), script),
        _ => (vec![], false),
    };
    CredObs { script, bytes, consistent: ok && c.has_script_hash() == script }
}

fn observe(a: &Address) -> Result<Obs, PanicRec> {
    guard(|| {
        let base = BaseAddress::from_address(a);
        let ptr = PointerAddress::from_address(a);
        let ent = EnterpriseAddress::from_address(a);
        let rew = RewardAddress::from_address(a);
        let byr = ByronAddress::from_address(a);
        let mal = MalformedAddress::from_address(a);
        let typed_net = base
            .as_ref()
            .map(|x| x.network_id())
            .or(ptr.as_ref().map(|x| x.network_id()))
            .or(ent.as_ref().map(|x| x.network_id()))
            .or(rew.as_ref().map(|x| x.network_id()));
        Obs {
            kind: format!("{:?}", a.kind()),
            malformed: a.is_malformed(),
            net: a.network_id().map_err(|e| format!("{:?}", e)),
            pay: a.payment_cred().map(|c| cred_obs(&c)),
            stake: base.as_ref().map(|x| cred_obs(&x.stake_cred())),
            ptr: ptr.as_ref().map(|x| {
                let p = x.stake_pointer();
                (u64::from(p.slot_bignum()), u64::from(p.tx_index_bignum()), u64::from(p.cert_index_bignum()))
            }),
            byron: byr.as_ref().map(|x| ByronObs {
                magic: x.byron_protocol_magic(),
                typ: match x.byron_address_kind() {
                    ByronAddressType::ATPubKey => 0,
                    ByronAddressType::ATScript => 1,
                    ByronAddressType::ATRedeem => 2,
                },
                attrs: x.attributes(),
                net: x.network_id().map_err(|e| format!("{:?}", e)),
                b58: x.to_base58(),
                bytes: x.to_bytes(),
            }),
            bytes: a.to_bytes(),
            hex: a.to_hex(),
            views: [base.is_some(), ptr.is_some(), ent.is_some(), rew.is_some(), byr.is_some(), mal.is_some()],
            typed_net,
        }
    })
}

fn cred_json(c: &Option<Cred>) -> serde_json::Value {
    match c {
        Some((s, h)) => json!({"script": s, "hash": hx(h)}),
        None => serde_json::Value::Null,
    }
}

fn cred_obs_json(c: &Option<CredObs>) -> serde_json::Value {
    match c {
        Some(o) => json!({"script": o.script, "hash": hx(&o.bytes), "accessors_consistent": o.consistent}),
        None => serde_json::Value::Null,
    }
}

/// compare what the library reports about an address with what header and payload encode
fn compare(ctx: &mut Ctx, entry: &str, o: &Obs, d: &Decoded, input: &[u8]) {
    let base = json!({"input": hx(input), "expected_kind": d.kind.name(), "got_kind": o.kind});
    if o.kind != d.kind.name() || o.malformed {
        ctx.violation(&format!("{}/reports/kind", entry), base.clone());
        return;
    }
    let want_view = match d.kind {
        Kind::Base => 0,
        Kind::Pointer => 1,
        Kind::Enterprise => 2,
        Kind::Reward => 3,
        Kind::Byron => 4,
    };
    for k in 0..6 {
        if o.views[k] != (k == want_view) {
            ctx.violation(&format!("{}/reports/typed-view-mismatch", entry), json!({"input": hx(input), "views": o.views.to_vec()}));
            break;
        }
    }
    if o.bytes != input {
        ctx.violation(
            &format!("{}/roundtrip/to_bytes-differs/{}", entry, d.kind.name()),
            json!({"input": hx(input), "to_bytes": hx(&o.bytes)}),
        );
    }
    if o.hex != hx(&o.bytes) {
        ctx.violation(&format!("{}/roundtrip/to_hex-differs-from-to_bytes", entry), json!({"input": hx(input), "to_hex": o.hex}));
    }
    if d.kind != Kind::Byron {
        if o.net != Ok(d.network) || o.typed_net != Some(d.network) {
            ctx.violation(
                &format!("{}/reports/network-id", entry),
                json!({"input": hx(input), "expected": d.network, "got": format!("{:?}", o.net), "typed": format!("{:?}", o.typed_net)}),
            );
        }
        let pay_ok = match (&o.pay, &d.pay) {
            (Some(a), Some(b)) => a.consistent && a.script == b.0 && a.bytes == b.1,
            (None, None) => true,
            _ => false,
        };
        if !pay_ok {
            ctx.violation(
                &format!("{}/reports/payment-cred", entry),
                json!({"input": hx(input), "expected": cred_json(&d.pay), "got": cred_obs_json(&o.pay)}),
            );
        }
        let stake_ok = match (&o.stake, &d.stake) {
            (Some(a), Some(b)) => a.consistent && a.script == b.0 && a.bytes == b.1,
            (None, None) => true,
            _ => false,
        };
        if !stake_ok {
            ctx.violation(
                &format!("{}/reports/stake-cred", entry),
                json!({"input": hx(input), "expected": cred_json(&d.stake), "got": cred_obs_json(&o.stake)}),
            );
        }
        if o.ptr != d.ptr {
            ctx.violation(
                &format!("{}/reports/pointer", entry),
                json!({"input": hx(input), "expected": format!("{:?}", d.ptr), "got": format!("{:?}", o.ptr)}),
            );
        }
    } else if let (Some(bo), Some(spec)) = (&o.byron, &d.byron) {
        if o.pay.is_some() {
            ctx.violation(&format!("{}/reports/payment-cred-on-byron", entry), json!({"input": hx(input)}));
        }
        let want_magic = spec.magic.unwrap_or(MAINNET_MAGIC);
        if bo.magic as u64 != want_magic {
            ctx.violation(
                &format!("{}/reports/byron-protocol-magic", entry),
                json!({"input": hx(input), "expected": want_magic, "got": bo.magic}),
            );
        }
        if bo.typ as u64 != spec.typ {
            ctx.violation(&format!("{}/reports/byron-address-type", entry), json!({"input": hx(input), "expected": spec.typ, "got": bo.typ}));
        }
        let want_attrs = cbor::to_vec(&byron_attrs_item(spec));
        if bo.attrs != want_attrs {
            ctx.violation(
                &format!("{}/reports/byron-attributes", entry),
                json!({"input": hx(input), "expected": hx(&want_attrs), "got": hx(&bo.attrs)}),
            );
        }
        if bo.bytes != input {
            ctx.violation(
                &format!("{}/roundtrip/ByronAddress.to_bytes-differs", entry),
                json!({"input": hx(input), "to_bytes": hx(&bo.bytes)}),
            );
        }
        let want_b58 = codec::base58_encode(input);
        if bo.b58 != want_b58 {
            ctx.violation(
                &format!("{}/roundtrip/to_base58-differs-from-reference", entry),
                json!({"input": hx(input), "expected": want_b58, "got": bo.b58}),
            );
        }
        // network id: mainnet (1) iff the magic is absent or the mainnet magic; Err = explicit
        if bo.net != o.net {
            ctx.violation(
                &format!("{}/reports/byron-network-id-inconsistent", entry),
                json!({"input": hx(input), "Address": format!("{:?}", o.net), "ByronAddress": format!("{:?}", bo.net)}),
            );
        }
        match &bo.net {
            Ok(id) => {
                ctx.bucket("byron.network-id.ok");
                let want = if want_magic == MAINNET_MAGIC { 1 } else { 0 };
                if *id != want {
                    ctx.violation(
                        &format!("{}/reports/byron-network-id", entry),
                        json!({"input": hx(input), "magic": want_magic, "expected": want, "got": id}),
                    );
                }
            }
            Err(_) => {
                ctx.bucket("byron.network-id.err-explicit");
                // the networks the library names itself (NetworkInfo::mainnet / testnet_preprod / testnet_preview)
                // are not "unknown": an address of one of them reports its network id
                if want_magic == MAINNET_MAGIC {
                    ctx.violation(&format!("{}/reports/byron-network-id-error-on-mainnet", entry), json!({"input": hx(input)}));
                } else if want_magic == 1 || want_magic == 2 {
                    ctx.violation(&format!("{}/reports/byron-network-id-error-on-named-testnet", entry), json!({"input": hx(input), "magic": want_magic}));
                }
            }
        }
    }
}

// ---------------------------------------------------------------- strict entry points

#[derive(Clone, Copy, PartialEq)]
enum Entry {
    FromBytes,
    FromHex,
    FromBech32,
    ByronFromBytes,
    ByronFromBase58,
}

impl Entry {
    fn name(self) -> &'static str {
        match self {
            Entry::FromBytes => "Address.from_bytes",
            Entry::FromHex => "Address.from_hex",
            Entry::FromBech32 => "Address.from_bech32",
            Entry::ByronFromBytes => "ByronAddress.from_bytes",
            Entry::ByronFromBase58 => "ByronAddress.from_base58",
        }
    }
}

fn parse_with(e: Entry, b: &[u8], hrp: &str) -> Out<Address> {
    match e {
        Entry::FromBytes => call(|| Address::from_bytes(b.to_vec())),
        Entry::FromHex => {
            let s = hx(b);
            call(|| Address::from_hex(&s))
        }
        Entry::FromBech32 => {
            let s = codec::bech32_encode(hrp, b);
            call(|| Address::from_bech32(&s))
        }
        Entry::ByronFromBytes => call(|| ByronAddress::from_bytes(b.to_vec()).map(|x| x.to_address())),
        Entry::ByronFromBase58 => {
            let s = codec::base58_encode(b);
            call(|| ByronAddress::from_base58(&s).map(|x| x.to_address()))
        }
    }
}

const HRPS: [&str; 6] = ["addr", "addr_test", "stake", "stake_test", "x", "addr_malformed"];

/// judge one strict parser on one byte string
fn judge_strict(ctx: &mut Ctx, e: Entry, b: &[u8], cls: &Cls, hrp: &str) {
    ctx.eval();
    let name = e.name();
    let detail = |extra: serde_json::Value| {
        let mut d = json!({"input": hx(b), "len": b.len(), "class": cls.label()});
        if e == Entry::FromBech32 {
            d["bech32"] = json!(codec::bech32_encode(hrp, b));
        }
        if e == Entry::ByronFromBase58 {
            d["base58"] = json!(codec::base58_encode(b));
        }
        if let (serde_json::Value::Object(m), serde_json::Value::Object(x)) = (&mut d, extra) {
            for (k, v) in x {
                m.insert(k, v);
            }
        }
        d
    };
    match parse_with(e, b, hrp) {
        Out::Panic(p) => {
            ctx.bucket("b.lib.panic");
            ctx.violation(&format!("{}/{}", name, p.sig()), detail(json!({"msg": p.msg, "loc": p.loc})));
        }
        Out::Err(err) => {
            ctx.bucket("b.lib.err");
            if let Verdict::Accept(d) = &cls.verdict {
                ctx.violation(&format!("{}/rejected/canonical-{}", name, d.kind.name()), detail(json!({"err": err})));
            }
        }
        Out::Ok(a) => {
            let o = match observe(&a) {
                Ok(o) => o,
                Err(p) => {
                    ctx.violation(&format!("{}/accessors/{}", name, p.sig()), detail(json!({"msg": p.msg})));
                    return;
                }
            };
            ctx.bucket(&format!("b.lib.ok.{}", o.kind));
            match &cls.verdict {
                Verdict::Accept(d) => compare(ctx, name, &o, d, b),
                Verdict::Reject(c) => {
                    ctx.violation(
                        &format!("{}/accepted/{}", name, c),
                        detail(json!({"got_kind": o.kind, "to_bytes": hx(&o.bytes)})),
                    );
                }
                Verdict::DontCare(w) => {
                    // whatever is returned must re-encode and re-parse to itself
                    let y = o.bytes.clone();
                    match call(|| Address::from_bytes(y.clone())) {
                        Out::Ok(a2) => {
                            let same = guard(|| a2 == a && a2.to_bytes() == y);
                            if same.ok() != Some(true) {
                                ctx.violation(&format!("{}/unstable-reencode/{}", name, w), detail(json!({"to_bytes": hx(&y)})));
                            }
                        }
                        Out::Err(err) => {
                            ctx.violation(
                                &format!("{}/unstable-reencode/{}", name, w),
                                detail(json!({"to_bytes": hx(&y), "reparse_err": err})),
                            );
                        }
                        Out::Panic(p) => {
                            ctx.violation(&format!("{}/reparse/{}", name, p.sig()), detail(json!({"to_bytes": hx(&y)})));
                        }
                    }
                }
            }
        }
    }
}

fn verdict_bucket(ctx: &mut Ctx, pre: &str, cls: &Cls) {
    match &cls.verdict {
        Verdict::Accept(d) => {
            ctx.bucket(&format!("{}.verdict.must-accept", pre));
            ctx.bucket(&format!("{}.verdict.must-accept.{}", pre, d.kind.name()));
        }
        Verdict::Reject(c) => ctx.bucket(&format!("{}.verdict.must-reject.{}", pre, c)),
        Verdict::DontCare(w) => {
            ctx.bucket(&format!("{}.verdict.dont-care", pre));
            ctx.bucket(&format!("{}.verdict.dont-care.{}", pre, w));
        }
    }
}

/// group (b) for one byte string: all strict parsers
fn check_strict(ctx: &mut Ctx, b: &[u8], r: &mut Rng) {
    let cls = classify(b);
    verdict_bucket(ctx, "b", &cls);
    if !b.is_empty() {
        ctx.nontrivial_bytes("addr", b);
    }
    let hrp = *r.pick(&HRPS);
    for e in [Entry::FromBytes, Entry::FromHex, Entry::FromBech32] {
        judge_strict(ctx, e, b, &cls, hrp);
    }
    // the Byron stand-alone parsers: on every CBOR array head, and on a sample of the rest
    let arrayish = b.first().map(|x| x & 0xe0 == 0x80).unwrap_or(false);
    if arrayish || r.chance(1, 8) {
        let bc = classify_byron(b);
        verdict_bucket(ctx, "b.byron-parsers", &bc);
        judge_strict(ctx, Entry::ByronFromBytes, b, &bc, hrp);
        judge_strict(ctx, Entry::ByronFromBase58, b, &bc, hrp);
        let s = codec::base58_encode(b);
        let valid = guard(|| ByronAddress::is_valid(&s));
        let parsed = guard(|| ByronAddress::from_base58(&s).is_ok());
        match (valid, parsed) {
            (Ok(v), Ok(p)) => {
                if v != p {
                    ctx.violation("ByronAddress.is_valid/disagrees-with-from_base58", json!({"base58": s, "is_valid": v}));
                }
            }
            (Err(p), _) => ctx.violation(&format!("ByronAddress.is_valid/{}", p.sig()), json!({"base58": s, "input": hx(b)})),
            _ => {}
        }
    }
    match &cls.verdict {
        Verdict::Accept(_) => ctx.sample("strict-must-accept", || json!({"bytes": hx(b), "class": cls.label()})),
        Verdict::Reject(_) => ctx.sample("strict-must-reject", || json!({"bytes": hx(b), "class": cls.label()})),
        Verdict::DontCare(_) => ctx.sample("strict-dont-care", || json!({"bytes": hx(b), "class": cls.label()})),
    }
}

// ------------------------------------------------------------------------------------------------
// group (c): embedded addresses

#[derive(Clone, Copy, PartialEq, Debug)]
enum Cont {
    OutLegacy,
    OutMap,
    Body,
    Tx,
    UtxoLegacy,
    UtxoMap,
}

const CONTS: [Cont; 6] = [Cont::OutLegacy, Cont::OutMap, Cont::Body, Cont::Tx, Cont::UtxoLegacy, Cont::UtxoMap];

impl Cont {
    fn name(self) -> &'static str {
        match self {
            Cont::OutLegacy => "out-legacy",
            Cont::OutMap => "out-map",
            Cont::Body => "body",
            Cont::Tx => "tx",
            Cont::UtxoLegacy => "utxo-legacy",
            Cont::UtxoMap => "utxo-map",
        }
    }
    fn ty(self) -> &'static str {
        match self {
            Cont::OutLegacy | Cont::OutMap => "TransactionOutput",
            Cont::Body => "TransactionBody",
            Cont::Tx => "Transaction",
            Cont::UtxoLegacy | Cont::UtxoMap => "TransactionUnspentOutput",
        }
    }
}

struct Shape {
    coin: u64,
    multi: Option<(Vec<u8>, Vec<u8>, u64)>,
    txid: Vec<u8>,
    ix: u64,
    fee: u64,
}

fn gen_shape(r: &mut Rng) -> Shape {
    Shape {
        coin: r.wide_u64(),
        multi: if r.chance(1, 4) {
            let nl = r.usize(33);
            Some((r.bytes(28), r.bytes(nl), 1 + r.below(1 << 40)))
        } else {
            None
        },
        txid: r.bytes(32),
        ix: r.below(70_000),
        fee: r.below(1 << 33),
    }
}

fn good_addr() -> Vec<u8> {
    let mut g = vec![0x61u8];
    g.extend((1..=28u8).map(|x| x.wrapping_mul(3)));
    g
}

fn amount_item(s: &Shape) -> Item {
    match &s.multi {
        None => Item::u(s.coin),
        Some((pol, name, q)) => Item::arr(vec![
            Item::u(s.coin),
            Item::map(vec![(Item::bytes(pol), Item::map(vec![(Item::bytes(name), Item::u(*q))]))]),
        ]),
    }
}

fn out_item(addr: &[u8], s: &Shape, map_form: bool) -> Item {
    if map_form {
        Item::map(vec![(Item::u(0), Item::bytes(addr)), (Item::u(1), amount_item(s))])
    } else {
        Item::arr(vec![Item::bytes(addr), amount_item(s)])
    }
}

fn body_item(x: &[u8], s: &Shape) -> Item {
    let good = good_addr();
    Item::map(vec![
        (Item::u(0), Item::arr(vec![Item::arr(vec![Item::bytes(&s.txid), Item::u(s.ix)])])),
        (Item::u(1), Item::arr(vec![out_item(&good, s, false), out_item(x, s, false), out_item(x, s, true), out_item(&good, s, true)])),
        (Item::u(2), Item::u(s.fee)),
    ])
}

/// (wire bytes, the address bytes expected at each output position)
fn build(c: Cont, x: &[u8], s: &Shape) -> (Vec<u8>, Vec<Vec<u8>>) {
    let good = good_addr();
    let input = || Item::arr(vec![Item::bytes(&s.txid), Item::u(s.ix)]);
    let four = || vec![good.clone(), x.to_vec(), x.to_vec(), good.clone()];
    match c {
        Cont::OutLegacy => (cbor::to_vec(&out_item(x, s, false)), vec![x.to_vec()]),
        Cont::OutMap => (cbor::to_vec(&out_item(x, s, true)), vec![x.to_vec()]),
        Cont::Body => (cbor::to_vec(&body_item(x, s)), four()),
        Cont::Tx => (
            cbor::to_vec(&Item::arr(vec![body_item(x, s), Item::map(vec![]), Item::new(V::Simple(21)), Item::null()])),
            four(),
        ),
        Cont::UtxoLegacy => (cbor::to_vec(&Item::arr(vec![input(), out_item(x, s, false)])), vec![x.to_vec()]),
        Cont::UtxoMap => (cbor::to_vec(&Item::arr(vec![input(), out_item(x, s, true)])), vec![x.to_vec()]),
    }
}

struct OutObs {
    malformed: bool,
    kind: String,
    bytes: Vec<u8>,
}

struct EmbObs {
    outs: Vec<OutObs>,
    reenc: Vec<u8>,
}

fn out_obs(o: &TransactionOutput) -> OutObs {
    let a = o.address();
    OutObs { malformed: a.is_malformed(), kind: format!("{:?}", a.kind()), bytes: a.to_bytes() }
}

fn outs_obs(os: &TransactionOutputs) -> Vec<OutObs> {
    (0..os.len()).map(|k| out_obs(&os.get(k))).collect()
}

fn decode_cont(c: Cont, b: &[u8]) -> Out<EmbObs> {
    let v = b.to_vec();
    match c {
        Cont::OutLegacy | Cont::OutMap => {
            call(|| TransactionOutput::from_bytes(v).map(|o| EmbObs { outs: vec![out_obs(&o)], reenc: o.to_bytes() }))
        }
        Cont::Body => call(|| TransactionBody::from_bytes(v).map(|t| EmbObs { outs: outs_obs(&t.outputs()), reenc: t.to_bytes() })),
        Cont::Tx => call(|| Transaction::from_bytes(v).map(|t| EmbObs { outs: outs_obs(&t.body().outputs()), reenc: t.to_bytes() })),
        Cont::UtxoLegacy | Cont::UtxoMap => {
            call(|| TransactionUnspentOutput::from_bytes(v).map(|u| EmbObs { outs: vec![out_obs(&u.output())], reenc: u.to_bytes() }))
        }
    }
}

fn out_addr_field(it: &Item) -> Option<Vec<u8>> {
    match &it.v {
        V::A(xs) => xs.first()?.as_bytes().map(|b| b.to_vec()),
        V::M(_) => it.map_get(0)?.as_bytes().map(|b| b.to_vec()),
        _ => None,
    }
}

fn body_fields(body: &Item) -> Option<Vec<Vec<u8>>> {
    body.map_get(1)?.as_arr()?.iter().map(out_addr_field).collect()
}

/// the address byte strings found in the re-encoded structure, read with the independent reader
fn extract_fields(c: Cont, reenc: &[u8]) -> Option<Vec<Vec<u8>>> {
    let it = cbor::parse(reenc).ok()?;
    match c {
        Cont::OutLegacy | Cont::OutMap => Some(vec![out_addr_field(&it)?]),
        Cont::Body => body_fields(&it),
        Cont::Tx => body_fields(it.as_arr()?.first()?),
        Cont::UtxoLegacy | Cont::UtxoMap => Some(vec![out_addr_field(it.as_arr()?.get(1)?)?]),
    }
}

/// true when the same structure with a known-good address decodes (validates our own encoding)
fn control_ok(ctx: &mut Ctx, c: Cont, s: &Shape) -> bool {
    let good = good_addr();
    let (wire, want) = build(c, &good, s);
    let ok = match decode_cont(c, &wire) {
        Out::Ok(o) => {
            let fields = extract_fields(c, &o.reenc);
            o.outs.len() == want.len() && o.outs.iter().all(|x| !x.malformed && x.bytes == good) && fields.as_ref() == Some(&want)
        }
        _ => false,
    };
    if ok {
        ctx.bucket("c.control.ok");
    } else {
        ctx.bucket("skipped.control-failed");
        ctx.violation(&format!("embedded-control/{}/known-good-structure-not-decoded", c.name()), json!({"wire": hx(&wire)}));
    }
    ok
}

/// group (c) for one byte string: six containers
fn check_embedded(ctx: &mut Ctx, x: &[u8], r: &mut Rng, force_control: bool) {
    let cls = classify(x);
    verdict_bucket(ctx, "c", &cls);
    let s = gen_shape(r);
    let good = good_addr();
    for c in CONTS {
        ctx.eval();
        if force_control {
            control_ok(ctx, c, &s);
        }
        let (wire, want) = build(c, x, &s);
        let ty = c.ty();
        let detail = |extra: serde_json::Value| {
            let mut d = json!({"address_bytes": hx(x), "class": cls.label(), "container": c.name(), "wire": hx(&wire)});
            if let (serde_json::Value::Object(m), serde_json::Value::Object(e)) = (&mut d, extra) {
                for (k, v) in e {
                    m.insert(k, v);
                }
            }
            d
        };
        let o = match decode_cont(c, &wire) {
            Out::Panic(p) => {
                ctx.bucket(&format!("c.container.{}.panic", c.name()));
                if force_control || control_ok(ctx, c, &s) {
                    ctx.violation(&format!("{}.from_bytes/{}", ty, p.sig()), detail(json!({"msg": p.msg, "loc": p.loc})));
                }
                continue;
            }
            Out::Err(e) => {
                ctx.bucket(&format!("c.container.{}.err", c.name()));
                if force_control || control_ok(ctx, c, &s) {
                    ctx.violation(
                        &format!("{}.from_bytes/undecodable-because-of-address/{}", ty, cls.label()),
                        detail(json!({"err": e})),
                    );
                }
                continue;
            }
            Out::Ok(o) => o,
        };
        ctx.bucket(&format!("c.container.{}.decoded", c.name()));
        if o.outs.len() != want.len() {
            ctx.violation(&format!("{}.from_bytes/output-count-changed", ty), detail(json!({"got": o.outs.len()})));
            continue;
        }
        let fields = match extract_fields(c, &o.reenc) {
            Some(f) if f.len() == want.len() => f,
            _ => {
                ctx.violation(&format!("{}.to_bytes/structure-not-recognisable", ty), detail(json!({"reencoded": hx(&o.reenc)})));
                continue;
            }
        };
        for k in 0..want.len() {
            let ob = &o.outs[k];
            if ob.malformed != (ob.kind == "Malformed") {
                ctx.violation("Address.is_malformed/disagrees-with-kind", detail(json!({"kind": ob.kind, "is_malformed": ob.malformed})));
            }
            if want[k] == good && x != &good[..] {
                // neighbours with a good address must be unaffected
                if ob.malformed || ob.bytes != good || fields[k] != good {
                    ctx.violation(&format!("{}.from_bytes/neighbour-output-corrupted", ty), detail(json!({"position": k, "reencoded": hx(&o.reenc)})));
                }
                continue;
            }
            if ob.malformed {
                ctx.bucket("c.lib.malformed");
                if fields[k] != x || ob.bytes != x {
                    ctx.violation(
                        &format!("{}.to_bytes/malformed-address-not-verbatim", ty),
                        detail(json!({"position": k, "field_after": hx(&fields[k]), "address_to_bytes": hx(&ob.bytes), "reencoded": hx(&o.reenc)})),
                    );
                }
                if let Verdict::Accept(d) = &cls.verdict {
                    ctx.violation(
                        &format!("{}.from_bytes/valid-address-reported-malformed/{}", ty, d.kind.name()),
                        detail(json!({"position": k})),
                    );
                }
                ctx.sample("embedded-malformed", || json!({"address_bytes": hx(x), "class": cls.label(), "container": c.name(), "wire": hx(&wire)}));
            } else {
                ctx.bucket("c.lib.typed");
                ctx.bucket(&format!("c.lib.typed.{}", ob.kind));
                match (&cls.verdict, cls.prefix) {
                    (Verdict::Accept(d), _) => {
                        if ob.kind != d.kind.name() {
                            ctx.violation(&format!("{}.from_bytes/embedded-kind", ty), detail(json!({"position": k, "got": ob.kind})));
                        }
                        if fields[k] != x || ob.bytes != x {
                            ctx.violation(
                                &format!("{}.to_bytes/valid-address-changed/{}", ty, d.kind.name()),
                                detail(json!({"position": k, "field_after": hx(&fields[k])})),
                            );
                        }
                    }
                    (_, Prefix::NoneValid) => {
                        ctx.violation(
                            &format!("{}.from_bytes/invalid-address-bytes-reported-as-{}/{}", ty, ob.kind, cls.label()),
                            detail(json!({"position": k, "field_after": hx(&fields[k])})),
                        );
                    }
                    (_, Prefix::Trailing) => {
                        // a valid address followed by more bytes is classified as that address (a mainnet block
                        // holds such an output, and a test of the repository pins its kind); what the statement
                        // demands all the same is that the bytes are written back unchanged
                        ctx.bucket("c.lenient.trailing-bytes-accepted");
                        if fields[k] != x {
                            ctx.violation("embedded/trailing-bytes-after-a-valid-address-dropped-on-rewrite", detail(json!({"position": k, "container": ty, "field_after": hx(&fields[k])})));
                        }
                    }
                    _ => ctx.bucket("c.lenient.dont-care-accepted"),
                }
                ctx.sample("embedded-typed", || json!({"address_bytes": hx(x), "class": cls.label(), "container": c.name(), "kind": ob.kind}));
            }
        }
    }
}

// ------------------------------------------------------------------------------------------------
// generators

const PTR_EDGES: [u64; 9] = [0, 127, 128, 16383, 16384, 0xffff_ffff, 0x1_0000_0000, 1 << 63, u64::MAX];

fn gen_ptr_val(r: &mut Rng) -> u64 {
    match r.below(4) {
        0 => *r.pick(&PTR_EDGES),
        1 => r.wide_u64(),
        2 => {
            // around a 7-bit group boundary
            let g = 1 + r.below(9);
            let b = 1u64 << (7 * g).min(63);
            if r.bool() {
                b.wrapping_sub(r.below(2))
            } else {
                b.wrapping_add(r.below(2))
            }
        }
        _ => r.below(1 << 24),
    }
}

/// a minimal, in-range var-nat of exactly `l` bytes (1..=10)
fn varnat_of_len(r: &mut Rng, l: usize) -> Vec<u8> {
    if l <= 1 {
        return vec![r.below(128) as u8];
    }
    let mut v = Vec::with_capacity(l);
    v.push(if l >= 10 { 0x81 } else { 0x81 + r.below(127) as u8 });
    for _ in 0..l.saturating_sub(2).min(8) {
        v.push(0x80 | r.below(128) as u8);
    }
    v.push(r.below(128) as u8);
    v
}

fn gen_byron_magic(r: &mut Rng, mlen: Option<usize>) -> Option<u64> {
    match mlen {
        None => None,
        Some(1) => Some(r.below(24)),
        Some(2) => Some(24 + r.below(232)),
        Some(3) => Some(256 + r.below(65536 - 256)),
        _ => Some(if r.chance(1, 3) { MAINNET_MAGIC } else { 65536 + r.below((u32::MAX as u64) - 65535) }),
    }
}

fn gen_byron_spec(r: &mut Rng) -> ByronSpec {
    let mlen = *r.pick(&[None, None, Some(1usize), Some(2), Some(3), Some(5), Some(5)]);
    let dl = r.usize(65);
    let deriv = if r.bool() { None } else { Some(cbor::to_vec(&Item::bytes(&r.bytes(dl)))) };
    ByronSpec { root: r.bytes(28), deriv, magic: gen_byron_magic(r, mlen), typ: r.below(3) }
}

const MLENS: [Option<usize>; 5] = [None, Some(1), Some(2), Some(3), Some(5)];

/// a canonical Byron address of exactly `target` bytes, if the format allows that length
fn craft_byron_with_len(r: &mut Rng, target: usize) -> Option<Vec<u8>> {
    let mut combos: Vec<(Option<usize>, Option<usize>)> = Vec::new();
    for m in MLENS {
        if byron_total_len(m, None) == target {
            combos.push((m, None));
        }
        for n in 0..=64usize {
            if byron_total_len(m, Some(n)) == target {
                combos.push((m, Some(n)));
            }
        }
    }
    if combos.is_empty() {
        return None;
    }
    let (m, d) = *r.pick(&combos);
    let spec = ByronSpec {
        root: r.bytes(28),
        deriv: d.map(|n| cbor::to_vec(&Item::bytes(&r.bytes(n)))),
        magic: gen_byron_magic(r, m),
        typ: r.below(3),
    };
    Some(enc_byron(&spec))
}

fn fill_random(r: &mut Rng, b: &mut Vec<u8>, len: usize) {
    if b.len() < len {
        let n = len - b.len();
        b.extend(r.bytes(n));
    }
    b.truncate(len);
}

fn pointer_content(r: &mut Rng, header: u8, len: usize) -> Vec<u8> {
    let mut b = vec![header];
    b.extend(r.bytes(28));
    let rem = len.saturating_sub(29);
    let mode = r.below(6);
    let mut pad_cont = false;
    match mode {
        0 if (3..=30).contains(&rem) => {
            // exact fit, three minimal in-range var-nats
            let lo1 = rem.saturating_sub(20).max(1);
            let hi1 = rem.saturating_sub(2).min(10);
            let l1 = r.range(lo1 as u64, hi1 as u64) as usize;
            let rest = rem.saturating_sub(l1);
            let lo2 = rest.saturating_sub(10).max(1);
            let hi2 = rest.saturating_sub(1).min(10);
            let l2 = r.range(lo2 as u64, hi2 as u64) as usize;
            let l3 = rest.saturating_sub(l2).clamp(1, 10);
            for l in [l1, l2, l3] {
                b.extend(varnat_of_len(r, l));
            }
        }
        2 => {
            // unterminated: j complete fields, then continuation bits to the end
            for _ in 0..r.below(3) {
                b.extend(codec::varnat_encode(gen_ptr_val(r)));
            }
            pad_cont = true;
        }
        3 => {
            // a field above 2^64-1
            let at = r.below(3);
            for k in 0..3 {
                if k == at {
                    if r.bool() {
                        b.push(0x82 + r.below(126) as u8);
                        for _ in 0..8 {
                            b.push(0x80 | r.below(128) as u8);
                        }
                    } else {
                        b.push(0x81 + r.below(127) as u8);
                        for _ in 0..9 + r.below(3) {
                            b.push(0x80 | r.below(128) as u8);
                        }
                    }
                    b.push(r.below(128) as u8);
                } else {
                    b.extend(codec::varnat_encode(gen_ptr_val(r)));
                }
            }
        }
        4 => {
            // non-minimal: 0x80 prefix on one field
            let at = r.below(3);
            for k in 0..3 {
                if k == at {
                    let maxpad = if r.chance(1, 8) { 24 } else { 3 };
                    for _ in 0..1 + r.below(maxpad) {
                        b.push(0x80);
                    }
                }
                b.extend(codec::varnat_encode(gen_ptr_val(r)));
            }
        }
        5 => {
            // small valid triple, then trailing bytes up to the cell length
            for _ in 0..3 {
                b.extend(codec::varnat_encode(r.below(300)));
            }
        }
        _ => {
            for _ in 0..3 {
                b.extend(codec::varnat_encode(gen_ptr_val(r)));
            }
        }
    }
    if pad_cont {
        while b.len() < len {
            b.push(0x80 | r.below(128) as u8);
        }
    }
    fill_random(r, &mut b, len);
    b
}

fn byron_content(r: &mut Rng, header: u8, len: usize) -> Vec<u8> {
    let mut b: Vec<u8> = match r.below(6) {
        0 | 1 => craft_byron_with_len(r, len).unwrap_or_default(),
        2 => {
            // valid, then trailing bytes
            let shorter = r.range(43, len.saturating_sub(1).max(43) as u64) as usize;
            craft_byron_with_len(r, shorter).unwrap_or_default()
        }
        3 => {
            // bad CRC: disturb the last (CRC) bytes
            let mut v = craft_byron_with_len(r, len).unwrap_or_default();
            if let Some(last) = v.last_mut() {
                *last ^= 1 + r.below(255) as u8;
            }
            v
        }
        4 => {
            // truncated: a longer valid address cut to the cell length
            let longer = r.range(len as u64 + 1, 119) as usize;
            let mut v = craft_byron_with_len(r, longer.max(43)).unwrap_or_else(|| enc_byron(&gen_byron_spec(r)));
            v.truncate(len);
            v
        }
        _ => {
            // non-canonical CRC width
            let spec = gen_byron_spec(r);
            let p = byron_payload(&spec);
            cbor::to_vec(&Item::arr(vec![Item::tag(24, Item::bytes(&p)), Item::u(codec::crc32(&p) as u64).with_width(8)]))
        }
    };
    if b.is_empty() {
        b.push(header);
    }
    b[0] = header;
    fill_random(r, &mut b, len);
    b
}

/// content k of cell (header, len); a pure function of the generator state handed in
fn cell_content(r: &mut Rng, header: u8, len: usize, k: u64) -> Vec<u8> {
    if len == 0 {
        return vec![];
    }
    let t = header >> 4;
    if k % 2 == 1 {
        if (t == 4 || t == 5) && len > 29 {
            return pointer_content(r, header, len);
        }
        if t == 8 {
            return byron_content(r, header, len);
        }
    } else if header == 0x82 && k >= 2 && k % 8 != 6 {
        // the only header byte a Byron address can start with: mostly crafted CBOR
        return byron_content(r, header, len);
    }
    let mut b = vec![header];
    if k % 8 == 6 {
        let c = *r.pick(&[0x00u8, 0xff, 0x80, 0x7f]);
        b.resize(len, c);
    } else {
        fill_random(r, &mut b, len);
    }
    b
}

fn contents_per_cell(ctx: &Ctx) -> u64 {
    if ctx.quick() {
        32
    } else {
        640
    }
}

fn cell_rng(ctx: &Ctx, i: u64) -> Rng {
    // shared by strict-cells and embedded-cells so that both judge the same byte strings
    Rng::derive(ctx.seed, "C11/cell-content", i)
}

// ------------------------------------------------------------------------------------------------
// streams (b) and (c)

fn strict_cells(ctx: &mut Ctx, r: &mut Rng, i: u64) {
    let header = (i / 81) as u8;
    let len = (i % 81) as usize;
    let mut cr = cell_rng(ctx, i);
    for k in 0..contents_per_cell(ctx) {
        let b = cell_content(&mut cr, header, len, k);
        check_strict(ctx, &b, r);
    }
    // invalid hex text must be an explicit error
    let mut s = hx(&cell_content(&mut cr, header, len.max(1), 0));
    match i % 3 {
        0 => s.push('0'),
        1 => s.replace_range(0..1, "g"),
        _ => s.push_str("zz"),
    }
    ctx.eval();
    match call(|| Address::from_hex(&s)) {
        Out::Ok(_) => ctx.violation("Address.from_hex/accepted/invalid-hex", json!({"hex": s})),
        Out::Err(_) => ctx.bucket("b.invalid-hex.err"),
        Out::Panic(p) => ctx.violation(&format!("Address.from_hex/{}", p.sig()), json!({"hex": s, "msg": p.msg})),
    }
}

fn embedded_cells(ctx: &mut Ctx, r: &mut Rng, i: u64) {
    let header = (i / 81) as u8;
    let len = (i % 81) as usize;
    let mut cr = cell_rng(ctx, i);
    for k in 0..contents_per_cell(ctx) {
        let b = cell_content(&mut cr, header, len, k);
        check_embedded(ctx, &b, r, k == 0);
    }
}

// ------------------------------------------------------------------------------------------------
// group (a): typed round trips

fn lib_cred(c: &Cred) -> Result<Credential, String> {
    if c.0 {
        ScriptHash::from_bytes(c.1.clone()).map(|h| Credential::from_scripthash(&h)).map_err(|e| format!("{:?}", e))
    } else {
        Ed25519KeyHash::from_bytes(c.1.clone()).map(|h| Credential::from_keyhash(&h)).map_err(|e| format!("{:?}", e))
    }
}

/// build the address through the typed constructors of the library
fn lib_build(d: &Decoded) -> Result<Address, String> {
    let pay = lib_cred(d.pay.as_ref().ok_or("no payment cred")?)?;
    Ok(match d.kind {
        Kind::Base => BaseAddress::new(d.network, &pay, &lib_cred(d.stake.as_ref().ok_or("no stake cred")?)?).to_address(),
        Kind::Pointer => {
            let (a, b, c) = d.ptr.ok_or("no pointer")?;
            let p = Pointer::new_pointer(&BigNum::from(a), &BigNum::from(b), &BigNum::from(c));
            PointerAddress::new(d.network, &pay, &p).to_address()
        }
        Kind::Enterprise => EnterpriseAddress::new(d.network, &pay).to_address(),
        Kind::Reward => RewardAddress::new(d.network, &pay).to_address(),
        Kind::Byron => return Err("byron".into()),
    })
}

const HRP_CHARS: &[u8] = b"abcdefghijklmnopqrstuvwxyz0123456789_-!#$%&'()*+,./:;<=>?@[]^`{|}~\"\\";

fn gen_hrp(r: &mut Rng) -> String {
    let n = match r.below(6) {
        0 => 1,
        1 => 83,
        2 => 1 + r.usize(83),
        _ => 1 + r.usize(12),
    };
    let mut s: String = (0..n).map(|_| *r.pick(HRP_CHARS) as char).collect();
    if r.chance(1, 8) {
        s = s.to_ascii_uppercase();
    }
    s
}

/// text / binary round trips of an address whose reference encoding is `exp`
fn check_roundtrips(ctx: &mut Ctx, entry: &str, addr: &Address, exp: &[u8], d: &Decoded, r: &mut Rng) {
    let det = |extra: serde_json::Value| {
        let mut v = json!({"bytes": hx(exp), "kind": d.kind.name()});
        if let (serde_json::Value::Object(m), serde_json::Value::Object(e)) = (&mut v, extra) {
            for (k, x) in e {
                m.insert(k, x);
            }
        }
        v
    };
    // what the object reports
    match observe(addr) {
        Ok(o) => compare(ctx, entry, &o, d, exp),
        Err(p) => {
            ctx.violation(&format!("{}/accessors/{}", entry, p.sig()), det(json!({"msg": p.msg})));
            return;
        }
    }
    // default prefix
    let family = if d.kind == Kind::Reward { "stake" } else { "addr" };
    let mut texts: Vec<(String, String)> = Vec::new();
    match call(|| addr.to_bech32(None)) {
        Out::Ok(s) => {
            ctx.bucket("a.bech32.default.ok");
            match codec::bech32_decode(&s) {
                Ok((hrp, payload)) => {
                    if payload != exp {
                        ctx.violation(&format!("{}/to_bech32/payload-differs", entry), det(json!({"bech32": s, "payload": hx(&payload)})));
                    }
                    let net = if d.kind == Kind::Byron {
                        match d.byron.as_ref().and_then(|b| b.magic).unwrap_or(MAINNET_MAGIC) {
                            MAINNET_MAGIC => Some(1),
                            _ => Some(0),
                        }
                    } else {
                        Some(d.network)
                    };
                    let plain = family.to_string();
                    let test = format!("{}_test", family);
                    let ok = match net {
                        Some(0) => hrp == test,
                        Some(1) => hrp == plain,
                        _ => hrp == plain || hrp == test,
                    };
                    if !ok {
                        ctx.violation(&format!("{}/to_bech32/default-prefix", entry), det(json!({"bech32": s, "hrp": hrp, "network": format!("{:?}", net)})));
                    }
                }
                Err(e) => ctx.violation(&format!("{}/to_bech32/not-decodable-by-reference", entry), det(json!({"bech32": s, "err": format!("{:?}", e)}))),
            }
            texts.push(("default".into(), s));
        }
        Out::Err(e) => {
            // explicit error is expected only for a Byron address with a magic the library does not map
            let byron_unknown = d.kind == Kind::Byron && !matches!(d.byron.as_ref().and_then(|b| b.magic), None | Some(MAINNET_MAGIC) | Some(1) | Some(2));
            if byron_unknown {
                ctx.bucket("a.bech32.default.err-explicit-unknown-byron-network");
            } else {
                ctx.violation(&format!("{}/to_bech32/error-on-default-prefix", entry), det(json!({"err": e})));
            }
        }
        Out::Panic(p) => ctx.violation(&format!("{}/to_bech32/{}", entry, p.sig()), det(json!({"msg": p.msg}))),
    }
    // arbitrary prefix
    let hrp = gen_hrp(r);
    match call(|| addr.to_bech32(Some(hrp.clone()))) {
        Out::Ok(s) => {
            ctx.bucket("a.bech32.custom-prefix.ok");
            match codec::bech32_decode(&s) {
                Ok((h, payload)) => {
                    if h != hrp.to_ascii_lowercase() || payload != exp {
                        ctx.violation(&format!("{}/to_bech32/custom-prefix-output-differs", entry), det(json!({"prefix": hrp, "bech32": s})));
                    }
                    if s != codec::bech32_encode(&hrp.to_ascii_lowercase(), exp) {
                        ctx.violation(&format!("{}/to_bech32/differs-from-reference-encoding", entry), det(json!({"prefix": hrp, "bech32": s})));
                    }
                }
                Err(e) => ctx.violation(&format!("{}/to_bech32/not-decodable-by-reference", entry), det(json!({"prefix": hrp, "bech32": s, "err": format!("{:?}", e)}))),
            }
            if r.chance(1, 4) {
                texts.push(("custom-upper".into(), s.to_ascii_uppercase()));
            }
            texts.push(("custom".into(), s));
        }
        Out::Err(e) => ctx.violation(&format!("{}/to_bech32/error-on-valid-prefix", entry), det(json!({"prefix": hrp, "err": e}))),
        Out::Panic(p) => ctx.violation(&format!("{}/to_bech32/{}", entry, p.sig()), det(json!({"prefix": hrp, "msg": p.msg}))),
    }
    // an invalid prefix must be an explicit error (or, if accepted, still decodable)
    if r.chance(1, 16) {
        let bad = r.pick(&["", "Addr", "a b", "\u{e9}", "x\u{7f}"]).to_string();
        match call(|| addr.to_bech32(Some(bad.clone()))) {
            Out::Ok(s) => {
                if codec::bech32_decode(&s).map(|x| x.1 != exp).unwrap_or(true) {
                    ctx.violation(&format!("{}/to_bech32/invalid-prefix-accepted-undecodable", entry), det(json!({"prefix": bad, "bech32": s})));
                }
            }
            Out::Err(_) => ctx.bucket("a.bech32.invalid-prefix.err-explicit"),
            Out::Panic(p) => ctx.violation(&format!("{}/to_bech32/{}", entry, p.sig()), det(json!({"prefix": bad, "msg": p.msg}))),
        }
    }
    texts.push(("reference".into(), codec::bech32_encode(*r.pick(&HRPS), exp)));
    // back
    for (what, s) in &texts {
        ctx.eval();
        match call(|| Address::from_bech32(s)) {
            Out::Ok(a2) => {
                if guard(|| &a2 == addr && a2.to_bytes() == exp).ok() != Some(true) {
                    ctx.violation(&format!("{}/from_bech32/not-equal", entry), det(json!({"which": what, "bech32": s})));
                }
            }
            Out::Err(e) => ctx.violation(&format!("{}/from_bech32/rejected-own-output", entry), det(json!({"which": what, "bech32": s, "err": e}))),
            Out::Panic(p) => ctx.violation(&format!("{}/from_bech32/{}", entry, p.sig()), det(json!({"which": what, "bech32": s}))),
        }
    }
    for e in [Entry::FromBytes, Entry::FromHex] {
        ctx.eval();
        match parse_with(e, exp, "addr") {
            Out::Ok(a2) => {
                if guard(|| &a2 == addr && a2.to_bytes() == exp).ok() != Some(true) {
                    ctx.violation(&format!("{}/{}/not-equal", entry, e.name()), det(json!({})));
                }
            }
            Out::Err(err) => ctx.violation(&format!("{}/{}/rejected-own-output", entry, e.name()), det(json!({"err": err}))),
            Out::Panic(p) => ctx.violation(&format!("{}/{}/{}", entry, e.name(), p.sig()), det(json!({}))),
        }
    }
    if d.kind == Kind::Byron {
        let b58 = codec::base58_encode(exp);
        ctx.eval();
        match call(|| ByronAddress::from_base58(&b58)) {
            Out::Ok(b2) => {
                if guard(|| &b2.to_address() == addr && b2.to_bytes() == exp && b2.to_base58() == b58).ok() != Some(true) {
                    ctx.violation(&format!("{}/from_base58/not-equal", entry), det(json!({"base58": b58})));
                }
            }
            Out::Err(e) => ctx.violation(&format!("{}/from_base58/rejected-own-output", entry), det(json!({"base58": b58, "err": e}))),
            Out::Panic(p) => ctx.violation(&format!("{}/from_base58/{}", entry, p.sig()), det(json!({"base58": b58}))),
        }
        match guard(|| ByronAddress::is_valid(&b58)) {
            Ok(true) => {}
            Ok(false) => ctx.violation(&format!("{}/is_valid/false-on-valid", entry), det(json!({"base58": b58}))),
            Err(p) => ctx.violation(&format!("{}/is_valid/{}", entry, p.sig()), det(json!({"base58": b58}))),
        }
    }
}

fn typed_case(ctx: &mut Ctx, r: &mut Rng, d: Decoded) {
    ctx.eval();
    let exp = enc_shelley(&d);
    ctx.nontrivial_bytes("addr", &exp);
    // the classifier must agree with the encoder (self-check of the reference)
    match classify(&exp).verdict {
        Verdict::Accept(ref d2) if *d2 == d => {}
        _ => {
            ctx.bucket("skipped.reference-self-check-failed");
            ctx.violation("reference/self-check-failed", json!({"bytes": hx(&exp)}));
            return;
        }
    }
    let addr = match call(|| lib_build(&d)) {
        Out::Ok(a) => a,
        Out::Err(e) => {
            ctx.violation("typed/constructor-error", json!({"bytes": hx(&exp), "err": e}));
            return;
        }
        Out::Panic(p) => {
            ctx.violation(&format!("typed/constructor/{}", p.sig()), json!({"bytes": hx(&exp)}));
            return;
        }
    };
    ctx.bucket(&format!("a.kind.{}", d.kind.name()));
    ctx.bucket(&format!("a.net.{}", d.network));
    ctx.bucket(&format!("a.header-nibble.{}", exp[0] >> 4));
    check_roundtrips(ctx, "typed", &addr, &exp, &d, r);
    ctx.sample("typed-shelley", || json!({"bytes": hx(&exp), "kind": d.kind.name(), "network": d.network, "pointer": format!("{:?}", d.ptr)}));
}

const NIBBLES: [u8; 10] = [0, 1, 2, 3, 4, 5, 6, 7, 14, 15];

fn decoded_for(nib: u8, network: u8, r: &mut Rng, ptr: Option<(u64, u64, u64)>) -> Decoded {
    let pay = Some((nib & 1 != 0, r.bytes(28)));
    match nib {
        0..=3 => Decoded { kind: Kind::Base, network, pay, stake: Some((nib & 2 != 0, r.bytes(28))), ptr: None, byron: None },
        4 | 5 => {
            let p = ptr.unwrap_or_else(|| (gen_ptr_val(r), gen_ptr_val(r), gen_ptr_val(r)));
            Decoded { kind: Kind::Pointer, network, pay, stake: None, ptr: Some(p), byron: None }
        }
        6 | 7 => Decoded { kind: Kind::Enterprise, network, pay, stake: None, ptr: None, byron: None },
        _ => Decoded { kind: Kind::Reward, network, pay, stake: None, ptr: None, byron: None },
    }
}

/// the typed constructors take the network id as a u8 although the header has four bits for it: what
/// does an id above 15 turn into? (the assumption of the other streams, judged here on its own)
fn wide_network_id(ctx: &mut Ctx, r: &mut Rng, i: u64) {
    ctx.eval();
    let net = 16 + r.below(240) as u8;
    let cred = Credential::from_keyhash(&Ed25519KeyHash::from_bytes(r.bytes(28)).unwrap());
    let (kind, addr) = match i / 16 % 4 {
        0 => ("BaseAddress", BaseAddress::new(net, &cred, &cred).to_address()),
        1 => ("EnterpriseAddress", EnterpriseAddress::new(net, &cred).to_address()),
        2 => ("RewardAddress", RewardAddress::new(net, &cred).to_address()),
        _ => ("PointerAddress", PointerAddress::new(net, &cred, &Pointer::new_pointer(&BigNum::from(1u64), &BigNum::from(2u64), &BigNum::from(3u64))).to_address()),
    };
    let bytes = match guard(|| addr.to_bytes()) {
        Ok(b) => b,
        Err(p) => {
            ctx.violation(&format!("{}::new(network > 15)/{}", kind, p.sig()), json!({"network": net}));
            return;
        }
    };
    ctx.nontrivial_bytes("widenet", &bytes);
    match guard(|| Address::from_bytes(bytes.clone()).map(|a| (a.network_id().ok(), a.to_bytes()))) {
        Ok(Ok((n2, b2))) => {
            if n2 != Some(net) || b2 != bytes || addr.network_id().ok() != n2 {
                ctx.violation(
                    "typed-constructor/network-id-above-15/api-accepts-u8-network-id",
                    json!({"constructor": kind, "network_given": net, "address_reports": format!("{:?}", addr.network_id().ok()), "bytes": hx(&bytes), "decoded_reports": format!("{:?}", n2)}),
                );
            } else {
                ctx.bucket("wide-network-id.round-trips");
            }
        }
        Ok(Err(_)) => ctx.violation("typed-constructor/network-id-above-15/own-bytes-rejected", json!({"constructor": kind, "network_given": net, "bytes": hx(&bytes)})),
        Err(p) => ctx.violation(&format!("Address::from_bytes/{}", p.sig()), json!({"bytes": hx(&bytes)})),
    }
}

fn typed_shelley(ctx: &mut Ctx, r: &mut Rng, i: u64) {
    // every header type x network is hit round-robin; pointers get extra weight
    let combo = i % 160;
    let mut nib = NIBBLES[(combo / 16) as usize];
    // rotate the network so that it is not tied to the shard number
    let network = ((combo % 16 + i / 160) % 16) as u8;
    if (i / 160) % 3 == 1 {
        nib = 4 + (nib & 1);
    }
    let d = decoded_for(nib, network, r, None);
    typed_case(ctx, r, d);
}

fn typed_pointer_edges(ctx: &mut Ctx, r: &mut Rng, i: u64) {
    let script = i / 729;
    let t = i % 729;
    let p = (PTR_EDGES[(t / 81) as usize], PTR_EDGES[((t / 9) % 9) as usize], PTR_EDGES[(t % 9) as usize]);
    let d = decoded_for(4 + (script & 1) as u8, ((i / 16 + i) % 16) as u8, r, Some(p));
    ctx.bucket("a.pointer-edge-triple");
    typed_case(ctx, r, d);
}

fn typed_byron(ctx: &mut Ctx, r: &mut Rng, i: u64) {
    ctx.eval();
    let icarus = i % 4 == 0;
    let (spec, addr) = if icarus {
        let key = match xpub(ctx, (i / 4) as usize) {
            Some(k) => k,
            None => {
                ctx.bucket("skipped.no-keys");
                return;
            }
        };
        let magic = match (i / 4) % 5 {
            0 => MAINNET_MAGIC,
            1 => 1,
            2 => 2,
            3 => r.u32() as u64,
            _ => *r.pick(&[0u64, 23, 24, 255, 256, 65535, 65536, 1097911063, u32::MAX as u64]),
        };
        // the constructor documents that the mainnet magic is omitted
        let stored = if magic == MAINNET_MAGIC { None } else { Some(magic) };
        let spec = ByronSpec { root: icarus_root(&key, stored), deriv: None, magic: stored, typ: 0 };
        let a = call(|| Bip32PublicKey::from_bytes(&key).map(|k| ByronAddress::icarus_from_key(&k, magic as u32).to_address()));
        ctx.bucket("a.byron.icarus");
        (spec, a)
    } else {
        // exhaustive over derivation payload absent / 0..=64 and the magic classes
        let j = i / 4;
        let dsel = j % 66;
        let deriv = if dsel == 65 { None } else { Some(cbor::to_vec(&Item::bytes(&r.bytes(dsel as usize)))) };
        let magic = match (j / 66) % 6 {
            0 => None,
            1 => Some(MAINNET_MAGIC),
            2 => Some(r.u32() as u64),
            3 => Some(*r.pick(&[0u64, 1, 2, 23, 24, 255, 256, 65535, 65536, u32::MAX as u64])),
            4 => Some(1097911063),
            _ => None,
        };
        let spec = ByronSpec { root: r.bytes(28), deriv, magic, typ: (j / 7) % 3 };
        let bytes = enc_byron(&spec);
        let a = call(|| ByronAddress::from_bytes(bytes).map(|b| b.to_address()));
        ctx.bucket("a.byron.encoded");
        (spec, a)
    };
    let exp = enc_byron(&spec);
    ctx.nontrivial_bytes("addr", &exp);
    let d = Decoded { kind: Kind::Byron, network: 0, pay: None, stake: None, ptr: None, byron: Some(spec.clone()) };
    match classify(&exp).verdict {
        Verdict::Accept(ref d2) if *d2 == d => {}
        _ => {
            ctx.bucket("skipped.reference-self-check-failed");
            ctx.violation("reference/self-check-failed", json!({"bytes": hx(&exp)}));
            return;
        }
    }
    let entry = if icarus { "typed-byron-icarus" } else { "typed-byron" };
    let addr = match addr {
        Out::Ok(a) => a,
        Out::Err(e) => {
            ctx.violation(&format!("{}/rejected/canonical-Byron", entry), json!({"bytes": hx(&exp), "err": e}));
            return;
        }
        Out::Panic(p) => {
            ctx.violation(&format!("{}/constructor/{}", entry, p.sig()), json!({"bytes": hx(&exp), "msg": p.msg}));
            return;
        }
    };
    ctx.bucket("a.kind.Byron");
    ctx.bucket(if spec.deriv.is_some() { "a.byron.deriv-present" } else { "a.byron.deriv-absent" });
    ctx.bucket(match spec.magic {
        None => "a.byron.magic-absent",
        Some(MAINNET_MAGIC) => "a.byron.magic-mainnet-explicit",
        Some(_) => "a.byron.magic-other",
    });
    check_roundtrips(ctx, entry, &addr, &exp, &d, r);
    ctx.sample(entry, || json!({"bytes": hx(&exp), "base58": codec::base58_encode(&exp), "magic": format!("{:?}", spec.magic), "type": spec.typ}));
}

// ------------------------------------------------------------------------------------------------
// structurally mutated Byron addresses (any length), judged by (b) and (c)

#[derive(Default)]
struct BOpts {
    outer_indef: bool,
    outer_extra: bool,
    drop_crc: bool,
    tag: Option<u64>,
    no_tag: bool,
    crc_width: Option<u8>,
    crc_xor: u64,
    crc_fixed: Option<u64>,
    payload_chunked: bool,
    inner_indef: bool,
    attrs_indef: bool,
    swap_keys: bool,
    dup_key: bool,
    extra_key: Option<u64>,
    typ_width: Option<u8>,
    magic_raw: Option<Vec<u8>>,
}

fn byron_build(s: &ByronSpec, o: &BOpts) -> Vec<u8> {
    let mut m: Vec<(Item, Item)> = Vec::new();
    if let Some(d) = &s.deriv {
        m.push((Item::u(1), Item::bytes(d)));
    }
    if s.magic.is_some() || o.magic_raw.is_some() {
        let raw = o.magic_raw.clone().unwrap_or_else(|| cbor::to_vec(&Item::u(s.magic.unwrap_or(0))));
        m.push((Item::u(2), Item::bytes(&raw)));
    }
    if o.swap_keys {
        m.reverse();
    }
    if o.dup_key {
        if let Some(first) = m.first().cloned() {
            m.push(first);
        }
    }
    if let Some(k) = o.extra_key {
        m.push((Item::u(k), Item::bytes(&[0x00])));
    }
    let mut attrs = Item::map(m);
    if o.attrs_indef {
        attrs = attrs.indef();
    }
    let mut typ = Item::u(s.typ);
    if let Some(w) = o.typ_width {
        typ = typ.with_width(w);
    }
    let mut inner = Item::arr(vec![Item::bytes(&s.root), attrs, typ]);
    if o.inner_indef {
        inner = inner.indef();
    }
    let payload = cbor::to_vec(&inner);
    let crc = o.crc_fixed.unwrap_or(codec::crc32(&payload) as u64 ^ o.crc_xor);
    let mut pb = Item::bytes(&payload);
    if o.payload_chunked && payload.len() > 2 {
        let cut = payload.len() / 2;
        pb.chunks = vec![(cut, cbor::min_width(cut as u64)), (payload.len() - cut, cbor::min_width((payload.len() - cut) as u64))];
        pb = pb.indef();
    }
    let first = if o.no_tag { pb } else { Item::tag(o.tag.unwrap_or(24), pb) };
    let mut crc_item = Item::u(crc);
    if let Some(w) = o.crc_width {
        crc_item = crc_item.with_width(w);
    }
    let mut xs = vec![first];
    if !o.drop_crc {
        xs.push(crc_item);
    }
    if o.outer_extra {
        xs.push(Item::u(0));
    }
    let mut outer = Item::arr(xs);
    if o.outer_indef {
        outer = outer.indef();
    }
    cbor::to_vec(&outer)
}

fn byron_mutant(r: &mut Rng) -> (Vec<u8>, &'static str) {
    let mut s = gen_byron_spec(r);
    let mut o = BOpts::default();
    let mut post: u8 = 0;
    let label = match r.below(27) {
        0 | 1 => "valid",
        2 => {
            post = 1;
            "trailing-random"
        }
        3 => {
            post = 2;
            "trailing-second-address"
        }
        4 => {
            if r.bool() {
                // the right low 32 bits under wrong high bits: a checksum compared after truncation lets it through
                o.crc_xor = (1 + r.below(u32::MAX as u64)) << 32;
                "crc-high-bits"
            } else {
                o.crc_xor = 1 + r.below(u32::MAX as u64);
                "crc-xor"
            }
        }
        5 => {
            o.crc_fixed = Some(*r.pick(&[0u64, 1, 23, 0xffff_ffff, 0x1_0000_0000, u64::MAX]));
            "crc-fixed"
        }
        6 => {
            post = 3;
            "truncated"
        }
        7 => {
            o.outer_indef = true;
            "outer-indefinite"
        }
        8 => {
            o.outer_extra = true;
            "outer-three-elements"
        }
        9 => {
            o.drop_crc = true;
            "outer-one-element"
        }
        10 => {
            o.tag = Some(*r.pick(&[0u64, 23, 25, 258]));
            "wrong-tag"
        }
        11 => {
            o.crc_width = Some(8);
            "crc-wide"
        }
        12 => {
            o.payload_chunked = true;
            "payload-chunked"
        }
        13 => {
            o.inner_indef = true;
            "inner-indefinite"
        }
        14 => {
            let rl = *r.pick(&[0usize, 27, 29, 32]);
            s.root = r.bytes(rl);
            "root-length"
        }
        15 => {
            o.attrs_indef = true;
            "attributes-indefinite"
        }
        16 => {
            if s.deriv.is_none() {
                let dl = r.usize(20);
                s.deriv = Some(cbor::to_vec(&Item::bytes(&r.bytes(dl))));
            }
            if s.magic.is_none() {
                s.magic = Some(r.u32() as u64);
            }
            o.swap_keys = true;
            "attribute-keys-swapped"
        }
        17 => {
            if s.magic.is_none() {
                s.magic = Some(r.u32() as u64);
            }
            o.dup_key = true;
            "attribute-key-duplicated"
        }
        18 => {
            o.extra_key = Some(*r.pick(&[0u64, 3, 24, 1 << 32]));
            "attribute-key-unknown"
        }
        19 => {
            s.typ = 3 + r.below(30);
            "address-type-unknown"
        }
        20 => {
            s.magic = Some((1u64 << 32) + r.below(1 << 20));
            "magic-above-u32"
        }
        21 => {
            let m = r.below(1 << 16);
            s.magic = Some(m);
            o.magic_raw = Some(cbor::to_vec(&Item::u(m).with_width(4)));
            "magic-non-minimal"
        }
        22 => {
            let dl = 1 + r.usize(30);
            s.deriv = Some(r.bytes(dl));
            "derivation-random-bytes"
        }
        23 => {
            let m = r.u32() as u64;
            s.magic = Some(m);
            let mut raw = cbor::to_vec(&Item::u(m));
            raw.push(r.below(256) as u8);
            o.magic_raw = Some(raw);
            "magic-with-trailing-byte"
        }
        24 => {
            o.no_tag = true;
            "no-tag"
        }
        25 => {
            o.typ_width = Some(*r.pick(&[1u8, 2, 8]));
            "address-type-wide"
        }
        _ => {
            o.magic_raw = Some(vec![]);
            "magic-empty-bytes"
        }
    };
    let mut b = byron_build(&s, &o);
    match post {
        1 => {
            let n = 1 + r.usize(8);
            b.extend(r.bytes(n));
        }
        2 => b.extend(enc_byron(&gen_byron_spec(r))),
        3 => {
            let n = 1 + r.usize(b.len().saturating_sub(1).max(1));
            b.truncate(n.min(b.len().saturating_sub(1)).max(1));
        }
        _ => {}
    }
    (b, label)
}

fn byron_mutants(ctx: &mut Ctx, r: &mut Rng, _i: u64) {
    let (b, label) = byron_mutant(r);
    ctx.bucket(&format!("m.intent.{}", label));
    check_strict(ctx, &b, r);
    check_embedded(ctx, &b, r, false);
    ctx.sample("byron-mutant", || json!({"bytes": hx(&b), "intent": label, "class": classify(&b).label()}));
}
