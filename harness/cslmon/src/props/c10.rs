//! C10 — redeemer pointers identify the item they were attached to.
use super::bld::*;
use super::c05::{binit, ASSUMPTIONS};
use crate::fw::*;
use crate::scen::Focus;
use vkit::rng::Rng;

pub fn def() -> PropDef {
    PropDef {
        id: "C10",
        rule: "cases are seed-derived builder histories (scenario engine: parameters, key ring, UTxO table, operation list over the public TransactionBuilder API, balancing call, build_tx); judged: every history in which balancing and build_tx reported success; non-trivial = a transaction was built; distinct by hash of the built transaction bytes; every Plutus witness carries a unique marker integer in its redeemer data; each emitted redeemer (tag, index) is resolved against the emitted body under the ledger's ordering rules and compared with the item the marker was attached to",
        assumptions: ASSUMPTIONS,
        streams,
        floors: &[("outcome.built", 2_000), ("c10.redeemer-spend", 300), ("c10.redeemer-mint", 300), ("c10.redeemer-cert", 200), ("c10.redeemer-reward", 200), ("c10.redeemer-vote", 100), ("c10.redeemer-propose", 100)],
        init: Some(binit),
    }
}

fn streams() -> Vec<Stream> {
    vec![
        Stream { name: "scenarios-plutus", count: (40_000, 1_500_000), exhaustive: false, run: pl },
    ]
}
fn pl(c: &mut Ctx, r: &mut Rng, _i: u64) {
    let f = Focus { plutus: 11, refs: 4, mint: 9, certs: 9, withdrawals: 10, votes: 8, proposals: 8, scripts: 5, ..Focus::default() };
    scenario(c, r, f, c10_monitor)
}
