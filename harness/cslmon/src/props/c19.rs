//! C19 — collateral return and total collateral are consistent and sufficient.
use super::bld::*;
use super::c05::{binit, ASSUMPTIONS};
use crate::fw::*;
use crate::scen::*;
use cardano_serialization_lib as csl;
use csl::*;
use serde_json::json;
use vkit::ledger::{self, Tx, Val};
use vkit::rng::Rng;

pub fn def() -> PropDef {
    PropDef {
        id: "C19",
        rule: "(a) dedicated histories: 1-3 collateral inputs (pure ADA / asset-carrying), then set_collateral_return_and_total with a return output holding no / equal / fewer / more / foreign assets, or set_total_collateral_and_return with totals around the input sum and the min-ADA edge; the body is built and keys 13/16/17 are re-read from the emitted bytes; (b) full builder scenarios with Plutus items using the percentage helper; non-trivial = a setter returned Ok or a failed attempt was inspected; distinct by hash of the body bytes + setter + relation",
        assumptions: ASSUMPTIONS,
        streams,
        floors: &[("setter.return_and_total.ok", 300), ("setter.total_and_return.ok", 300), ("setter.err-leaves-nothing", 300), ("c19.equation-holds", 1_000), ("c19.percentage-ok", 100), ("relation.foreign", 100), ("relation.fewer", 100), ("relation.more", 100)],
        init: Some(binit),
    }
}

fn streams() -> Vec<Stream> {
    vec![
        Stream { name: "setters", count: (60_000, 2_000_000), exhaustive: false, run: setters },
        Stream { name: "scenarios-percentage", count: (25_000, 800_000), exhaustive: false, run: pct },
    ]
}

fn pct(c: &mut Ctx, r: &mut Rng, _i: u64) {
    let f = Focus { plutus: 12, coin_select: 14, collateral_helpers: 0, ..Focus::default() };
    scenario_ex(c, r, f, c19_monitor, Some(c19_failed_helper))
}

fn setters(ctx: &mut Ctx, r: &mut Rng, _i: u64) {
    ctx.eval();
    let ring = ring(ctx);
    let mut params = gen_params(r, &Focus::default());
    // boundary-tuned histories (a quarter): the price per byte is chosen so that the minimum ADA of an ADA-only
    // return sits next to a CBOR width boundary B of the coin, and the return's coin is placed just above B:
    // the output is then a few bytes longer than one holding the minimum, and needs more than that minimum
    let edge: Option<u64> = if r.below(4) == 0 { Some(*r.pick(&[256u64, 65_536, 65_536, 1 << 32])) } else { None };
    if let Some(b) = edge {
        // an ADA-only return to a 29..57-byte address is 34..62 bytes long before the coin widens
        let size_guess = 160 + 34 + r.below(36);
        params.coins_per_byte = (b / size_guess).max(1);
        params.max_value_size = params.max_value_size.max(200);
    }
    let (cfg, _) = make_config(&params, r);
    let mut s = Scn::new(r, ring, Focus::default());
    let mut tb = TransactionBuilder::new(&cfg);
    // a regular input and output so that a body can be built
    let k = s.key_ix();
    let a = s.key_address(k);
    let i0 = s.new_utxo(&a, Val::coin(50_000_000));
    let mut ib = TxInputsBuilder::new();
    let _ = ib.add_regular_utxo(&s.csl_utxo(i0, None, None));
    tb.set_inputs(&ib);
    // collateral inputs
    let mut cb = TxInputsBuilder::new();
    let n = 1 + s.r.below(3);
    let mut sum = Val::default();
    for _ in 0..n {
        let with_assets = s.r.below(3) == 0 && edge.is_none();
        let mut v = s.gen_val(with_assets);
        if let Some(b) = edge {
            v.coin = v.coin.max(2 * b as i128 + 5_000_000);
        }
        if s.r.below(4) == 0 {
            v.coin = *s.r.pick(&[1_000_000i128, 2_000_000, 65_536, 4_294_967_296, 1_200_000]);
        }
        if with_assets && s.r.bool() {
            // several policies, several assets each (what a partial return is most easily wrong about)
            for pi in 0..1 + s.r.below(3) {
                for ai in 0..1 + s.r.below(2) {
                    v.add_asset((vec![0xb0 + pi as u8; 28], vec![0x41 + ai as u8]), 2 + s.r.below(20) as i128);
                }
            }
        }
        let k = s.key_ix();
        let addr = s.key_address(k);
        let i = s.new_utxo(&addr, v.clone());
        if s.r.below(6) == 0 {
            // a caller's slip, corrected: the collateral UTxO is first registered with a wrong amount, then again
            // with the right one (the later registration replaces the earlier)
            let u = s.csl_utxo(i, None, None);
            let wrong = Value::new(&u.output().amount().coin().checked_add(&BigNum::from(3_000_000u64)).unwrap_or(BigNum::from(1u64)));
            let _ = guard(|| cb.add_regular_input(&u.output().address(), &u.input(), &wrong));
            ctx.bucket("setter.collateral-input-registered-twice");
        }
        let _ = cb.add_regular_utxo(&s.csl_utxo(i, None, None));
        sum.add(&v);
    }
    tb.set_collateral(&cb);
    let k = s.key_ix();
    let ret_addr = s.key_address(k);
    // now and then an earlier, successful call of the total-first helper: the judged call replaces what it set
    let mut pre_set = false;
    if s.r.below(4) == 0 {
        let t0 = (sum.coin / 2).max(0) as u64;
        if let Ok(Ok(())) = guard(|| tb.set_total_collateral_and_return(&BigNum::from(t0), &ret_addr)) {
            pre_set = true;
            ctx.bucket("setter.preceded-by-an-earlier-successful-call");
        }
    }
    let which = s.r.below(2);
    let (name, relation, result): (&str, &str, Result<(), String>) = if which == 0 {
        // explicit return output
        let rel = s.r.below(5);
        let mut rv = Val::default();
        let relation = match rel {
            0 => {
                // equal assets
                rv.assets = sum.assets.clone();
                if sum.assets.is_empty() { "none" } else { "equal" }
            }
            1 => {
                // fewer: drop one asset or reduce a quantity
                rv.assets = sum.assets.clone();
                // any asset of any policy (first, middle, last), not always the first one
                let nkeys = rv.assets.len();
                let kpick = if nkeys > 0 { s.r.usize(nkeys) } else { 0 };
                if let Some(k) = rv.assets.keys().nth(kpick).cloned() {
                    if s.r.bool() || rv.assets[&k] <= 1 {
                        rv.assets.remove(&k);
                    } else {
                        *rv.assets.get_mut(&k).unwrap() -= 1;
                    }
                    "fewer"
                } else {
                    "none"
                }
            }
            2 => {
                rv.assets = sum.assets.clone();
                let nkeys = rv.assets.len();
                let kpick = if nkeys > 0 { s.r.usize(nkeys) } else { 0 };
                if let Some(k) = rv.assets.keys().nth(kpick).cloned() {
                    *rv.assets.get_mut(&k).unwrap() += 1 + s.r.below(5) as i128;
                    "more"
                } else {
                    rv.assets.insert((vec![0xee; 28], vec![1]), 3);
                    "foreign"
                }
            }
            3 => {
                rv.assets = sum.assets.clone();
                rv.assets.insert((vec![0xee; 28], vec![1, 2]), 1 + s.r.below(9) as i128);
                "foreign"
            }
            _ => {
                rv.assets = sum.assets.clone();
                if sum.assets.is_empty() { "none" } else { "equal" }
            }
        };
        rv.coin = match s.r.below(6) {
            0 => sum.coin,
            1 => (sum.coin - 1).max(0),
            2 => sum.coin + 1,
            3 => s.r.below(2_000_000) as i128,
            4 => sum.coin / 2,
            _ => (sum.coin - 1_000_000 - s.r.below(3_000_000) as i128).max(0),
        };
        if let Some(b) = edge {
            rv.coin = b as i128 + s.r.below(params.coins_per_byte * 12 + 2) as i128 - if s.r.below(8) == 0 { 3 } else { 0 };
            ctx.bucket("setter.edge-tuned");
        }
        let mut out = TransactionOutput::new(&ret_addr, &val_to_csl(&rv));
        // the return is a full output: a datum hash / inline datum / script reference counts towards its minimum
        match if edge.is_some() { 7 } else { s.r.below(8) } {
            0 => out.set_data_hash(&hash_plutus_data(&PlutusData::new_bytes(vec![7; 12]))),
            1 => out.set_plutus_data(&PlutusData::new_bytes(vec![7; 40])),
            2 => out.set_script_ref(&ScriptRef::new_native_script(&ring.natives[4])),
            _ => {}
        }
        let r = guard(|| tb.set_collateral_return_and_total(&out));
        ctx.bucket(&format!("relation.{}", relation));
        match r {
            Ok(x) => ("return_and_total", relation, x.map_err(|e| format!("{:?}", e))),
            Err(p) => {
                ctx.panic_seen(&p);
                return;
            }
        }
    } else {
        let total = match s.r.below(6) {
            0 => sum.coin,
            1 => sum.coin + 1,
            2 => 0,
            3 => (sum.coin - 1_000_000 - s.r.below(500_000) as i128).max(0),
            4 => sum.coin / 2,
            _ => s.r.below(sum.coin.max(1) as u64) as i128,
        };
        let total = match edge {
            Some(b) => {
                ctx.bucket("setter.edge-tuned");
                sum.coin - (b as i128 + s.r.below(params.coins_per_byte * 12 + 2) as i128 - if s.r.below(8) == 0 { 3 } else { 0 })
            }
            None => total,
        };
        let r = guard(|| tb.set_total_collateral_and_return(&BigNum::from(total.max(0) as u64), &ret_addr));
        match r {
            Ok(x) => ("total_and_return", "n/a", x.map_err(|e| format!("{:?}", e))),
            Err(p) => {
                ctx.panic_seen(&p);
                return;
            }
        }
    };
    // build the body
    tb.set_fee(&BigNum::from(300_000u64));
    let bytes = match guard(|| tb.build_tx_unsafe().map(|t| t.to_bytes())) {
        Ok(Ok(b)) => b,
        _ => {
            ctx.bucket("skipped.body-could-not-be-built");
            return;
        }
    };
    let mut hv = bytes.clone();
    hv.extend_from_slice(name.as_bytes());
    hv.extend_from_slice(relation.as_bytes());
    ctx.nontrivial_bytes("c19", &hv);
    let tx = match Tx::parse(&bytes) {
        Ok(t) => t,
        Err(_) => {
            ctx.violation("setters/body-not-well-formed", json!({"tx": hx(&bytes)}));
            return;
        }
    };
    let det = json!({"setter": name, "relation": relation, "result": format!("{:?}", result), "collateral_sum": format!("{:?}", sum), "tx": hx(&bytes), "params": format!("{:?}", params)});
    match &result {
        Ok(()) => {
            ctx.bucket(&format!("setter.{}.ok", name));
            c19_check_body(ctx, &tx, &s.utxos, &params, None, &det, &format!("set_{}", name));
        }
        Err(_) => {
            if pre_set {
                // the fields were set by the earlier call of the history itself
                ctx.bucket("setter.err-after-an-earlier-successful-call");
            } else if tx.field(16).is_some() || tx.field(17).is_some() {
                ctx.violation(&format!("set_{}/failed-attempt-left-a-field-set", name), det.clone());
            } else {
                ctx.bucket("setter.err-leaves-nothing");
            }
        }
    }
    ctx.sample(name, || det.clone());
    let _ = ledger::min_utxo(0, 0);
}
