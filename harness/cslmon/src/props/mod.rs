use crate::fw::PropDef;
pub mod bld;
pub mod c01;
pub mod c02;
pub mod c03;
pub mod c04;
pub mod c05;
pub mod c06;
pub mod c07;
pub mod c08;
pub mod c09;
pub mod c10;
pub mod c11;
pub mod c12;
pub mod c13;
pub mod c14;
pub mod c15;
pub mod c16;
pub mod c17;
pub mod c18;
pub mod c19;
pub mod c20;

pub fn all() -> Vec<PropDef> {
    vec![c01::def(), c02::def(), c03::def(), c04::def(), c05::def(), c06::def(), c07::def(), c08::def(), c09::def(), c10::def(), c11::def(), c12::def(), c13::def(), c14::def(), c15::def(), c16::def(), c17::def(), c18::def(), c19::def(), c20::def()]
}
