use crate::fw::PropDef;
pub mod c01;
pub mod c03;
pub mod c11;
pub mod c12;
pub mod c14;
pub mod c15;
pub mod c17;
pub mod c20;

pub fn all() -> Vec<PropDef> {
    vec![c01::def(), c03::def(), c11::def(), c12::def(), c14::def(), c15::def(), c17::def(), c20::def()]
}
