use crate::fw::PropDef;
pub mod c14;
pub mod c15;

pub fn all() -> Vec<PropDef> {
    vec![c14::def(), c15::def()]
}
