//! C04 — original bytes and the hashes derived from them are preserved.
//!
//! Inputs are valid typed values serialized by the library, parsed by vkit::cbor and re-encoded
//! NON-CANONICALLY by the mutators below (value preserving: indefinite lengths, wide heads, permuted
//! keys, stripped / added set tags, duplicated set elements, chunked byte strings, empty-but-present
//! witness fields, 3-element transactions). Expected bytes are always spans of the input found by
//! vkit::cbor; the output of the library is read back by a tolerant reader written here, so that a
//! witness map whose declared length differs from what was written is classified, not just "malformed".

use crate::fw::*;
use crate::gen::typed::G;
use crate::scen::KeyRing;
use cardano_serialization_lib as csl;
use csl::*;
use serde_json::json;
use vkit::cbor::{self, Item, V};
use vkit::codec::blake2b256;
use vkit::rng::Rng;

type Json = serde_json::Value;

/// record a violation; the (large) detail is only built for the first occurrence of a signature
macro_rules! viol {
    ($ctx:expr, $sig:expr, $det:expr) => {{
        let s: &str = $sig;
        let seen = !$ctx.replay_mode && $ctx.viols.contains_key(s);
        if seen {
            if let Some(e) = $ctx.viols.get_mut(s) {
                e.count += 1;
            }
        } else {
            $ctx.violation(s, $det);
        }
    }};
}

pub fn def() -> PropDef {
    PropDef {
        id: "C04",
        rule: "(1) typed transactions (G::transaction) serialized by the library, re-encoded non-canonically by the harness's own CBOR writer (random mix of indefinite arrays/maps, non-minimal heads, permuted body / witness keys, stripped or added set tags, duplicated set elements, repeated inner map keys, chunked byte strings, empty-but-present witness fields, 3-element transactions, is_valid=false), loaded through FixedTransaction::from_bytes / new / new_with_auxiliary / new_from_body_bytes+setters and crossed with 0..=4 add-signature operations (all sequences of length <= 2 over the 6-operation alphabet exhaustively on 10 fixed base transactions); (2) typed Plutus data re-encoded non-canonically (list definiteness, wide heads, bignum-tagged small ints, chunks <= 64, constr via tag 102, repeated map keys), stand-alone, every single-site encoding variant of 27 small datums exhaustively, and embedded in outputs / witness sets / redeemers / transactions; non-trivial = the input bytes differ from the library's own encoding of the same typed value; distinct by hash of input bytes (+ operation sequence)",
        assumptions: &[
            "every input handed to the library is exactly one well-formed CBOR item by vkit::cbor (trailing bytes belong to C02)",
            "only encodings the decoder accepts are judged; rejections are counted per mutation kind",
            "re-framing of the witness map itself (map head, key order, key head widths) is not a refutation: the property speaks of fields; it is counted in obs.witness-set-framing-renormalised",
            "a touched field (key 0 / key 2) may be re-encoded canonically and may collapse duplicates that the input already had; elements are compared by value",
            "cryptoxide ed25519 verification and blake2b are trusted",
        ],
        streams,
        floors: &[
            ("fixed.accepted", 20_000),
            ("fixed.mut.indef-array", 1_000),
            ("fixed.mut.indef-map", 1_000),
            ("fixed.mut.wide-int", 1_000),
            ("fixed.mut.wide-len", 1_000),
            ("fixed.mut.wide-tag", 500),
            ("fixed.mut.chunked-bytes", 300),
            ("fixed.mut.untagged-set", 1_000),
            ("fixed.mut.wits-keys-permuted", 500),
            ("fixed.mut.body-keys-permuted", 1_000),
            ("fixed.mut.dup-vkeywitness", 200),
            ("fixed.mut.dup-input", 300),
            ("fixed.mut.empty-witness-field", 1_000),
            ("fixed.mut.legacy-3-element-tx", 500),
            ("fixed.mut.is-valid-false", 500),
            ("fixed.ops.seq-len-0", 2_000),
            ("fixed.ops.seq-len-4", 2_000),
            ("fixed.sig-verified.vkey", 2_000),
            ("fixed.sig-verified.bootstrap", 2_000),
            ("fixed.loader.new", 1_000),
            ("fixed.loader.new_with_auxiliary", 300),
            ("fixed.loader.new_from_body_bytes+setters", 1_000),
            ("fixed.loader.new_from_body_bytes+set_body", 1_000),
            ("exh.sequence-judged", 300),
            ("pd.accepted", 20_000),
            ("pd.mut.list-definiteness-flipped", 2_000),
            ("pd.mut.bignum-tagged-small-int", 2_000),
            ("pd.mut.chunked-bytes", 2_000),
            ("pd.mut.constr-tag-102", 1_000),
            ("pd.mut.map-repeated-key", 500),
            ("pd.mut.wide-int", 2_000),
            ("pd.exh.accepted", 200),
            ("emb.output-inline-datum", 2_000),
            ("emb.witness-set-datum", 2_000),
            ("emb.redeemer-array-form", 1_000),
            ("emb.redeemer-map-form", 1_000),
            ("emb.transaction", 1_000),
            ("emb.plutus-list", 1_000),
        ],
        init: Some(init),
    }
}

const N_OPS: u64 = 6;
const SEQS_PER_BASE: u64 = 1 + N_OPS + N_OPS * N_OPS;
const N_BASES: u64 = 10;
/// number of single-site encoding variants of the small datums (see `datum_variants`); checked in init
const N_DATUM_VARIANTS: u64 = 341;

fn streams() -> Vec<Stream> {
    vec![
        Stream { name: "fixed-exhaustive-ops", count: (N_BASES * SEQS_PER_BASE, N_BASES * SEQS_PER_BASE), exhaustive: true, run: fixed_exhaustive },
        Stream { name: "fixed-random", count: (250_000, 5_000_000), exhaustive: false, run: fixed_random },
        Stream { name: "fixed-lenient-structure", count: (60_000, 1_500_000), exhaustive: false, run: fixed_lenient },
        Stream { name: "datum-exhaustive-variants", count: (N_DATUM_VARIANTS, N_DATUM_VARIANTS), exhaustive: true, run: datum_exhaustive },
        Stream { name: "datum-random", count: (400_000, 8_000_000), exhaustive: false, run: datum_random },
        Stream { name: "datum-embedded", count: (200_000, 4_000_000), exhaustive: false, run: datum_embedded },
    ]
}

// ------------------------------------------------------------------------------------------------ shard state

struct St {
    ring: KeyRing,
    /// (description, bytes) of every single-site variant of the small datums
    variants: Vec<(String, Vec<u8>, Vec<u8>)>,
}

fn init(ctx: &mut Ctx) {
    let variants = datum_variants();
    ctx.extra.insert("c04_datum_variants".into(), json!(variants.len()));
    if variants.len() as u64 != N_DATUM_VARIANTS {
        eprintln!("C04: {} datum variants but the stream enumerates {}", variants.len(), N_DATUM_VARIANTS);
    }
    ctx.state = Some(Box::new(St { ring: KeyRing::new(), variants }));
}

fn with_st(ctx: &mut Ctx, f: impl FnOnce(&mut Ctx, &St)) {
    let st = ctx.state.take();
    if let Some(b) = st.as_ref() {
        if let Some(s) = b.downcast_ref::<St>() {
            f(ctx, s);
        }
    }
    ctx.state = st;
}

// ------------------------------------------------------------------------------------------------ mutation kinds

const K_INDEF_ARR: u32 = 1 << 0;
const K_INDEF_MAP: u32 = 1 << 1;
const K_WIDE_INT: u32 = 1 << 2;
const K_WIDE_LEN: u32 = 1 << 3;
const K_WIDE_TAG: u32 = 1 << 4;
const K_CHUNK: u32 = 1 << 5;
const K_UNTAG: u32 = 1 << 6;
const K_RETAG: u32 = 1 << 7;
const K_PERM_WITS: u32 = 1 << 8;
const K_PERM_BODY: u32 = 1 << 9;
const K_DUP_VKEY: u32 = 1 << 10;
const K_DUP_INPUT: u32 = 1 << 11;
const K_EMPTY_FIELD: u32 = 1 << 12;
const K_LEGACY3: u32 = 1 << 13;
const K_INVALID: u32 = 1 << 14;
const K_DUP_BOOT: u32 = 1 << 15;
const K_DUP_KEY: u32 = 1 << 16;
const N_TX_KINDS: u32 = 17;
// datum-only kinds
const D_LIST_FLIP: u32 = 1 << 17;
const D_BIGNUM: u32 = 1 << 18;
const D_C102: u32 = 1 << 19;
const N_KINDS: u32 = 20;
/// kinds the datum mutator draws from
const DATUM_KINDS: [u32; 9] = [D_LIST_FLIP, K_INDEF_MAP, K_WIDE_INT, K_WIDE_LEN, K_WIDE_TAG, D_BIGNUM, K_CHUNK, D_C102, K_DUP_KEY];

fn kind_name(bit: u32) -> &'static str {
    match bit {
        K_INDEF_ARR => "indef-array",
        K_INDEF_MAP => "indef-map",
        K_WIDE_INT => "wide-int",
        K_WIDE_LEN => "wide-len",
        K_WIDE_TAG => "wide-tag",
        K_CHUNK => "chunked-bytes",
        K_UNTAG => "untagged-set",
        K_RETAG => "set-tag-added",
        K_PERM_WITS => "wits-keys-permuted",
        K_PERM_BODY => "body-keys-permuted",
        K_DUP_VKEY => "dup-vkeywitness",
        K_DUP_INPUT => "dup-input",
        K_EMPTY_FIELD => "empty-witness-field",
        K_LEGACY3 => "legacy-3-element-tx",
        K_INVALID => "is-valid-false",
        K_DUP_BOOT => "dup-bootstrap-witness",
        K_DUP_KEY => "map-repeated-key",
        D_LIST_FLIP => "list-definiteness-flipped",
        D_BIGNUM => "bignum-tagged-small-int",
        D_C102 => "constr-tag-102",
        _ => "?",
    }
}

fn kind_names(mask: u32) -> Vec<&'static str> {
    (0..N_KINDS).filter(|b| mask & (1 << b) != 0).map(|b| kind_name(1 << b)).collect()
}

/// "<kind>" if exactly one kind was applied, "mixed" for several, "none" for none
fn kind_class(mask: u32) -> &'static str {
    match mask.count_ones() {
        0 => "none",
        1 => kind_name(mask),
        _ => "mixed",
    }
}

struct Mu<'a> {
    r: &'a mut Rng,
    on: u32,
    applied: u32,
    /// per-site probability out of 16
    p: u64,
}

impl<'a> Mu<'a> {
    fn want(&mut self, k: u32) -> bool {
        self.on & k != 0 && self.r.below(16) < self.p
    }
    fn did(&mut self, k: u32) {
        self.applied |= k;
    }
}

fn wider(r: &mut Rng, min_w: u8) -> Option<u8> {
    let c: Vec<u8> = [1u8, 2, 4, 8].iter().copied().filter(|w| *w > min_w).collect();
    if c.is_empty() {
        None
    } else {
        Some(*r.pick(&c))
    }
}

/// chunk plan for a byte string of `len`: 1-3 chunks, no chunk above 64 bytes
fn chunk_plan(r: &mut Rng, len: usize) -> Vec<(usize, u8)> {
    if len == 0 {
        return if r.bool() { vec![] } else { vec![(0, 0)] };
    }
    let k = (1 + r.usize(3)).min(len);
    let mut cuts: Vec<usize> = (0..k.saturating_sub(1)).map(|_| 1 + r.usize(len.saturating_sub(1).max(1))).collect();
    cuts.push(len);
    cuts.sort();
    let mut out = vec![];
    let mut prev = 0usize;
    for c in cuts {
        let c = c.min(len);
        let mut part = c.saturating_sub(prev);
        prev = c.max(prev);
        while part > 64 {
            out.push((64usize, 1u8));
            part -= 64;
        }
        if part > 0 {
            let mw = cbor::min_width(part as u64);
            let w = if r.chance(1, 8) { wider(r, mw).unwrap_or(mw) } else { mw };
            out.push((part, w));
        }
    }
    if r.chance(1, 10) {
        let at = r.usize(out.len() + 1);
        out.insert(at, (0, 0));
    }
    out
}

fn set_len_flags(m: &mut Mu, it: &mut Item, n: usize, indef_kind: u32) {
    if m.want(indef_kind) {
        it.indef = true;
        it.w = 0;
        m.did(indef_kind);
    } else if !it.indef && m.want(K_WIDE_LEN) {
        if let Some(w) = wider(m.r, cbor::min_width(n as u64)) {
            it.w = w;
            m.did(K_WIDE_LEN);
        }
    }
}

/// value-preserving re-encoding of any CBOR tree (transaction level)
fn generic(m: &mut Mu, it: &mut Item, depth: u32) {
    let mut replace: Option<Item> = None;
    match &mut it.v {
        V::U(n) | V::N(n) => {
            let n = *n;
            if m.want(K_WIDE_INT) {
                if let Some(w) = wider(m.r, cbor::min_width(n)) {
                    it.w = w;
                    m.did(K_WIDE_INT);
                }
            }
        }
        V::B(b) => {
            let len = b.len();
            if m.want(K_CHUNK) {
                it.indef = true;
                it.w = 0;
                it.chunks = chunk_plan(m.r, len);
                m.did(K_CHUNK);
            } else if !it.indef && m.want(K_WIDE_LEN) {
                if let Some(w) = wider(m.r, cbor::min_width(len as u64)) {
                    it.w = w;
                    m.did(K_WIDE_LEN);
                }
            }
        }
        V::T(t) => {
            let len = t.len();
            if !it.indef && m.want(K_WIDE_LEN) {
                if let Some(w) = wider(m.r, cbor::min_width(len as u64)) {
                    it.w = w;
                    m.did(K_WIDE_LEN);
                }
            }
        }
        V::A(xs) => {
            for x in xs.iter_mut() {
                generic(m, x, depth + 1);
            }
            let n = xs.len();
            set_len_flags(m, it, n, K_INDEF_ARR);
        }
        V::M(xs) => {
            for (k, v) in xs.iter_mut() {
                generic(m, k, depth + 1);
                generic(m, v, depth + 1);
            }
            if depth >= 2 && !xs.is_empty() && m.on & K_DUP_KEY != 0 && m.r.below(64) < m.p {
                let j = m.r.usize(xs.len());
                let e = xs[j].clone();
                let at = m.r.usize(xs.len() + 1);
                xs.insert(at, e);
                m.did(K_DUP_KEY);
            }
            let n = xs.len();
            set_len_flags(m, it, n, K_INDEF_MAP);
        }
        V::Tag(t, inner) => {
            generic(m, inner, depth + 1);
            let t = *t;
            if t == 258 && m.want(K_UNTAG) {
                replace = Some(std::mem::replace(&mut **inner, Item::null()));
                m.did(K_UNTAG);
            } else if m.want(K_WIDE_TAG) {
                if let Some(w) = wider(m.r, cbor::min_width(t)) {
                    it.w = w;
                    m.did(K_WIDE_TAG);
                }
            }
        }
        V::Simple(_) | V::F(_, _) => {}
    }
    if let Some(x) = replace {
        *it = x;
    }
}

fn map_entries_mut(it: &mut Item) -> Option<&mut Vec<(Item, Item)>> {
    if let V::M(xs) = &mut it.v {
        Some(xs)
    } else {
        None
    }
}

/// the array under up to two set tags
fn set_array_mut(it: &mut Item) -> Option<&mut Vec<Item>> {
    let mut cur = it;
    for _ in 0..3 {
        match &mut cur.v {
            V::Tag(258, inner) => cur = inner,
            V::A(xs) => return Some(xs),
            _ => return None,
        }
    }
    None
}

fn set_array(it: &Item) -> Option<&Vec<Item>> {
    let mut cur = it;
    for _ in 0..3 {
        match &cur.v {
            V::Tag(258, inner) => cur = inner,
            V::A(xs) => return Some(xs),
            _ => return None,
        }
    }
    None
}

fn map_value_mut(it: &mut Item, key: u64) -> Option<&mut Item> {
    map_entries_mut(it)?.iter_mut().find(|(k, _)| k.as_u64() == Some(key)).map(|(_, v)| v)
}

fn dup_set_element(m: &mut Mu, container: &mut Item, key: u64, kind: u32) {
    if m.on & kind == 0 {
        return;
    }
    if let Some(v) = map_value_mut(container, key) {
        if let Some(xs) = set_array_mut(v) {
            if !xs.is_empty() {
                let j = m.r.usize(xs.len());
                let e = xs[j].clone();
                let at = m.r.usize(xs.len() + 1);
                xs.insert(at, e);
                m.did(kind);
            }
        }
    }
}

/// structural + generic mutation of a transaction tree [body, wits, is_valid, aux]
fn mutate_tx(m: &mut Mu, root: &mut Item) {
    let ok = matches!(&root.v, V::A(xs) if xs.len() == 4 && matches!(xs[0].v, V::M(_)) && matches!(xs[1].v, V::M(_)));
    if !ok {
        return;
    }
    if let V::A(xs) = &mut root.v {
        // duplicated set elements
        dup_set_element(m, &mut xs[1], 0, K_DUP_VKEY);
        dup_set_element(m, &mut xs[1], 2, K_DUP_BOOT);
        dup_set_element(m, &mut xs[0], 0, K_DUP_INPUT);
        // empty-but-present witness fields
        if m.on & K_EMPTY_FIELD != 0 {
            let absent: Vec<u64> = (0..8u64).filter(|k| xs[1].map_get(*k).is_none()).collect();
            if !absent.is_empty() {
                let how_many = 1 + m.r.usize(absent.len().min(3));
                let mut pool = absent.clone();
                m.r.shuffle(&mut pool);
                for k in pool.into_iter().take(how_many) {
                    let empty = match m.r.below(4) {
                        0 => Item::tag(258, Item::arr(vec![])),
                        1 => Item::arr(vec![]).indef(),
                        2 if k == 5 => Item::map(vec![]),
                        _ => Item::arr(vec![]),
                    };
                    if let Some(e) = map_entries_mut(&mut xs[1]) {
                        let at = m.r.usize(e.len() + 1);
                        e.insert(at, (Item::u(k), empty));
                        m.did(K_EMPTY_FIELD);
                    }
                }
            }
        }
        if m.on & K_PERM_WITS != 0 {
            if let Some(e) = map_entries_mut(&mut xs[1]) {
                if e.len() >= 2 {
                    let before: Vec<Option<u64>> = e.iter().map(|(k, _)| k.as_u64()).collect();
                    m.r.shuffle(e);
                    if e.iter().map(|(k, _)| k.as_u64()).collect::<Vec<_>>() != before {
                        m.did(K_PERM_WITS);
                    }
                }
            }
        }
        if m.on & K_PERM_BODY != 0 {
            if let Some(e) = map_entries_mut(&mut xs[0]) {
                if e.len() >= 2 {
                    let before: Vec<Option<u64>> = e.iter().map(|(k, _)| k.as_u64()).collect();
                    m.r.shuffle(e);
                    if e.iter().map(|(k, _)| k.as_u64()).collect::<Vec<_>>() != before {
                        m.did(K_PERM_BODY);
                    }
                }
            }
        }
        if m.on & K_INVALID != 0 && m.on & K_LEGACY3 == 0 {
            if xs[2].v != V::Simple(20) {
                xs[2] = Item::new(V::Simple(20));
                m.did(K_INVALID);
            }
        }
    }
    generic(m, root, 0);
    if let V::A(xs) = &mut root.v {
        if m.on & K_RETAG != 0 {
            for key in [0u64, 2] {
                if m.r.bool() {
                    if let Some(v) = map_value_mut(&mut xs[1], key) {
                        let inner = std::mem::replace(v, Item::null());
                        *v = Item::tag(258, inner);
                        m.did(K_RETAG);
                    }
                }
            }
        }
        if m.on & K_LEGACY3 != 0 && xs.len() == 4 {
            xs.remove(2);
            m.did(K_LEGACY3);
        }
    }
}

fn pick_mask(r: &mut Rng, kinds: &[u32]) -> u32 {
    match r.below(10) {
        0 => 0,
        1..=4 => *r.pick(kinds),
        5..=7 => {
            let mut m = 0;
            for _ in 0..2 + r.below(2) {
                m |= *r.pick(kinds);
            }
            m
        }
        _ => {
            let mut m = 0;
            for k in kinds {
                if r.chance(1, 3) {
                    m |= *k;
                }
            }
            m
        }
    }
}

// ------------------------------------------------------------------------------------------------ readers

fn canon_item(it: &Item) -> Item {
    match &it.v {
        V::U(n) => Item::u(*n),
        V::N(n) => Item::n(*n),
        V::B(b) => Item::bytes(b),
        V::T(t) => Item::new(V::T(t.clone())),
        V::A(xs) => Item::arr(xs.iter().map(canon_item).collect()),
        V::M(xs) => Item::map(xs.iter().map(|(k, v)| (canon_item(k), canon_item(v))).collect()),
        V::Tag(t, i) => Item::tag(*t, canon_item(i)),
        V::Simple(s) => Item::new(V::Simple(*s)),
        V::F(w, b) => Item::new(V::F(*w, *b)),
    }
}

/// the value of an item in one fixed encoding (definite, minimal heads, unchunked, order kept)
fn canon(it: &Item) -> Vec<u8> {
    cbor::to_vec(&canon_item(it))
}

/// one witness-map entry: key, exact value bytes, value tree (spans relative to `bytes`)
#[derive(Clone)]
struct Field {
    key: u64,
    bytes: Vec<u8>,
    item: Item,
}

impl Field {
    /// canonical bytes of the set elements held by the field (None: not an array)
    fn elems(&self) -> Option<Vec<Item>> {
        set_array(&self.item).map(|a| a.clone())
    }
    fn is_empty_collection(&self) -> bool {
        match set_array(&self.item) {
            Some(a) => a.is_empty(),
            None => matches!(&self.item.v, V::M(m) if m.is_empty()),
        }
    }
}

/// what the loaded transaction must keep
#[derive(Clone)]
struct Exp {
    body: Vec<u8>,
    wits: Vec<u8>,
    fields: Vec<Field>,
    is_valid: bool,
    aux: Option<Vec<u8>>,
}

fn view_input(x: &[u8]) -> Option<Exp> {
    let root = cbor::parse(x).ok()?;
    let xs = root.as_arr()?;
    if xs.len() != 3 && xs.len() != 4 {
        return None;
    }
    let wm = xs[1].as_map()?;
    let mut fields = vec![];
    for (k, v) in wm {
        let key = k.as_u64()?;
        let bytes = v.span(x).to_vec();
        let item = cbor::parse(&bytes).ok()?;
        fields.push(Field { key, bytes, item });
    }
    let (is_valid, auxi) = if xs.len() == 4 {
        match xs[2].v {
            V::Simple(20) => (false, &xs[3]),
            V::Simple(21) => (true, &xs[3]),
            _ => return None,
        }
    } else {
        (true, &xs[2])
    };
    let aux = if auxi.is_null() { None } else { Some(auxi.span(x).to_vec()) };
    Some(Exp { body: xs[0].span(x).to_vec(), wits: xs[1].span(x).to_vec(), fields, is_valid, aux })
}

fn read_head(b: &[u8], at: usize) -> Option<(u8, u64, bool, usize)> {
    let ib = *b.get(at)?;
    let (maj, ai) = (ib >> 5, ib & 0x1f);
    let p = at.checked_add(1)?;
    let take = |n: usize| -> Option<(u64, usize)> {
        let e = p.checked_add(n)?;
        let s = b.get(p..e)?;
        let mut v = 0u64;
        for x in s {
            v = (v << 8) | *x as u64;
        }
        Some((v, e))
    };
    match ai {
        0..=23 => Some((maj, ai as u64, false, p)),
        24 => take(1).map(|(v, e)| (maj, v, false, e)),
        25 => take(2).map(|(v, e)| (maj, v, false, e)),
        26 => take(4).map(|(v, e)| (maj, v, false, e)),
        27 => take(8).map(|(v, e)| (maj, v, false, e)),
        31 => Some((maj, 0, true, p)),
        _ => None,
    }
}

/// one item starting at `at`; the item's spans are relative to `at`
fn item_at(b: &[u8], at: usize) -> Option<(Item, usize)> {
    if at >= b.len() {
        return None;
    }
    let (it, n) = cbor::parse_prefix(&b[at..]).ok()?;
    Some((it, at.checked_add(n)?))
}

struct WitMap {
    /// None: indefinite
    declared: Option<u64>,
    fields: Vec<Field>,
    /// entries whose key is not an unsigned integer
    other_keys: usize,
    end: usize,
}

/// Tolerant witness-map reader: reads the entries that are actually there, whatever the head says.
/// (A definite map is followed in a transaction by a bool, stand-alone by the end of input; neither
/// can be mistaken for a minimally encoded key 0..7.)
fn read_wit_map(b: &[u8], at: usize) -> Result<WitMap, &'static str> {
    let (maj, n, indef, mut p) = read_head(b, at).ok_or("witness-set-head-unreadable")?;
    if maj != 5 {
        return Err("witness-set-not-a-map");
    }
    let mut fields = vec![];
    let mut other_keys = 0usize;
    let mut cnt = 0u64;
    loop {
        match b.get(p) {
            None => break,
            Some(0xff) if indef => {
                p += 1;
                break;
            }
            Some(x) => {
                if !indef {
                    if cnt >= n {
                        if *x > 7 {
                            break;
                        }
                    } else if *x > 0x1b {
                        // not an unsigned-integer key: fewer entries than declared
                        break;
                    }
                }
            }
        }
        let (k, p1) = item_at(b, p).ok_or("witness-map-key-unreadable")?;
        let (v, p2) = item_at(b, p1).ok_or("witness-map-value-unreadable")?;
        match k.as_u64() {
            Some(key) => fields.push(Field { key, bytes: b[p1..p2].to_vec(), item: v }),
            None => other_keys += 1,
        }
        p = p2;
        cnt += 1;
        if cnt > 64 {
            return Err("witness-map-too-many-entries");
        }
    }
    Ok(WitMap { declared: if indef { None } else { Some(n) }, fields, other_keys, end: p })
}

struct OutTx {
    body: Vec<u8>,
    wit: WitMap,
    wit_bytes: Vec<u8>,
    is_valid: bool,
    aux: Option<Vec<u8>>,
    consumed_all: bool,
}

fn read_out_tx(b: &[u8]) -> Result<OutTx, &'static str> {
    let (maj, n, indef, p) = read_head(b, 0).ok_or("outer-head-unreadable")?;
    if maj != 4 || indef || n != 4 {
        return Err("outer-not-a-definite-4-array");
    }
    let (body_it, p1) = item_at(b, p).ok_or("body-unreadable")?;
    if !matches!(body_it.v, V::M(_)) {
        return Err("body-not-a-map");
    }
    let wit = read_wit_map(b, p1)?;
    let p2 = wit.end;
    let is_valid = match b.get(p2) {
        Some(0xf4) => false,
        Some(0xf5) => true,
        _ => return Err("no-bool-after-witness-map"),
    };
    let p3 = p2 + 1;
    let (aux, p4) = if b.get(p3) == Some(&0xf6) {
        (None, p3 + 1)
    } else {
        let (_, e) = item_at(b, p3).ok_or("auxiliary-data-unreadable")?;
        (Some(b[p3..e].to_vec()), e)
    };
    Ok(OutTx { body: b[p..p1].to_vec(), wit_bytes: b[p1..p2].to_vec(), wit, is_valid, aux, consumed_all: p4 == b.len() })
}

// ------------------------------------------------------------------------------------------------ judging a FixedTransaction state

#[derive(Default, Clone)]
struct Track {
    /// index 0: witness key 0 (vkeys), index 1: witness key 2 (bootstraps)
    touched: [bool; 2],
    /// canonical bytes of explicitly added witnesses
    added: [Vec<Vec<u8>>; 2],
    /// public keys used by sign_and_add_*
    signers: [Vec<Vec<u8>>; 2],
    last_vkey: Option<Vkeywitness>,
    /// hash of the body the object was created with, when set_body replaced it afterwards
    prev_body_hash: Option<Vec<u8>>,
    nops: usize,
}

fn opt_class(want: &Option<Vec<u8>>, got: &Option<Vec<u8>>) -> &'static str {
    match (want, got) {
        (Some(_), None) => "missing",
        (None, Some(_)) => "unexpected",
        (Some(w), Some(g)) if g.len() < w.len() && w.starts_with(g) => "truncated-prefix-of-input-span",
        _ => "bytes-differ",
    }
}

fn count_of(xs: &[Vec<u8>], e: &[u8]) -> usize {
    xs.iter().filter(|x| x.as_slice() == e).count()
}

fn judge(ctx: &mut Ctx, ft: &FixedTransaction, exp: &Exp, tr: &Track, det: &dyn Fn() -> Json) {
    ctx.eval();
    let out = match guard(|| ft.to_bytes()) {
        Ok(b) => b,
        Err(p) => {
            let mut d = det();
            d["panic"] = json!(p.msg);
            viol!(ctx, &format!("FixedTransaction.to_bytes/{}", p.sig()), d);
            return;
        }
    };
    let dd = |extra: Json| -> Json {
        let mut d = det();
        d["output"] = json!(hx(&out));
        d["observed"] = extra;
        d
    };
    let (raw_body, raw_aux, raw_wits, hash, valid) = match guard(|| (ft.raw_body(), ft.raw_auxiliary_data(), ft.raw_witness_set(), ft.transaction_hash().to_bytes(), ft.is_valid())) {
        Ok(t) => t,
        Err(p) => {
            viol!(ctx, &format!("FixedTransaction.getters/{}", p.sig()), dd(json!({"panic": p.msg})));
            return;
        }
    };
    // (a) raw getters
    if raw_body != exp.body {
        viol!(ctx, "FixedTransaction.raw_body/differs-from-input-body-span", dd(json!({"raw_body": hx(&raw_body)})));
    }
    if raw_aux != exp.aux {
        viol!(ctx, &format!("FixedTransaction.raw_auxiliary_data/differs-from-input-aux-span/{}", opt_class(&exp.aux, &raw_aux)), dd(json!({"raw_auxiliary_data": raw_aux.as_ref().map(|b| hx(b))})));
    }
    if valid != exp.is_valid {
        viol!(ctx, "FixedTransaction.is_valid/not-preserved", dd(json!({"is_valid": valid})));
    }
    // (b) hash
    let want_hash = blake2b256(&exp.body);
    let hash_ok = hash == want_hash;
    if !hash_ok {
        let cause = if tr.prev_body_hash.as_ref() == Some(&hash) { "stale-after-set_body" } else { "other" };
        viol!(ctx, &format!("FixedTransaction.transaction_hash/not-hash-of-original-body/{}", cause), dd(json!({"transaction_hash": hx(&hash), "blake2b256_of_raw_body": hx(&want_hash)})));
    }
    // (c) re-serialization
    let strict_ok = cbor::parse(&out).is_ok();
    let o = match read_out_tx(&out) {
        Ok(o) => o,
        Err(cls) => {
            viol!(ctx, &format!("FixedTransaction.to_bytes/not-a-well-formed-transaction/{}", cls), dd(json!({})));
            return;
        }
    };
    let written = (o.wit.fields.len() + o.wit.other_keys) as u64;
    let mut framing_ok = true;
    match o.wit.declared {
        Some(d) if d != written => {
            framing_ok = false;
            let empties = o.wit.fields.iter().filter(|f| f.is_empty_collection()).count() as u64;
            let cause = if written > d && written - d <= empties {
                "empty-field-written-but-not-counted"
            } else if written > d {
                "more-entries-written-than-declared"
            } else {
                "fewer-entries-written-than-declared"
            };
            viol!(ctx, &format!("FixedTransaction.to_bytes/witness-map-length-mismatch/{}", cause), dd(json!({"declared": d, "written": written, "witness_set": hx(&o.wit_bytes)})));
        }
        _ => {
            if !strict_ok || !o.consumed_all {
                framing_ok = false;
                viol!(ctx, "FixedTransaction.to_bytes/not-well-formed-cbor/other", dd(json!({})));
            }
        }
    }
    if o.body != exp.body {
        viol!(ctx, "FixedTransaction.to_bytes/body-bytes-differ-from-input", dd(json!({"body": hx(&o.body)})));
    }
    if o.aux != exp.aux {
        viol!(ctx, &format!("FixedTransaction.to_bytes/auxiliary-data-bytes-differ-from-input/{}", opt_class(&exp.aux, &o.aux)), dd(json!({"aux": o.aux.as_ref().map(|b| hx(b))})));
    }
    if o.is_valid != exp.is_valid {
        viol!(ctx, "FixedTransaction.to_bytes/is_valid-not-preserved", dd(json!({"is_valid": o.is_valid})));
    }
    if raw_wits != o.wit_bytes {
        viol!(ctx, "FixedTransaction.raw_witness_set/differs-from-witness-set-in-to_bytes", dd(json!({"raw_witness_set": hx(&raw_wits)})));
    }
    // witness fields
    let mut field_viol = false;
    if o.wit.other_keys > 0 || o.wit.fields.iter().any(|f| f.key > 7) {
        field_viol = true;
        viol!(ctx, "FixedTransaction.to_bytes/witness-map-has-unknown-key", dd(json!({})));
    }
    for k in 0..8u64 {
        let n_out = o.wit.fields.iter().filter(|f| f.key == k).count();
        if n_out > 1 {
            field_viol = true;
            viol!(ctx, &format!("FixedTransaction.to_bytes/witness-map-key-written-twice/key-{}", k), dd(json!({})));
        }
        let fin = exp.fields.iter().find(|f| f.key == k);
        let fout = o.wit.fields.iter().find(|f| f.key == k);
        let tix = match k {
            0 => Some(0usize),
            2 => Some(1usize),
            _ => None,
        };
        let touched = tix.map(|t| tr.touched[t]).unwrap_or(false);
        if !touched {
            match (fin, fout) {
                (Some(a), Some(b)) => {
                    if a.bytes != b.bytes {
                        field_viol = true;
                        viol!(ctx, &format!("FixedTransaction.to_bytes/untouched-witness-field-changed/key-{}", k), dd(json!({"input_value": hx(&a.bytes), "output_value": hx(&b.bytes)})));
                    } else {
                        ctx.bucket("fixed.untouched-field-identical");
                    }
                }
                (Some(a), None) => {
                    field_viol = true;
                    let cls = if a.is_empty_collection() { "empty-collection" } else { "non-empty" };
                    viol!(ctx, &format!("FixedTransaction.to_bytes/untouched-witness-field-dropped/key-{}/{}", k, cls), dd(json!({"input_value": hx(&a.bytes)})));
                }
                (None, Some(b)) => {
                    field_viol = true;
                    viol!(ctx, &format!("FixedTransaction.to_bytes/untouched-witness-field-appeared/key-{}", k), dd(json!({"output_value": hx(&b.bytes)})));
                }
                (None, None) => {}
            }
        } else if let Some(t) = tix {
            judge_touched(ctx, k, t, fin, fout, tr, hash_ok, &want_hash, &dd);
        }
    }
    if !tr.touched[0] && !tr.touched[1] {
        if o.wit_bytes == exp.wits {
            ctx.bucket("fixed.witness-set-byte-identical");
        } else if !field_viol && framing_ok {
            ctx.bucket("obs.witness-set-framing-renormalised");
        }
    }
}

#[allow(clippy::too_many_arguments)]
fn judge_touched(ctx: &mut Ctx, k: u64, t: usize, fin: Option<&Field>, fout: Option<&Field>, tr: &Track, hash_ok: bool, want_hash: &[u8], dd: &dyn Fn(Json) -> Json) {
    let (add_op, sign_op) = if t == 0 { ("FixedTransaction.add_vkey_witness", "FixedTransaction.sign_and_add_vkey_signature") } else { ("FixedTransaction.add_bootstrap_witness", "FixedTransaction.sign_and_add_icarus_bootstrap_signature") };
    ctx.bucket(&format!("fixed.touched.key-{}", k));
    let in_elems: Vec<Vec<u8>> = fin.and_then(|f| f.elems()).map(|a| a.iter().map(canon).collect()).unwrap_or_default();
    let fout = match fout {
        Some(f) => f,
        None => {
            viol!(ctx, &format!("{}/field-missing-after-add/key-{}", add_op, k), dd(json!({})));
            return;
        }
    };
    let out_items = match fout.elems() {
        Some(a) => a,
        None => {
            viol!(ctx, &format!("{}/field-not-an-array/key-{}", add_op, k), dd(json!({"output_value": hx(&fout.bytes)})));
            return;
        }
    };
    let out_elems: Vec<Vec<u8>> = out_items.iter().map(canon).collect();
    let mut distinct_in: Vec<&Vec<u8>> = vec![];
    for e in &in_elems {
        if !distinct_in.contains(&e) {
            distinct_in.push(e);
        }
    }
    for e in distinct_in {
        let cin = count_of(&in_elems, e);
        let cout = count_of(&out_elems, e);
        if cout == 0 {
            viol!(ctx, &format!("{}/input-element-lost/key-{}", add_op, k), dd(json!({"element": hx(e)})));
        } else if cout > cin {
            viol!(ctx, &format!("{}/input-element-duplicated/key-{}", add_op, k), dd(json!({"element": hx(e)})));
        } else if cout < cin {
            ctx.bucket("obs.input-duplicates-collapsed-in-touched-field");
        }
    }
    for e in &tr.added[t] {
        if in_elems.contains(e) {
            continue;
        }
        match count_of(&out_elems, e) {
            0 => viol!(ctx, &format!("{}/added-witness-missing/key-{}", add_op, k), dd(json!({"element": hx(e)}))),
            1 => ctx.bucket("fixed.added-witness-present-once"),
            _ => viol!(ctx, &format!("{}/added-witness-written-twice/key-{}", add_op, k), dd(json!({"element": hx(e)}))),
        }
    }
    let pk_of = |it: &Item| -> Option<Vec<u8>> { it.as_arr()?.first()?.as_bytes().map(|b| b.to_vec()) };
    for pk in &tr.signers[t] {
        let hits: Vec<&Item> = out_items.iter().filter(|it| pk_of(it).as_ref() == Some(pk)).collect();
        match hits.len() {
            0 => viol!(ctx, &format!("{}/signature-missing/key-{}", sign_op, k), dd(json!({"public_key": hx(pk)}))),
            1 => {
                if !hash_ok {
                    ctx.bucket("skipped.signature-check-after-wrong-hash");
                    continue;
                }
                let sig = hits[0].as_arr().and_then(|a| a.get(1)).and_then(|s| s.as_bytes());
                let ok = match (sig, <[u8; 32]>::try_from(pk.as_slice())) {
                    (Some(s), Ok(pk32)) => match <[u8; 64]>::try_from(s) {
                        Ok(s64) => cryptoxide::ed25519::verify(want_hash, &pk32, &s64),
                        Err(_) => false,
                    },
                    _ => false,
                };
                if ok {
                    ctx.bucket(if t == 0 { "fixed.sig-verified.vkey" } else { "fixed.sig-verified.bootstrap" });
                } else {
                    viol!(ctx, &format!("{}/signature-does-not-verify-over-original-body/key-{}", sign_op, k), dd(json!({"public_key": hx(pk)})));
                }
            }
            _ => viol!(ctx, &format!("{}/signature-written-twice/key-{}", sign_op, k), dd(json!({"public_key": hx(pk)}))),
        }
    }
    for (it, e) in out_items.iter().zip(out_elems.iter()) {
        let known = in_elems.contains(e) || tr.added[t].contains(e) || pk_of(it).map(|p| tr.signers[t].contains(&p)).unwrap_or(false);
        if !known {
            viol!(ctx, &format!("{}/foreign-element-in-field/key-{}", add_op, k), dd(json!({"element": hx(e)})));
        }
    }
}

// ------------------------------------------------------------------------------------------------ signature operations

const OP_NAMES: [&str; 7] = ["add_vkey_witness(new)", "add_vkey_witness(same-again)", "add_vkey_witness(present-in-input)", "add_bootstrap_witness(new)", "sign_and_add_vkey_signature", "sign_and_add_icarus_bootstrap_signature", "sign_and_add_daedalus_bootstrap_signature"];
/// the random sequences also draw the seventh operation (the exhaustive stream keeps its six)
const N_OPS_RANDOM: u64 = 7;

fn push_once(v: &mut Vec<Vec<u8>>, e: Vec<u8>) {
    if !v.contains(&e) {
        v.push(e);
    }
}

fn canon_of_bytes(b: &[u8]) -> Option<Vec<u8>> {
    cbor::parse(b).ok().map(|i| canon(&i))
}

fn add_vkey(ctx: &mut Ctx, ft: &mut FixedTransaction, w: &Vkeywitness, tr: &mut Track, log: &mut Vec<Json>, name: &str) -> bool {
    let wb = match guard(|| w.to_bytes()) {
        Ok(b) => b,
        Err(p) => {
            ctx.panic_seen(&p);
            return false;
        }
    };
    let c = match canon_of_bytes(&wb) {
        Some(c) => c,
        None => return false,
    };
    log.push(json!({"op": name, "witness": hx(&wb)}));
    match guard(|| ft.add_vkey_witness(w)) {
        Ok(()) => {
            push_once(&mut tr.added[0], c);
            tr.touched[0] = true;
            tr.last_vkey = Some(w.clone());
            true
        }
        Err(p) => {
            viol!(ctx, &format!("FixedTransaction.add_vkey_witness/{}", p.sig()), json!({"ops": log.clone(), "panic": p.msg}));
            false
        }
    }
}

/// applies one operation; false = the operation could not be carried out (nothing to judge)
fn apply_op(ctx: &mut Ctx, ft: &mut FixedTransaction, op: u64, r: &mut Rng, st: &St, exp: &Exp, tr: &mut Track, log: &mut Vec<Json>) -> bool {
    tr.nops += 1;
    let present_vkey = |r: &mut Rng| -> Option<Vkeywitness> {
        let f = exp.fields.iter().find(|f| f.key == 0)?;
        let a = set_array(&f.item)?;
        if a.is_empty() {
            return None;
        }
        let e = &a[r.usize(a.len())];
        let eb = e.span(&f.bytes).to_vec();
        match guard(|| Vkeywitness::from_bytes(eb)) {
            Ok(Ok(w)) => Some(w),
            _ => None,
        }
    };
    match op {
        0 => {
            let w = G::new(r, 1, 1).vkeywitness();
            add_vkey(ctx, ft, &w, tr, log, OP_NAMES[0])
        }
        1 => {
            let w = match tr.last_vkey.clone() {
                Some(w) => w,
                None => match present_vkey(r) {
                    Some(w) => w,
                    None => G::new(r, 1, 1).vkeywitness(),
                },
            };
            add_vkey(ctx, ft, &w, tr, log, OP_NAMES[1])
        }
        2 => match present_vkey(r) {
            Some(w) => add_vkey(ctx, ft, &w, tr, log, OP_NAMES[2]),
            None => {
                ctx.bucket("fixed.op.no-vkey-in-input-to-re-add");
                let w = G::new(r, 1, 1).vkeywitness();
                add_vkey(ctx, ft, &w, tr, log, OP_NAMES[0])
            }
        },
        3 => {
            let w = G::new(r, 1, 1).bootstrap_witness();
            let wb = match guard(|| w.to_bytes()) {
                Ok(b) => b,
                Err(p) => {
                    ctx.panic_seen(&p);
                    return false;
                }
            };
            let c = match canon_of_bytes(&wb) {
                Some(c) => c,
                None => return false,
            };
            log.push(json!({"op": OP_NAMES[3], "witness": hx(&wb)}));
            match guard(|| ft.add_bootstrap_witness(&w)) {
                Ok(()) => {
                    push_once(&mut tr.added[1], c);
                    tr.touched[1] = true;
                    true
                }
                Err(p) => {
                    viol!(ctx, &format!("FixedTransaction.add_bootstrap_witness/{}", p.sig()), json!({"ops": log.clone(), "panic": p.msg}));
                    false
                }
            }
        }
        4 => {
            let ix = r.usize(st.ring.keys.len().min(6));
            let k = &st.ring.keys[ix];
            log.push(json!({"op": OP_NAMES[4], "ring_key": ix, "private_key": hx(&k.sk.as_bytes()), "public_key": hx(&k.pk.as_bytes())}));
            match guard(|| ft.sign_and_add_vkey_signature(&k.sk)) {
                Ok(Ok(())) => {
                    push_once(&mut tr.signers[0], k.pk.as_bytes());
                    tr.touched[0] = true;
                    true
                }
                Ok(Err(_)) => {
                    ctx.bucket("fixed.op.sign-vkey-returned-error");
                    false
                }
                Err(p) => {
                    viol!(ctx, &format!("FixedTransaction.sign_and_add_vkey_signature/{}", p.sig()), json!({"ops": log.clone(), "panic": p.msg}));
                    false
                }
            }
        }
        6 => {
            // a legacy Daedalus key: 64-byte extended secret (clamped as that derivation leaves it) + chain code
            let mut kb = r.bytes(96);
            kb[0] &= 248;
            kb[31] &= 63;
            kb[31] |= 64;
            let mut ext = [0u8; 64];
            ext.copy_from_slice(&kb[..64]);
            let pk = cryptoxide::ed25519::extended_to_public(&ext).to_vec();
            let key = match guard(|| LegacyDaedalusPrivateKey::from_bytes(&kb)) {
                Ok(Ok(k)) => k,
                _ => return false,
            };
            let ix = r.usize(st.ring.byron.len());
            let b = &st.ring.byron[ix];
            log.push(json!({"op": OP_NAMES[6], "ring_byron": ix, "daedalus_key": hx(&kb), "address": b.addr.to_base58(), "public_key": hx(&pk)}));
            match guard(|| ft.sign_and_add_daedalus_bootstrap_signature(&b.addr, &key)) {
                Ok(Ok(())) => {
                    push_once(&mut tr.signers[1], pk);
                    tr.touched[1] = true;
                    true
                }
                Ok(Err(_)) => {
                    ctx.bucket("fixed.op.sign-bootstrap-returned-error");
                    false
                }
                Err(p) => {
                    viol!(ctx, &format!("FixedTransaction.sign_and_add_daedalus_bootstrap_signature/{}", p.sig()), json!({"ops": log.clone(), "panic": p.msg}));
                    false
                }
            }
        }
        _ => {
            let ix = r.usize(st.ring.byron.len());
            let b = &st.ring.byron[ix];
            let pk = match guard(|| b.xprv.to_raw_key().to_public().as_bytes()) {
                Ok(p) => p,
                Err(_) => return false,
            };
            log.push(json!({"op": OP_NAMES[5], "ring_byron": ix, "xprv": hx(&b.xprv.as_bytes()), "address": b.addr.to_base58(), "public_key": hx(&pk)}));
            match guard(|| ft.sign_and_add_icarus_bootstrap_signature(&b.addr, &b.xprv)) {
                Ok(Ok(())) => {
                    push_once(&mut tr.signers[1], pk);
                    tr.touched[1] = true;
                    true
                }
                Ok(Err(_)) => {
                    ctx.bucket("fixed.op.sign-bootstrap-returned-error");
                    false
                }
                Err(p) => {
                    viol!(ctx, &format!("FixedTransaction.sign_and_add_icarus_bootstrap_signature/{}", p.sig()), json!({"ops": log.clone(), "panic": p.msg}));
                    false
                }
            }
        }
    }
}

/// judge the freshly loaded object, then after every operation of `ops`
#[allow(clippy::too_many_arguments)]
fn run_ops(ctx: &mut Ctx, mut ft: FixedTransaction, exp: &Exp, mut tr: Track, ops: &[u64], r: &mut Rng, st: &St, loader: &str, x: &[u8], prefix: &str) {
    ctx.bucket(&format!("{}loader.{}", prefix, loader));
    let mut log: Vec<Json> = vec![];
    let mk = |log: &Vec<Json>| json!({"loader": loader, "input": hx(x), "body_span": hx(&exp.body), "witness_set_span": hx(&exp.wits), "aux_span": exp.aux.as_ref().map(|b| hx(b)), "is_valid": exp.is_valid, "ops": log.clone()});
    {
        let l = log.clone();
        judge(ctx, &ft, exp, &tr, &|| mk(&l));
    }
    let mut done = 0usize;
    for op in ops {
        if !apply_op(ctx, &mut ft, *op, r, st, exp, &mut tr, &mut log) {
            break;
        }
        done += 1;
        ctx.bucket(&format!("{}op.{}", prefix, OP_NAMES[(*op).min(6) as usize]));
        let l = log.clone();
        judge(ctx, &ft, exp, &tr, &|| mk(&l));
    }
    ctx.bucket(&format!("{}ops.seq-len-{}", prefix, done));
    let mut hv = x.to_vec();
    hv.extend_from_slice(loader.as_bytes());
    for op in ops {
        hv.push(*op as u8);
    }
    ctx.nontrivial_bytes("fx-seq", &hv);
}

/// a body unrelated to the inputs: {0: 258([]), 1: [], 2: 0}
const OTHER_BODY: [u8; 10] = [0xa3, 0x00, 0xd9, 0x01, 0x02, 0x80, 0x01, 0x80, 0x02, 0x00];

/// load through one of the constructor / setter paths on the spans of the input
#[allow(deprecated)]
fn load_alt(ctx: &mut Ctx, which: u64, exp: &Exp, x: &[u8], prefix: &str) -> Option<(FixedTransaction, Track, &'static str)> {
    let mut tr = Track::default();
    let (name, res): (&'static str, Result<Result<FixedTransaction, String>, PanicRec>) = match which {
        0 => match &exp.aux {
            None => ("new", guard(|| FixedTransaction::new(&exp.body, &exp.wits, exp.is_valid).map_err(|e| format!("{:?}", e)))),
            Some(a) => ("new_with_auxiliary", guard(|| FixedTransaction::new_with_auxiliary(&exp.body, &exp.wits, a, exp.is_valid).map_err(|e| format!("{:?}", e)))),
        },
        1 => (
            "new_from_body_bytes+setters",
            guard(|| {
                let mut f = FixedTransaction::new_from_body_bytes(&exp.body).map_err(|e| format!("{:?}", e))?;
                f.set_witness_set(&exp.wits).map_err(|e| format!("{:?}", e))?;
                if let Some(a) = &exp.aux {
                    f.set_auxiliary_data(a).map_err(|e| format!("{:?}", e))?;
                }
                f.set_is_valid(exp.is_valid);
                Ok(f)
            }),
        ),
        _ => {
            tr.prev_body_hash = Some(blake2b256(&OTHER_BODY));
            (
                "new_from_body_bytes+set_body",
                guard(|| {
                    let mut f = FixedTransaction::new_from_body_bytes(&OTHER_BODY).map_err(|e| format!("{:?}", e))?;
                    f.set_body(&exp.body).map_err(|e| format!("{:?}", e))?;
                    f.set_witness_set(&exp.wits).map_err(|e| format!("{:?}", e))?;
                    if let Some(a) = &exp.aux {
                        f.set_auxiliary_data(a).map_err(|e| format!("{:?}", e))?;
                    }
                    f.set_is_valid(exp.is_valid);
                    Ok(f)
                }),
            )
        }
    };
    match res {
        Ok(Ok(f)) => Some((f, tr, name)),
        Ok(Err(_)) => {
            // from_bytes accepted the whole but the parts are refused: not a refutation, counted
            ctx.bucket(&format!("{}loader-refused-parts.{}", prefix, name));
            None
        }
        Err(p) => {
            viol!(ctx, &format!("FixedTransaction::{}/{}", name, p.sig()), json!({"input": hx(x), "panic": p.msg}));
            None
        }
    }
}

// ------------------------------------------------------------------------------------------------ stream: random transactions

fn fixed_random(ctx: &mut Ctx, r: &mut Rng, _i: u64) {
    with_st(ctx, |ctx, st| fixed_case(ctx, r, st, false));
}

/// Inputs that are one well-formed CBOR item but NOT a transaction the CDDL admits in one of its parts (an
/// auxiliary-data array with a third element, an unknown key in the body / witness set / tagged auxiliary data).
/// The loader may refuse them; what it ACCEPTS it has promised to preserve: the same byte-for-byte judgement
/// as for every other accepted input.
fn fixed_lenient(ctx: &mut Ctx, r: &mut Rng, _i: u64) {
    with_st(ctx, |ctx, st| fixed_case(ctx, r, st, true));
}

fn structural_tweak(r: &mut Rng, root: &mut Item) -> Option<&'static str> {
    let xs = match &mut root.v {
        V::A(xs) if xs.len() == 4 => xs,
        _ => return None,
    };
    match r.below(6) {
        0 | 1 => {
            // auxiliary data in the [metadata, native scripts] form with more elements than the form has
            let extra = match r.below(3) {
                0 => Item::u(0),
                1 => Item::null(),
                _ => Item::arr(vec![]),
            };
            let mut elems = match &xs[3].v {
                V::A(e) if e.len() == 2 => e.clone(),
                _ => vec![Item::map(vec![(Item::u(1), Item::u(2))]), Item::arr(vec![])],
            };
            elems.push(extra);
            if r.bool() {
                elems.push(Item::u(7));
            }
            xs[3] = Item::arr(elems);
            Some("aux-array-overlong")
        }
        2 => {
            let md = Item::map(vec![(Item::u(1), Item::u(2))]);
            xs[3] = Item::tag(259, Item::map(vec![(Item::u(0), md), (Item::u(5 + r.below(3)), Item::u(0))]));
            Some("aux-tagged-unknown-key")
        }
        3 => {
            let k = 23 + r.below(3);
            if let Some(e) = map_entries_mut(&mut xs[0]) {
                e.push((Item::u(k), Item::u(0)));
                return Some("body-unknown-key");
            }
            None
        }
        4 => {
            let k = 8 + r.below(3);
            if let Some(e) = map_entries_mut(&mut xs[1]) {
                e.push((Item::u(k), Item::arr(vec![])));
                return Some("witness-unknown-key");
            }
            None
        }
        _ => {
            // the one-element array form does not exist either
            xs[3] = Item::arr(vec![Item::map(vec![(Item::u(1), Item::u(2))])]);
            Some("aux-array-short")
        }
    }
}

const TX_KINDS: [u32; N_TX_KINDS as usize] = [K_INDEF_ARR, K_INDEF_MAP, K_WIDE_INT, K_WIDE_LEN, K_WIDE_TAG, K_CHUNK, K_UNTAG, K_RETAG, K_PERM_WITS, K_PERM_BODY, K_DUP_VKEY, K_DUP_INPUT, K_EMPTY_FIELD, K_LEGACY3, K_INVALID, K_DUP_BOOT, K_DUP_KEY];

fn fixed_case(ctx: &mut Ctx, r: &mut Rng, st: &St, structural: bool) {
    let canon_bytes = {
        let mut g = G::new(r, 2, 3);
        match guard(|| g.transaction(false).to_bytes()) {
            Ok(b) => b,
            Err(p) => {
                ctx.panic_seen(&p);
                ctx.bucket("skipped.generator-panicked");
                return;
            }
        }
    };
    let mut root = match cbor::parse(&canon_bytes) {
        Ok(i) => i,
        Err(_) => {
            // e.g. a witness set with an empty vkeys collection is emitted with a wrong map length (C03)
            ctx.bucket("skipped.library-encoding-of-typed-value-malformed");
            return;
        }
    };
    let on = pick_mask(r, &TX_KINDS);
    let p = *r.pick(&[3u64, 8, 16]);
    let applied = {
        let mut m = Mu { r, on, applied: 0, p };
        mutate_tx(&mut m, &mut root);
        m.applied
    };
    let tweak = if structural { structural_tweak(r, &mut root) } else { None };
    if structural && tweak.is_none() {
        ctx.bucket("skipped.no-structural-tweak-applicable");
        return;
    }
    let x = cbor::to_vec(&root);
    let exp = match view_input(&x) {
        Some(e) => e,
        None => {
            ctx.bucket("skipped.mutated-input-not-readable-by-harness");
            return;
        }
    };
    ctx.eval();
    let ft = match guard(|| FixedTransaction::from_bytes(x.clone())) {
        Ok(Ok(f)) => {
            if let Some(t) = tweak {
                ctx.bucket(&format!("lenient.accepted.{}", t));
            }
            f
        }
        Ok(Err(_)) => {
            if let Some(t) = tweak {
                ctx.bucket(&format!("lenient.rejected.{}", t));
                return;
            }
            ctx.bucket("fixed.rejected");
            if applied == 0 {
                ctx.bucket("fixed.rejected.unmutated");
            }
            for k in kind_names(applied) {
                ctx.bucket(&format!("fixed.rejected.{}", k));
            }
            return;
        }
        Err(p) => {
            // not an accepted encoding: outside the quantifier (C02 owns decoder panics)
            ctx.panic_seen(&p);
            ctx.bucket("fixed.from_bytes-panicked");
            return;
        }
    };
    ctx.bucket("fixed.accepted");
    for k in kind_names(applied) {
        ctx.bucket(&format!("fixed.mut.{}", k));
    }
    if x != canon_bytes {
        ctx.nontrivial_bytes("fx", &x);
        ctx.bucket("fixed.accepted-non-canonical");
    }
    ctx.sample("fixed-input", || json!({"input": hx(&x), "library_encoding": hx(&canon_bytes), "mutations": kind_names(applied)}));
    // a REFUSED replacement leaves the transaction as it was: same bytes, same hash
    if r.below(4) == 0 {
        let mut probe = ft.clone();
        if let (Ok(h0), Ok(b0)) = (guard(|| probe.transaction_hash().to_bytes()), guard(|| probe.to_bytes())) {
            let mut bad = match r.below(3) {
                0 => {
                    let mut b = exp.body.clone();
                    b.push(0x00);
                    b
                }
                1 => vec![0x01],
                _ => vec![],
            };
            let which = r.below(3);
            if which != 0 && bad.len() > 1 {
                bad = vec![0xa1, 0x00];
            }
            let (setter, res) = match which {
                0 => ("set_body", guard(|| probe.set_body(&bad).is_ok())),
                1 => ("set_witness_set", guard(|| probe.set_witness_set(&bad).is_ok())),
                _ => ("set_auxiliary_data", guard(|| probe.set_auxiliary_data(&bad).is_ok())),
            };
            match res {
                Ok(false) => {
                    let h1 = guard(|| probe.transaction_hash().to_bytes()).unwrap_or_default();
                    let b1 = guard(|| probe.to_bytes()).unwrap_or_default();
                    if h1 != h0 {
                        viol!(ctx, &format!("FixedTransaction.{}/refused-but-transaction-hash-changed", setter), json!({"input": hx(&x), "refused_bytes": hx(&bad), "hash_before": hx(&h0), "hash_after": hx(&h1)}));
                    } else if b1 != b0 {
                        viol!(ctx, &format!("FixedTransaction.{}/refused-but-bytes-changed", setter), json!({"input": hx(&x), "refused_bytes": hx(&bad)}));
                    } else {
                        ctx.bucket("fixed.refused-setter-leaves-transaction-unchanged");
                    }
                }
                Ok(true) => ctx.bucket("fixed.bad-replacement-accepted"),
                Err(p) => ctx.panic_seen(&p),
            }
        }
    }
    let nops = r.below(5) as usize;
    let ops: Vec<u64> = (0..nops).map(|_| r.below(N_OPS_RANDOM)).collect();
    run_ops(ctx, ft, &exp, Track::default(), &ops, r, st, "from_bytes", &x, "fixed.");
    let which = r.below(4);
    if which < 3 {
        if let Some((f, tr, name)) = load_alt(ctx, which, &exp, &x, "fixed.") {
            let nops = r.below(4) as usize;
            let ops: Vec<u64> = (0..nops).map(|_| r.below(N_OPS_RANDOM)).collect();
            run_ops(ctx, f, &exp, tr, &ops, r, st, name, &x, "fixed.");
        }
    }
}

// ------------------------------------------------------------------------------------------------ stream: exhaustive operation sequences on fixed bases

fn hb(n: usize, seed: u8) -> Vec<u8> {
    (0..n).map(|i| seed.wrapping_mul(31).wrapping_add(i as u8).wrapping_add(1)).collect()
}
fn b_input(seed: u8) -> Item {
    Item::arr(vec![Item::bytes(&hb(32, seed)), Item::u(seed as u64 % 3)])
}
fn b_addr() -> Vec<u8> {
    let mut a = vec![0x61];
    a.extend(hb(28, 9));
    a
}
fn b_set(tagged: bool, xs: Vec<Item>) -> Item {
    if tagged {
        Item::tag(258, Item::arr(xs))
    } else {
        Item::arr(xs)
    }
}
fn b_body(tagged: bool) -> Item {
    Item::map(vec![
        (Item::u(0), b_set(tagged, vec![b_input(1), b_input(2)])),
        (Item::u(1), Item::arr(vec![Item::arr(vec![Item::bytes(&b_addr()), Item::u(2_000_000)])])),
        (Item::u(2), Item::u(170_000)),
    ])
}
fn b_vkw(seed: u8) -> Item {
    Item::arr(vec![Item::bytes(&hb(32, seed)), Item::bytes(&hb(64, seed.wrapping_add(1)))])
}
fn b_boot(seed: u8) -> Item {
    Item::arr(vec![Item::bytes(&hb(32, seed)), Item::bytes(&hb(64, seed.wrapping_add(1))), Item::bytes(&hb(32, seed.wrapping_add(2))), Item::bytes(&[0xa0])])
}
fn b_native(seed: u8) -> Item {
    Item::arr(vec![Item::u(0), Item::bytes(&hb(28, seed))])
}
fn b_tx(body: Item, wits: Vec<(Item, Item)>, valid: bool, aux: Item) -> Item {
    Item::arr(vec![body, Item::map(wits), Item::new(V::Simple(if valid { 21 } else { 20 })), aux])
}

fn base_tx(n: u64) -> Vec<u8> {
    let t = true;
    let it = match n {
        // canonical, tagged, one vkey witness
        0 => b_tx(b_body(t), vec![(Item::u(0), b_set(t, vec![b_vkw(1)]))], true, Item::null()),
        // indefinite witness map, keys out of order with wide heads, metadata
        1 => {
            let mut tx = b_tx(
                b_body(t),
                vec![(Item::u(1).with_width(1), b_set(t, vec![b_native(3)])), (Item::u(0).with_width(2), b_set(t, vec![b_vkw(1), b_vkw(4)]))],
                true,
                Item::map(vec![(Item::u(1), Item::text("a"))]),
            );
            if let V::A(xs) = &mut tx.v {
                xs[1] = std::mem::replace(&mut xs[1], Item::null()).indef();
            }
            tx
        }
        // untagged, duplicate vkey witness, bootstrap, datums (indefinite list), redeemers in map form, is_valid false
        2 => b_tx(
            b_body(false),
            vec![
                (Item::u(0), b_set(false, vec![b_vkw(1), b_vkw(1)])),
                (Item::u(2), b_set(false, vec![b_boot(5)])),
                (Item::u(4), Item::arr(vec![Item::u(1).with_width(1), Item::bytes(&[0])]).indef()),
                (Item::u(5), Item::map(vec![(Item::arr(vec![Item::u(0), Item::u(0)]), Item::arr(vec![Item::u(7).with_width(8), Item::arr(vec![Item::u(10), Item::u(20)])]))])),
            ],
            false,
            Item::null(),
        ),
        // the empty-but-present native-script field
        3 => b_tx(b_body(t), vec![(Item::u(1), Item::arr(vec![]))], true, Item::null()),
        // empty vkeys and bootstraps, a V3 script
        4 => b_tx(
            b_body(t),
            vec![(Item::u(0), Item::arr(vec![])), (Item::u(2), b_set(t, vec![])), (Item::u(7), b_set(t, vec![Item::bytes(&hb(10, 6))]))],
            true,
            Item::null(),
        ),
        // 3-element transaction, wide outer head, alonzo-form auxiliary data
        5 => {
            let aux = Item::tag(259, Item::map(vec![(Item::u(0), Item::map(vec![(Item::u(2), Item::u(3))]))]));
            Item::arr(vec![b_body(t), Item::map(vec![]), aux]).with_width(1)
        }
        // indefinite body with chunked input hash, plutus scripts of all versions, array-form redeemers
        6 => {
            let mut inp = b_input(1);
            if let V::A(xs) = &mut inp.v {
                xs[0] = Item::bytes(&hb(32, 1)).indef();
                xs[0].chunks = vec![(10, 0), (22, 1)];
            }
            let body = Item::map(vec![
                (Item::u(2), Item::u(170_000).with_width(8)),
                (Item::u(0), Item::tag(258, Item::arr(vec![inp]).indef())),
                (Item::u(1), Item::arr(vec![Item::arr(vec![Item::bytes(&b_addr()), Item::u(2_000_000)])])),
            ])
            .indef();
            b_tx(
                body,
                vec![
                    (Item::u(0), Item::tag(258, Item::arr(vec![b_vkw(1)]).with_width(2))),
                    (Item::u(3), b_set(t, vec![Item::bytes(&hb(5, 1))])),
                    (Item::u(6), b_set(false, vec![Item::bytes(&hb(6, 2))])),
                    (Item::u(7), b_set(t, vec![Item::bytes(&hb(7, 3))])),
                    (Item::u(5), Item::arr(vec![Item::arr(vec![Item::u(0), Item::u(0), Item::tag(121, Item::arr(vec![])), Item::arr(vec![Item::u(1), Item::u(2)])])])),
                ],
                true,
                Item::null(),
            )
        }
        // empty plutus-script fields
        7 => b_tx(b_body(t), vec![(Item::u(3), Item::arr(vec![])), (Item::u(6), b_set(t, vec![]))], true, Item::null()),
        // empty datums and redeemers
        8 => b_tx(b_body(t), vec![(Item::u(4), Item::arr(vec![])), (Item::u(5), Item::map(vec![]))], true, Item::null()),
        // auxiliary data [metadata, native scripts] whose first script is an indefinite-length array
        _ => {
            let aux = Item::arr(vec![Item::map(vec![]), Item::arr(vec![b_native(3).indef(), b_native(4)])]);
            b_tx(b_body(t), vec![(Item::u(0), b_set(t, vec![b_vkw(1)]))], true, aux)
        }
    };
    cbor::to_vec(&it)
}

fn fixed_exhaustive(ctx: &mut Ctx, r: &mut Rng, i: u64) {
    with_st(ctx, |ctx, st| {
        let base = i / SEQS_PER_BASE;
        let s = i % SEQS_PER_BASE;
        let ops: Vec<u64> = if s == 0 {
            vec![]
        } else if s <= N_OPS {
            vec![s - 1]
        } else {
            let q = s - 1 - N_OPS;
            vec![q / N_OPS, q % N_OPS]
        };
        let x = base_tx(base);
        let exp = match view_input(&x) {
            Some(e) => e,
            None => {
                ctx.bucket("exh.base-unreadable-by-harness");
                return;
            }
        };
        ctx.eval();
        match guard(|| FixedTransaction::from_bytes(x.clone())) {
            Ok(Ok(ft)) => {
                ctx.bucket("exh.sequence-judged");
                ctx.bucket(&format!("exh.base-{}-accepted", base));
                run_ops(ctx, ft, &exp, Track::default(), &ops, r, st, "from_bytes", &x, "exh.");
            }
            Ok(Err(e)) => {
                ctx.bucket(&format!("exh.base-{}-rejected", base));
                ctx.sample(&format!("exh-rejected-{}", base), || json!({"input": hx(&x), "error": format!("{:?}", e)}));
            }
            Err(p) => {
                ctx.panic_seen(&p);
                ctx.bucket(&format!("exh.base-{}-panicked", base));
            }
        }
        // the same sequence on the object built from the parts
        if let Some((f, tr, name)) = load_alt(ctx, s % 3, &exp, &x, "exh.") {
            run_ops(ctx, f, &exp, tr, &ops, r, st, name, &x, "exh.");
        }
    });
}

// ------------------------------------------------------------------------------------------------ Plutus data: mutator

fn be_bytes(n: u64, lead: usize) -> Vec<u8> {
    let mut v = vec![0u8; lead];
    let b = n.to_be_bytes();
    let skip = b.iter().take_while(|x| **x == 0).count();
    v.extend_from_slice(&b[skip..]);
    v
}

fn is_constr_tag(t: u64) -> bool {
    (121..=127).contains(&t) || (1280..=1400).contains(&t)
}

fn constr_alt(t: u64) -> u64 {
    if t <= 127 {
        t.wrapping_sub(121)
    } else {
        t.wrapping_sub(1280).wrapping_add(7)
    }
}

fn widen_head(m: &mut Mu, it: &mut Item, n: u64, kind: u32) {
    if !it.indef && m.want(kind) {
        if let Some(w) = wider(m.r, cbor::min_width(n)) {
            it.w = w;
            m.did(kind);
        }
    }
}

fn dmut_bytes(m: &mut Mu, it: &mut Item) {
    let len = match &it.v {
        V::B(b) => b.len(),
        _ => return,
    };
    if m.want(K_CHUNK) {
        it.indef = true;
        it.w = 0;
        it.chunks = chunk_plan(m.r, len);
        m.did(K_CHUNK);
    } else {
        widen_head(m, it, len as u64, K_WIDE_LEN);
    }
}

/// value-preserving (except map-repeated-key) re-encoding of a Plutus datum tree
fn dmut(m: &mut Mu, it: &mut Item) {
    let mut replace: Option<Item> = None;
    match &mut it.v {
        V::U(n) | V::N(n) => {
            let n = *n;
            if m.want(D_BIGNUM) {
                let neg = matches!(it.v, V::N(_));
                let lead = if m.r.chance(1, 4) { 1 + m.r.usize(2) } else { 0 };
                let mut b = Item::bytes(&be_bytes(n, lead));
                dmut_bytes(m, &mut b);
                replace = Some(Item::tag(if neg { 3 } else { 2 }, b));
                m.did(D_BIGNUM);
            } else {
                widen_head(m, it, n, K_WIDE_INT);
            }
        }
        V::B(_) => dmut_bytes(m, it),
        V::A(xs) => {
            for x in xs.iter_mut() {
                dmut(m, x);
            }
            let n = xs.len() as u64;
            if m.want(D_LIST_FLIP) {
                it.indef = !it.indef;
                it.w = if it.indef { 0 } else { cbor::min_width(n) };
                m.did(D_LIST_FLIP);
            }
            widen_head(m, it, n, K_WIDE_LEN);
        }
        V::M(xs) => {
            for (k, v) in xs.iter_mut() {
                dmut(m, k);
                dmut(m, v);
            }
            if !xs.is_empty() && m.on & K_DUP_KEY != 0 && m.r.below(32) < m.p {
                let j = m.r.usize(xs.len());
                let mut e = xs[j].clone();
                if m.r.bool() {
                    e.1 = Item::u(m.r.below(30));
                }
                let at = m.r.usize(xs.len() + 1);
                xs.insert(at, e);
                m.did(K_DUP_KEY);
            }
            let n = xs.len() as u64;
            if m.want(K_INDEF_MAP) {
                it.indef = true;
                it.w = 0;
                m.did(K_INDEF_MAP);
            }
            widen_head(m, it, n, K_WIDE_LEN);
        }
        V::Tag(t, inner) => {
            let t = *t;
            if is_constr_tag(t) {
                dmut(m, inner);
                if m.want(D_C102) {
                    let fields = std::mem::replace(&mut **inner, Item::null());
                    let mut alt = Item::u(constr_alt(t));
                    widen_head(m, &mut alt, constr_alt(t), K_WIDE_INT);
                    let mut pair = Item::arr(vec![alt, fields]);
                    if m.r.bool() {
                        pair = pair.indef();
                    }
                    replace = Some(Item::tag(102, pair));
                    m.did(D_C102);
                }
            } else if t == 102 {
                if let V::A(pair) = &mut inner.v {
                    if pair.len() == 2 {
                        if let Some(n) = pair[0].as_u64() {
                            widen_head(m, &mut pair[0], n, K_WIDE_INT);
                        }
                        dmut(m, &mut pair[1]);
                    }
                }
                if m.want(D_LIST_FLIP) {
                    inner.indef = !inner.indef;
                    inner.w = 0;
                    m.did(D_LIST_FLIP);
                }
            } else if t == 2 || t == 3 {
                dmut_bytes(m, inner);
            }
            if replace.is_none() {
                widen_head(m, it, t, K_WIDE_TAG);
            }
        }
        _ => {}
    }
    if let Some(mut x) = replace {
        if let V::Tag(t, _) = &x.v {
            let t = *t;
            widen_head(m, &mut x, t, K_WIDE_TAG);
        }
        *it = x;
    }
}

/// a typed datum, the library's encoding of it, and a non-canonical re-encoding
fn gen_datum(ctx: &mut Ctx, r: &mut Rng, depth: u32) -> Option<(Vec<u8>, Vec<u8>, u32)> {
    let lib = {
        let mut g = G::new(r, depth, 4);
        match guard(|| g.plutus_data().to_bytes()) {
            Ok(b) => b,
            Err(p) => {
                ctx.panic_seen(&p);
                ctx.bucket("skipped.generator-panicked");
                return None;
            }
        }
    };
    let mut root = match cbor::parse(&lib) {
        Ok(i) => i,
        Err(_) => {
            ctx.bucket("skipped.library-encoding-of-typed-value-malformed");
            return None;
        }
    };
    let on = pick_mask(r, &DATUM_KINDS);
    let p = *r.pick(&[3u64, 8, 16]);
    let mut m = Mu { r, on, applied: 0, p };
    dmut(&mut m, &mut root);
    let applied = m.applied;
    Some((lib, cbor::to_vec(&root), applied))
}

// ------------------------------------------------------------------------------------------------ Plutus data: stand-alone

fn diff_class(x: &[u8], got: &[u8], lib: &[u8]) -> &'static str {
    if got == lib {
        "canonicalised"
    } else if got.len() < x.len() && x.starts_with(got) {
        "truncated"
    } else if got.len() > x.len() && got.starts_with(x) {
        "extended"
    } else {
        "other"
    }
}

/// nested datums fetched through the public getters re-encode to their spans in x
fn check_children(ctx: &mut Ctx, pd: &PlutusData, x: &[u8], root: &Item) {
    let list_items: Option<(&Vec<Item>, &'static str)> = match &root.v {
        V::A(xs) => Some((xs, "list")),
        V::Tag(t, inner) if is_constr_tag(*t) => inner.as_arr().map(|a| (a, "constr")),
        V::Tag(102, inner) => inner.as_arr().and_then(|p| p.get(1)).and_then(|l| l.as_arr()).map(|a| (a, "constr")),
        _ => None,
    };
    if let Some((items, what)) = list_items {
        let got: Result<Option<Vec<Vec<u8>>>, PanicRec> = guard(|| {
            let l = if what == "list" { pd.as_list() } else { pd.as_constr_plutus_data().map(|c| c.data()) };
            l.map(|l| (0..l.len()).map(|i| l.get(i).to_bytes()).collect())
        });
        match got {
            Ok(Some(v)) => {
                if v.len() != items.len() {
                    ctx.bucket("pd.nested.count-differs");
                    return;
                }
                for (b, it) in v.iter().zip(items.iter()) {
                    ctx.eval();
                    ctx.bucket("pd.nested.compared");
                    if b.as_slice() != it.span(x) {
                        viol!(ctx, &format!("PlutusData(nested).to_bytes/differs-from-decoded-bytes/{}-element", what), json!({"datum": hx(x), "element_span": hx(it.span(x)), "got": hx(b)}));
                    }
                }
            }
            Ok(None) => ctx.bucket("pd.nested.kind-differs"),
            Err(p) => viol!(ctx, &format!("PlutusData(nested).to_bytes/{}", p.sig()), json!({"datum": hx(x)})),
        }
    }
    if let V::M(es) = &root.v {
        // with repeated keys the library's key order is not the input order (a repeated key moves to
        // the back of its LinkedHashMap): position-based fetching is only meaningful for distinct keys
        let ck: Vec<Vec<u8>> = es.iter().map(|(k, _)| canon(k)).collect();
        let distinct = ck.iter().enumerate().all(|(i, k)| !ck[..i].contains(k));
        if !distinct {
            ctx.bucket("pd.nested.skipped-map-with-repeated-keys");
        } else if let Some((k0, v0)) = es.first() {
            let got = guard(|| {
                pd.as_map().and_then(|m| {
                    let keys = m.keys();
                    if keys.len() == 0 {
                        return None;
                    }
                    let k = keys.get(0);
                    let v = m.get(&k).and_then(|vs| vs.get(0)).map(|v| v.to_bytes());
                    Some((k.to_bytes(), v))
                })
            });
            match got {
                Ok(Some((kb, vb))) => {
                    ctx.eval();
                    ctx.bucket("pd.nested.compared");
                    if kb.as_slice() != k0.span(x) {
                        viol!(ctx, "PlutusData(nested).to_bytes/differs-from-decoded-bytes/map-key", json!({"datum": hx(x), "key_span": hx(k0.span(x)), "got": hx(&kb)}));
                    }
                    if let Some(vb) = vb {
                        if vb.as_slice() != v0.span(x) {
                            viol!(ctx, "PlutusData(nested).to_bytes/differs-from-decoded-bytes/map-value", json!({"datum": hx(x), "value_span": hx(v0.span(x)), "got": hx(&vb)}));
                        }
                    }
                }
                Ok(None) => ctx.bucket("pd.nested.kind-differs"),
                Err(p) => viol!(ctx, &format!("PlutusData(nested).to_bytes/{}", p.sig()), json!({"datum": hx(x)})),
            }
        }
    }
}

/// returns true when the library accepted x
fn check_datum(ctx: &mut Ctx, x: &[u8], lib: &[u8], applied: u32, prefix: &str, label: Option<&str>) -> bool {
    let kc = label.unwrap_or_else(|| kind_class(applied));
    ctx.eval();
    let root = match cbor::parse(x) {
        Ok(i) => i,
        Err(_) => {
            ctx.bucket("skipped.mutated-input-not-readable-by-harness");
            return false;
        }
    };
    let pd = match guard(|| PlutusData::from_bytes(x.to_vec())) {
        Ok(Ok(pd)) => pd,
        Ok(Err(_)) => {
            ctx.bucket(&format!("{}rejected", prefix));
            for k in kind_names(applied) {
                ctx.bucket(&format!("{}rejected.{}", prefix, k));
            }
            return false;
        }
        Err(p) => {
            ctx.panic_seen(&p);
            ctx.bucket(&format!("{}from_bytes-panicked", prefix));
            return false;
        }
    };
    ctx.bucket(&format!("{}accepted", prefix));
    for k in kind_names(applied) {
        ctx.bucket(&format!("{}mut.{}", prefix, k));
    }
    if x != lib {
        ctx.nontrivial_bytes("pd", x);
        ctx.bucket(&format!("{}accepted-non-canonical", prefix));
    }
    ctx.sample("datum", || json!({"datum": hx(x), "library_encoding": hx(lib), "mutations": kind_names(applied)}));
    match guard(|| (pd.to_bytes(), hash_plutus_data(&pd).to_bytes(), pd.clone().to_bytes())) {
        Ok((b, h, cb)) => {
            if b != x {
                viol!(ctx, &format!("PlutusData.to_bytes/differs-from-decoded-bytes/{}/{}", diff_class(x, &b, lib), kc), json!({"datum": hx(x), "got": hx(&b), "mutations": kind_names(applied)}));
            } else if cb != x {
                viol!(ctx, &format!("PlutusData.clone.to_bytes/differs-from-decoded-bytes/{}/{}", diff_class(x, &cb, lib), kc), json!({"datum": hx(x), "got": hx(&cb)}));
            }
            let want = blake2b256(x);
            if h != want {
                let cause = if h == blake2b256(lib) { "hash-of-canonical-encoding" } else { "other" };
                viol!(ctx, &format!("hash_plutus_data/differs-from-blake2b-of-input/{}", cause), json!({"datum": hx(x), "got": hx(&h), "want": hx(&want)}));
            }
        }
        Err(p) => viol!(ctx, &format!("PlutusData.to_bytes/{}", p.sig()), json!({"datum": hx(x), "panic": p.msg})),
    }
    check_children(ctx, &pd, x, &root);
    true
}

fn datum_random(ctx: &mut Ctx, r: &mut Rng, _i: u64) {
    if let Some((lib, x, applied)) = gen_datum(ctx, r, 3) {
        check_datum(ctx, &x, &lib, applied, "pd.", None);
    }
}

// ------------------------------------------------------------------------------------------------ Plutus data: every single-site variant of small datums

const SMALL_DATUMS: [&str; 27] = [
    "00", "17", "1818", "190100", "1a00010000", "1b0000000100000000", "20", "3818", "c249010000000000000000", "c349010000000000000000",
    "40", "4100", "5820aaaaaaaaaaaaaaaaaaaaaaaaaaaaaaaaaaaaaaaaaaaaaaaaaaaaaaaaaaaaaaaa", "5f5840bbbbbbbbbbbbbbbbbbbbbbbbbbbbbbbbbbbbbbbbbbbbbbbbbbbbbbbbbbbbbbbbbbbbbbbbbbbbbbbbbbbbbbbbbbbbbbbbbbbbbbbbbbbbbbbbbbbbbbbbbbbbbbbb4100ff",
    "80", "9f0102ff", "9f9f01ff41aaff", "a0", "a10102", "a2010241009f03ff", "d87980", "d87a9f01ff", "d9050080", "d905789f01ff", "d866821880 80", "d866821bffffffffffffffff9f01ff",
    "d8799fd87a80a141019f02ffff",
];

fn nth_node_mut<'a>(it: &'a mut Item, j: &mut usize) -> Option<&'a mut Item> {
    if *j == 0 {
        return Some(it);
    }
    *j -= 1;
    match &mut it.v {
        V::A(xs) => {
            for x in xs.iter_mut() {
                if let Some(f) = nth_node_mut(x, j) {
                    return Some(f);
                }
            }
            None
        }
        V::M(xs) => {
            for (k, v) in xs.iter_mut() {
                if let Some(f) = nth_node_mut(k, j) {
                    return Some(f);
                }
                if let Some(f) = nth_node_mut(v, j) {
                    return Some(f);
                }
            }
            None
        }
        V::Tag(_, inner) => nth_node_mut(inner, j),
        _ => None,
    }
}

/// all encodings of one node that keep its value: (description, replacement)
fn node_variants(n: &Item) -> Vec<(String, Item)> {
    let mut out: Vec<(String, Item)> = vec![];
    let widths = |arg: u64| -> Vec<u8> { [1u8, 2, 4, 8].iter().copied().filter(|w| *w > cbor::min_width(arg)).collect() };
    match &n.v {
        V::U(v) | V::N(v) => {
            for w in widths(*v) {
                out.push((format!("int-width-{}", w), n.clone().with_width(w)));
            }
            let tag = if matches!(n.v, V::U(_)) { 2 } else { 3 };
            for lead in 0..2usize {
                out.push((format!("bignum-lead-{}", lead), Item::tag(tag, Item::bytes(&be_bytes(*v, lead)))));
            }
        }
        V::B(b) => {
            if !n.indef {
                for w in widths(b.len() as u64) {
                    out.push((format!("bytes-len-width-{}", w), n.clone().with_width(w)));
                }
            }
            if b.len() <= 64 {
                let mut c = Item::bytes(b).indef();
                out.push(("bytes-one-chunk".into(), c.clone()));
                c.chunks = vec![(0, 0), (b.len(), cbor::min_width(b.len() as u64))];
                out.push(("bytes-empty-chunk-first".into(), c.clone()));
                if b.len() >= 2 {
                    c.chunks = vec![(1, 0), (b.len() - 1, cbor::min_width(b.len() as u64 - 1))];
                    out.push(("bytes-two-chunks".into(), c.clone()));
                    c.chunks = vec![(1, 1), (b.len() - 1, 2)];
                    out.push(("bytes-two-chunks-wide".into(), c));
                }
            }
        }
        V::A(xs) => {
            let mut f = n.clone();
            f.indef = !n.indef;
            f.w = if f.indef { 0 } else { cbor::min_width(xs.len() as u64) };
            out.push((if f.indef { "array-indefinite".into() } else { "array-definite".into() }, f));
            for w in widths(xs.len() as u64) {
                let mut d = n.clone();
                d.indef = false;
                d.w = w;
                out.push((format!("array-len-width-{}", w), d));
            }
        }
        V::M(xs) => {
            let mut f = n.clone();
            f.indef = !n.indef;
            f.w = if f.indef { 0 } else { cbor::min_width(xs.len() as u64) };
            out.push((if f.indef { "map-indefinite".into() } else { "map-definite".into() }, f));
            for w in widths(xs.len() as u64) {
                let mut d = n.clone();
                d.indef = false;
                d.w = w;
                out.push((format!("map-len-width-{}", w), d));
            }
            if let Some(e) = xs.first() {
                let mut d = n.clone();
                if let V::M(ds) = &mut d.v {
                    ds.push(e.clone());
                    ds.push((e.0.clone(), Item::u(9)));
                }
                d.w = cbor::min_width(xs.len() as u64 + 2);
                out.push(("map-first-key-repeated".into(), d));
            }
        }
        V::Tag(t, inner) => {
            for w in widths(*t) {
                out.push((format!("tag-width-{}", w), n.clone().with_width(w)));
            }
            if is_constr_tag(*t) {
                let pair = Item::arr(vec![Item::u(constr_alt(*t)), (**inner).clone()]);
                out.push(("constr-tag-102".into(), Item::tag(102, pair.clone())));
                out.push(("constr-tag-102-indefinite-pair".into(), Item::tag(102, pair.indef())));
            }
        }
        _ => {}
    }
    out
}

fn datum_variants() -> Vec<(String, Vec<u8>, Vec<u8>)> {
    let mut out = vec![];
    for (bi, hs) in SMALL_DATUMS.iter().enumerate() {
        let clean: String = hs.chars().filter(|c| !c.is_whitespace()).collect();
        let base = match vkit::codec::unhex(&clean) {
            Some(b) => b,
            None => continue,
        };
        let root = match cbor::parse(&base) {
            Ok(i) => i,
            Err(_) => continue,
        };
        out.push((format!("datum-{}/as-is", bi), base.clone(), base.clone()));
        for j in 0..root.count() {
            let mut probe = root.clone();
            let mut jj = j;
            let vars = match nth_node_mut(&mut probe, &mut jj) {
                Some(n) => node_variants(n),
                None => continue,
            };
            for (desc, repl) in vars {
                let mut t = root.clone();
                let mut jj = j;
                if let Some(n) = nth_node_mut(&mut t, &mut jj) {
                    *n = repl;
                    out.push((format!("datum-{}/node-{}/{}", bi, j, desc), cbor::to_vec(&t), base.clone()));
                }
            }
        }
    }
    out
}

fn datum_exhaustive(ctx: &mut Ctx, _r: &mut Rng, i: u64) {
    with_st(ctx, |ctx, st| match st.variants.get(i as usize) {
        Some((desc, x, base)) => {
            let label = if x == base { "as-is" } else { "single-site-variant" };
            if check_datum(ctx, x, base, 0, "pd.exh.", Some(label)) {
                let site = desc.rsplit('/').next().unwrap_or("?");
                ctx.bucket(&format!("pd.exh.accepted.{}", site));
            } else {
                let site = desc.rsplit('/').next().unwrap_or("?");
                ctx.bucket(&format!("pd.exh.not-accepted.{}", site));
            }
        }
        None => ctx.bucket("pd.exh.padding-case"),
    });
}

// ------------------------------------------------------------------------------------------------ Plutus data: embedded in larger structures

/// container-level re-encoding kinds (value preserving for any CBOR)
const CONTAINER_KINDS: [u32; 6] = [K_INDEF_ARR, K_INDEF_MAP, K_WIDE_INT, K_WIDE_LEN, K_WIDE_TAG, K_UNTAG];

fn e_output(datum: &[u8], r: &mut Rng) -> Item {
    let mut payload = Item::bytes(datum);
    if r.chance(1, 3) {
        payload = payload.indef();
        payload.chunks = chunk_plan(r, datum.len());
    }
    let mut es = vec![
        (Item::u(0), Item::bytes(&b_addr())),
        (Item::u(1), Item::u(r.wide_u64())),
        (Item::u(2), Item::arr(vec![Item::u(1), Item::tag(24, payload)])),
    ];
    if r.chance(1, 3) {
        r.shuffle(&mut es);
    }
    Item::map(es)
}

fn redeemer_key(k: usize) -> (u64, u64) {
    ((k % 6) as u64, (k / 6) as u64 + (k as u64) * 3)
}

fn e_redeemers(datums: &[Item], map_form: bool, r: &mut Rng) -> Item {
    let eu = |r: &mut Rng| Item::arr(vec![Item::u(r.below(1 << 20)), Item::u(r.wide_u64())]);
    if map_form {
        Item::map(
            datums
                .iter()
                .enumerate()
                .map(|(k, d)| {
                    let (t, ix) = redeemer_key(k);
                    (Item::arr(vec![Item::u(t), Item::u(ix)]), Item::arr(vec![d.clone(), eu(r)]))
                })
                .collect(),
        )
    } else {
        Item::arr(
            datums
                .iter()
                .enumerate()
                .map(|(k, d)| {
                    let (t, ix) = redeemer_key(k);
                    Item::arr(vec![Item::u(t), Item::u(ix), d.clone(), eu(r)])
                })
                .collect(),
        )
    }
}

/// ((tag, index), datum bytes) of every redeemer of a key-5 value, by the harness's reader
fn redeemer_datums(v: &Item, base: &[u8]) -> Option<Vec<((u64, u64), Vec<u8>)>> {
    let mut out = vec![];
    match &v.v {
        V::A(xs) => {
            for e in xs {
                let a = e.as_arr()?;
                out.push(((a.first()?.as_u64()?, a.get(1)?.as_u64()?), a.get(2)?.span(base).to_vec()));
            }
        }
        V::M(es) => {
            for (k, val) in es {
                let ka = k.as_arr()?;
                let va = val.as_arr()?;
                out.push(((ka.first()?.as_u64()?, ka.get(1)?.as_u64()?), va.first()?.span(base).to_vec()));
            }
        }
        _ => return None,
    }
    Some(out)
}

fn list_datums(v: &Item, base: &[u8]) -> Option<Vec<Vec<u8>>> {
    Some(set_array(v)?.iter().map(|d| d.span(base).to_vec()).collect())
}

/// inline datum payload of an output map
fn output_datum(o: &Item) -> Option<Vec<u8>> {
    let d = o.map_get(2)?.as_arr()?;
    if d.first()?.as_u64()? != 1 {
        return None;
    }
    d.get(1)?.untag(24).as_bytes().map(|b| b.to_vec())
}

fn emb_violation(ctx: &mut Ctx, entry: &str, clause: &str, container: &str, x: &[u8], want: &[u8], got: &[u8], out: Option<&[u8]>) {
    let cls = if got.is_empty() {
        "missing"
    } else if cbor::parse(got).ok().zip(cbor::parse(want).ok()).map(|(a, b)| cbor::same_value(&a, &b)).unwrap_or(false) {
        "re-encoded-same-value"
    } else {
        "different-cbor-tree"
    };
    viol!(ctx, &format!("{}/{}/{}/{}", entry, clause, container, cls), json!({"container": hx(x), "datum_in_input": hx(want), "got": hx(got), "re_encoded_container": out.map(hx)}));
}

/// compare datums fetched through the getters, and the datums found in the re-encoded container
fn emb_compare(ctx: &mut Ctx, container: &str, getter: &str, x: &[u8], want: &[Vec<u8>], fetched: &[Vec<u8>], reenc: Option<(&[u8], Option<Vec<Vec<u8>>>)>) {
    ctx.eval();
    if fetched.len() != want.len() {
        ctx.bucket(&format!("emb.{}.getter-count-differs", container));
    } else {
        for (w, g) in want.iter().zip(fetched.iter()) {
            ctx.bucket("emb.datum-fetched-and-compared");
            if w != g {
                emb_violation(ctx, getter, "fetched-datum-differs-from-embedded-bytes", container, x, w, g, None);
            }
        }
    }
    if let Some((out, found)) = reenc {
        match found {
            Some(found) if found.len() == want.len() => {
                for (w, g) in want.iter().zip(found.iter()) {
                    ctx.bucket("emb.datum-located-in-re-encoding");
                    if w != g {
                        emb_violation(ctx, &format!("{}.to_bytes", container_type(container)), "embedded-datum-bytes-changed", container, x, w, g, Some(out));
                    }
                }
            }
            _ => {
                if cbor::parse(out).is_err() {
                    ctx.bucket(&format!("emb.{}.re-encoding-malformed", container));
                } else {
                    emb_violation(ctx, &format!("{}.to_bytes", container_type(container)), "embedded-datum-not-found-at-same-place", container, x, want.first().map(|v| v.as_slice()).unwrap_or(&[]), &[], Some(out));
                }
            }
        }
    }
}

fn container_type(container: &str) -> &'static str {
    match container {
        "output-inline-datum" => "TransactionOutput",
        "witness-set-datum" | "redeemer-array-form" | "redeemer-map-form" => "TransactionWitnessSet",
        "plutus-list" => "PlutusList",
        "fixed-transaction" => "FixedTransaction",
        _ => "Transaction",
    }
}

fn mutate_container(r: &mut Rng, root: &mut Item) -> u32 {
    let on = pick_mask(r, &CONTAINER_KINDS);
    let p = *r.pick(&[2u64, 6, 16]);
    let mut m = Mu { r, on, applied: 0, p };
    generic(&mut m, root, 0);
    m.applied
}

fn redeemers_fetch(rs: &Redeemers, keys: &[(u64, u64)]) -> Vec<Vec<u8>> {
    let mut out = vec![];
    for k in keys {
        for i in 0..rs.len() {
            let rd = rs.get(i);
            if (rd.tag().kind() as u64, u64::from(rd.index())) == *k {
                out.push(rd.data().to_bytes());
                break;
            }
        }
    }
    out
}

fn datum_embedded(ctx: &mut Ctx, r: &mut Rng, i: u64) {
    // 1-3 datums, each accepted stand-alone (otherwise the container would be refused for that reason)
    let n = 1 + r.usize(3);
    let mut datums: Vec<Vec<u8>> = vec![];
    for _ in 0..n {
        if let Some((_lib, x, _applied)) = gen_datum(ctx, r, 2) {
            if matches!(guard(|| PlutusData::from_bytes(x.clone())), Ok(Ok(_))) && !datums.contains(&x) {
                datums.push(x);
            }
        }
    }
    if datums.is_empty() {
        ctx.bucket("emb.no-accepted-datum");
        return;
    }
    let items: Vec<Item> = datums.iter().filter_map(|d| cbor::parse(d).ok()).collect();
    if items.len() != datums.len() {
        return;
    }
    let which = i % 7;
    let cname = ["output-inline-datum", "witness-set-datum", "redeemer-array-form", "redeemer-map-form", "transaction", "plutus-list", "fixed-transaction"][which as usize];
    let wits_for = |which: u64, r: &mut Rng| -> Item {
        let tagged = r.bool();
        match which {
            1 => {
                let mut es = vec![(Item::u(4), b_set(tagged, items.clone()))];
                if r.bool() {
                    es.insert(0, (Item::u(0), b_set(tagged, vec![b_vkw(1)])));
                }
                Item::map(es)
            }
            2 => Item::map(vec![(Item::u(5), e_redeemers(&items, false, r))]),
            _ => Item::map(vec![(Item::u(5), e_redeemers(&items, true, r))]),
        }
    };
    match which {
        0 => {
            let mut root = e_output(&datums[0], r);
            mutate_container(r, &mut root);
            let x = cbor::to_vec(&root);
            let want = match cbor::parse(&x).ok().and_then(|p| output_datum(&p)) {
                Some(w) => vec![w],
                None => return,
            };
            match guard(|| TransactionOutput::from_bytes(x.clone())) {
                Ok(Ok(o)) => {
                    ctx.bucket("emb.output-inline-datum");
                    ctx.nontrivial_bytes("emb", &x);
                    match guard(|| (o.plutus_data().map(|d| d.to_bytes()), o.to_bytes())) {
                        Ok((d, out)) => {
                            let found = cbor::parse(&out).ok().and_then(|p| output_datum(&p)).map(|d| vec![d]);
                            emb_compare(ctx, cname, "TransactionOutput.plutus_data", &x, &want, &d.into_iter().collect::<Vec<_>>(), Some((&out, found)));
                        }
                        Err(p) => viol!(ctx, &format!("TransactionOutput.to_bytes/{}", p.sig()), json!({"container": hx(&x)})),
                    }
                }
                Ok(Err(_)) => ctx.bucket("emb.rejected.output-inline-datum"),
                Err(p) => ctx.panic_seen(&p),
            }
        }
        1 | 2 | 3 => {
            let mut root = wits_for(which, r);
            mutate_container(r, &mut root);
            let x = cbor::to_vec(&root);
            let px = match cbor::parse(&x) {
                Ok(p) => p,
                Err(_) => return,
            };
            match guard(|| TransactionWitnessSet::from_bytes(x.clone())) {
                Ok(Ok(ws)) => {
                    ctx.bucket(&format!("emb.{}", cname));
                    ctx.nontrivial_bytes("emb", &x);
                    ctx.sample("embedded", || json!({"container": cname, "bytes": hx(&x)}));
                    if which == 1 {
                        let want = match px.map_get(4).and_then(|v| list_datums(v, &x)) {
                            Some(w) => w,
                            None => return,
                        };
                        match guard(|| (ws.plutus_data().map(|l| (0..l.len()).map(|i| l.get(i).to_bytes()).collect::<Vec<_>>()).unwrap_or_default(), ws.to_bytes())) {
                            Ok((d, out)) => {
                                let found = cbor::parse(&out).ok().and_then(|p| p.map_get(4).and_then(|v| list_datums(v, &out)));
                                emb_compare(ctx, cname, "TransactionWitnessSet.plutus_data.get", &x, &want, &d, Some((&out, found)));
                            }
                            Err(p) => viol!(ctx, &format!("TransactionWitnessSet.to_bytes/{}", p.sig()), json!({"container": hx(&x)})),
                        }
                    } else {
                        let wantk = match px.map_get(5).and_then(|v| redeemer_datums(v, &x)) {
                            Some(w) => w,
                            None => return,
                        };
                        let keys: Vec<(u64, u64)> = wantk.iter().map(|(k, _)| *k).collect();
                        let want: Vec<Vec<u8>> = wantk.into_iter().map(|(_, d)| d).collect();
                        match guard(|| (ws.redeemers().map(|rs| redeemers_fetch(&rs, &keys)).unwrap_or_default(), ws.to_bytes())) {
                            Ok((d, out)) => {
                                let found = cbor::parse(&out).ok().and_then(|p| p.map_get(5).and_then(|v| redeemer_datums(v, &out))).map(|f| keys.iter().filter_map(|k| f.iter().find(|(fk, _)| fk == k).map(|(_, d)| d.clone())).collect::<Vec<_>>());
                                emb_compare(ctx, cname, "TransactionWitnessSet.redeemers.get.data", &x, &want, &d, Some((&out, found)));
                            }
                            Err(p) => viol!(ctx, &format!("TransactionWitnessSet.to_bytes/{}", p.sig()), json!({"container": hx(&x)})),
                        }
                    }
                }
                Ok(Err(_)) => ctx.bucket(&format!("emb.rejected.{}", cname)),
                Err(p) => ctx.panic_seen(&p),
            }
        }
        5 => {
            let mut root = b_set(r.bool(), items.clone());
            mutate_container(r, &mut root);
            let x = cbor::to_vec(&root);
            let want = match cbor::parse(&x).ok().and_then(|p| list_datums(&p, &x)) {
                Some(w) => w,
                None => return,
            };
            match guard(|| PlutusList::from_bytes(x.clone())) {
                Ok(Ok(l)) => {
                    ctx.bucket("emb.plutus-list");
                    ctx.nontrivial_bytes("emb", &x);
                    match guard(|| ((0..l.len()).map(|i| l.get(i).to_bytes()).collect::<Vec<_>>(), l.to_bytes())) {
                        Ok((d, out)) => {
                            let found = cbor::parse(&out).ok().and_then(|p| list_datums(&p, &out));
                            emb_compare(ctx, cname, "PlutusList.get", &x, &want, &d, Some((&out, found)));
                        }
                        Err(p) => viol!(ctx, &format!("PlutusList.to_bytes/{}", p.sig()), json!({"container": hx(&x)})),
                    }
                }
                Ok(Err(_)) => ctx.bucket("emb.rejected.plutus-list"),
                Err(p) => ctx.panic_seen(&p),
            }
        }
        _ => {
            // a whole transaction: inline datum in output 0, datums in key 4, redeemers in key 5
            let tagged = r.bool();
            let map_form = r.bool();
            let body = Item::map(vec![
                (Item::u(0), b_set(tagged, vec![b_input(1)])),
                (Item::u(1), Item::arr(vec![e_output(&datums[0], r)])),
                (Item::u(2), Item::u(r.wide_u64())),
            ]);
            let wits = Item::map(vec![(Item::u(4), b_set(tagged, items.clone())), (Item::u(5), e_redeemers(&items, map_form, r))]);
            let mut root = Item::arr(vec![body, wits, Item::new(V::Simple(21)), Item::null()]);
            mutate_container(r, &mut root);
            let x = cbor::to_vec(&root);
            let locate = |b: &[u8]| -> Option<(Vec<u8>, Vec<Vec<u8>>, Vec<((u64, u64), Vec<u8>)>)> {
                let p = cbor::parse(b).ok()?;
                let a = p.as_arr()?;
                let o = a.first()?.map_get(1)?.as_arr()?.first()?;
                let w = a.get(1)?;
                Some((output_datum(o)?, list_datums(w.map_get(4)?, b)?, redeemer_datums(w.map_get(5)?, b)?))
            };
            let (w_out, w_list, w_red) = match locate(&x) {
                Some(t) => t,
                None => return,
            };
            let keys: Vec<(u64, u64)> = w_red.iter().map(|(k, _)| *k).collect();
            let mut want = vec![w_out];
            want.extend(w_list);
            want.extend(w_red.into_iter().map(|(_, d)| d));
            let arrange = |t: (Vec<u8>, Vec<Vec<u8>>, Vec<((u64, u64), Vec<u8>)>)| -> Vec<Vec<u8>> {
                let mut v = vec![t.0];
                v.extend(t.1);
                v.extend(keys.iter().filter_map(|k| t.2.iter().find(|(fk, _)| fk == k).map(|(_, d)| d.clone())));
                v
            };
            let fetch = |body: &TransactionBody, ws: &TransactionWitnessSet| -> Vec<Vec<u8>> {
                let mut v = vec![];
                let outs = body.outputs();
                if outs.len() > 0 {
                    if let Some(d) = outs.get(0).plutus_data() {
                        v.push(d.to_bytes());
                    }
                }
                if let Some(l) = ws.plutus_data() {
                    for i in 0..l.len() {
                        v.push(l.get(i).to_bytes());
                    }
                }
                if let Some(rs) = ws.redeemers() {
                    v.extend(redeemers_fetch(&rs, &keys));
                }
                v
            };
            if which == 4 {
                match guard(|| Transaction::from_bytes(x.clone())) {
                    Ok(Ok(tx)) => {
                        ctx.bucket("emb.transaction");
                        ctx.nontrivial_bytes("emb", &x);
                        match guard(|| (fetch(&tx.body(), &tx.witness_set()), tx.to_bytes())) {
                            Ok((d, out)) => {
                                let found = locate(&out).map(&arrange);
                                emb_compare(ctx, cname, "Transaction.getters", &x, &want, &d, Some((&out, found)));
                            }
                            Err(p) => viol!(ctx, &format!("Transaction.to_bytes/{}", p.sig()), json!({"container": hx(&x)})),
                        }
                    }
                    Ok(Err(_)) => ctx.bucket("emb.rejected.transaction"),
                    Err(p) => ctx.panic_seen(&p),
                }
            } else {
                match guard(|| FixedTransaction::from_bytes(x.clone())) {
                    Ok(Ok(tx)) => {
                        ctx.bucket("emb.fixed-transaction");
                        ctx.nontrivial_bytes("emb", &x);
                        match guard(|| (fetch(&tx.body(), &tx.witness_set()), tx.to_bytes())) {
                            Ok((d, out)) => {
                                let found = locate(&out).map(&arrange);
                                emb_compare(ctx, cname, "FixedTransaction.getters", &x, &want, &d, Some((&out, found)));
                            }
                            Err(p) => viol!(ctx, &format!("FixedTransaction.to_bytes/{}", p.sig()), json!({"container": hx(&x)})),
                        }
                    }
                    Ok(Err(_)) => ctx.bucket("emb.rejected.fixed-transaction"),
                    Err(p) => ctx.panic_seen(&p),
                }
            }
        }
    }
}
