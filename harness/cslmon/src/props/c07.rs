//! C07 — minimum-ADA and size limits hold for everything the builder emits.
use super::bld::*;
use super::c05::{binit, ASSUMPTIONS};
use crate::fw::*;
use crate::gen::typed::G;
use crate::scen::Focus;
use cardano_serialization_lib as csl;
use csl::*;
use serde_json::json;
use vkit::rng::{Rng, LATTICE};

pub fn def() -> PropDef {
    PropDef {
        id: "C07",
        rule: "(A) min_ada_for_output on generated outputs (every address kind incl. Byron and pointer, coin from the width lattice, asset bundles, datum hash / inline datum / script ref) x coins-per-byte in {0, 1, 4310, 34482, 2^20, 2^40}: sizes are measured on the emitted bytes by the independent reader; (B) builder scenarios: every output of the built body, its value size and the really signed transaction size against the scenario's parameters; non-trivial = output longer than 40 bytes or a built transaction; distinct by hash of (output bytes, cpb) / transaction bytes",
        assumptions: ASSUMPTIONS,
        streams,
        floors: &[("fn.ok", 20_000), ("fn.lattice-coin", 500), ("fn.err-expected", 10), ("c07.output-min-ada-ok", 3_000), ("c07.tx-size-ok", 2_000), ("c07.value-size-above-half-limit", 50), ("add_output.rejected-below-min", 50)],
        init: Some(binit),
    }
}

fn streams() -> Vec<Stream> {
    vec![
        Stream { name: "function-lattice", count: (LATTICE.len() as u64 * 6 * 40, LATTICE.len() as u64 * 6 * 400), exhaustive: false, run: fn_lattice },
        Stream { name: "function-random", count: (120_000, 3_000_000), exhaustive: false, run: fn_random },
        Stream { name: "function-boundary-tuned", count: (120_000, 3_000_000), exhaustive: false, run: fn_boundary },
        Stream { name: "scenarios", count: (25_000, 800_000), exhaustive: false, run: |c, r, _| scenario(c, r, Focus::default(), c07_monitor) },
        Stream { name: "scenarios-tuned-change", count: (24_000, 800_000), exhaustive: false, run: |c, r, _| scenario_tuned(c, r, Focus { coin_select: 3, ..Focus::default() }, c07_monitor) },
        Stream { name: "scenarios-tight", count: (20_000, 600_000), exhaustive: false, run: tight },
        Stream { name: "add-output-edge", count: (30_000, 800_000), exhaustive: false, run: add_output_edge },
        Stream { name: "scenarios-squeezed", count: (20_000, 600_000), exhaustive: false, run: squeezed },
        // the send-all route creates outputs under the same limits with its own arithmetic size model: the C13
        // workload and judge, run here for the minimum-ADA / value-size / transaction-size clauses
        Stream { name: "send-all-route", count: (2_500, 60_000), exhaustive: false, run: super::c13::send_all },
        Stream { name: "output-builder-min-coin", count: (40_000, 1_000_000), exhaustive: false, run: output_builder_min_coin },
    ]
}

fn tight(c: &mut Ctx, r: &mut Rng, _i: u64) {
    let f = Focus { small_limits: 12, assets: 12, many_assets: 9, mint: 7, plutus: 2, ..Focus::default() };
    scenario(c, r, f, c07_monitor)
}

/// the size limit is only interesting at the limit: a history is run once to learn the size S of the
/// transaction it builds, then again (same random stream) with max_tx_size a little below S - the builder
/// must refuse, or build something that fits; an estimate that forgets a few bytes lets S through
fn squeezed(c: &mut Ctx, r: &mut Rng, _i: u64) {
    let f = Focus { plutus: 8, ..Focus::default() };
    let mut r1 = r.clone();
    let size = match crate::scen::run_scenario(&mut r1, ring(c), f.clone()).and_then(|o| o.tx_bytes.map(|b| b.len() as u64)) {
        Some(s) => s,
        None => {
            c.bucket("squeeze.first-run-built-nothing");
            return;
        }
    };
    let k = *r1.pick(&[1u64, 1, 2, 4, 9, 20, 45, 100]);
    if size <= k + 200 {
        return;
    }
    c.bucket("squeeze.second-run");
    let f2 = Focus { max_tx_size: Some(size - k), ..f };
    scenario(c, r, f2, c07_monitor)
}

const CPBS: [u64; 6] = [0, 1, 4310, 34_482, 1 << 20, 1 << 40];

fn enc_len(o: &TransactionOutput) -> Option<u64> {
    let b = guard(|| o.to_bytes()).ok()?;
    let it = vkit::cbor::parse(&b).ok()?;
    Some((it.end - it.start) as u64)
}

fn with_coin(o: &TransactionOutput, coin: u64) -> TransactionOutput {
    let mut v = o.amount();
    v.set_coin(&BigNum::from(coin));
    let mut n = TransactionOutput::new(&o.address(), &v);
    if let Some(d) = o.data_hash() {
        n.set_data_hash(&d);
    }
    if let Some(d) = o.plutus_data() {
        n.set_plutus_data(&d);
    }
    if let Some(s) = o.script_ref() {
        n.set_script_ref(&s);
    }
    n
}

fn check_fn(ctx: &mut Ctx, o: &TransactionOutput, cpb: u64) {
    ctx.eval();
    let ob = match guard(|| o.to_bytes()) {
        Ok(b) => b,
        Err(p) => {
            ctx.panic_seen(&p);
            return;
        }
    };
    let mut hv = ob.clone();
    hv.extend_from_slice(&cpb.to_le_bytes());
    if ob.len() > 40 {
        ctx.nontrivial_bytes("minada", &hv);
    }
    let det = || json!({"output": hx(&ob), "coins_per_byte": cpb.to_string()});
    let dc = DataCost::new_coins_per_byte(&BigNum::from(cpb));
    // upper bound: with the coin field at its widest encoding
    let widest = with_coin(o, u64::MAX);
    let upper = match enc_len(&widest) {
        Some(l) => cpb as u128 * (160 + l as u128),
        None => return,
    };
    match guard(|| min_ada_for_output(o, &dc)) {
        Ok(Ok(c)) => {
            let c: u64 = c.into();
            ctx.bucket("fn.ok");
            let cur: u64 = o.amount().coin().into();
            let o2 = with_coin(o, c.max(cur));
            match enc_len(&o2) {
                Some(l) => {
                    let need = cpb as u128 * (160 + l as u128);
                    if (c.max(cur) as u128) < need {
                        let mut d = det();
                        d["returned"] = json!(c.to_string());
                        d["needed_with_that_coin"] = json!(need.to_string());
                        ctx.violation("min_ada_for_output/returned-coin-does-not-satisfy-the-bound", d);
                    }
                }
                None => return,
            }
            if c as u128 > upper {
                let mut d = det();
                d["returned"] = json!(c.to_string());
                d["upper_bound"] = json!(upper.to_string());
                ctx.violation("min_ada_for_output/exceeds-bound-with-widest-coin", d);
            }
        }
        Ok(Err(_)) => {
            // an error is accepted only when the exact product does not fit in 64 bits
            let smallest = with_coin(o, 0);
            let lower = enc_len(&smallest).map(|l| cpb as u128 * (160 + l as u128)).unwrap_or(0);
            if upper <= u64::MAX as u128 {
                let mut d = det();
                d["upper_bound"] = json!(upper.to_string());
                ctx.violation("min_ada_for_output/error-although-the-bound-fits-in-64-bits", d);
            } else if lower > u64::MAX as u128 {
                ctx.bucket("fn.err-expected");
            } else {
                ctx.bucket("fn.err-near-64-bit-edge");
            }
        }
        Err(p) => ctx.violation(&format!("min_ada_for_output/{}", p.sig()), det()),
    }
    ctx.sample("min_ada_for_output", || det());
}

fn fn_lattice(ctx: &mut Ctx, r: &mut Rng, i: u64) {
    let coin = LATTICE[(i % LATTICE.len() as u64) as usize];
    let cpb = CPBS[((i / LATTICE.len() as u64) % 6) as usize];
    let mut g = G::new(r, 2, 3);
    let o = g.tx_output();
    let o = with_coin(&o, coin);
    ctx.bucket("fn.lattice-coin");
    check_fn(ctx, &o, cpb);
}

/// the price per byte is chosen for the output at hand so that its minimum sits next to a CBOR width boundary B
/// of the coin field (24, 256, 2^16, 2^32), and the output's current coin is placed around B: a coin just above B
/// makes the output longer than the one the minimum was computed for
fn fn_boundary(ctx: &mut Ctx, r: &mut Rng, _i: u64) {
    let b = *r.pick(&[24u64, 256, 65_536, 65_536, 1 << 32, 1 << 32]);
    let k = r.below(14);
    let spread = r.below(4);
    let mut g = G::new(r, 2, 4);
    let o = g.tx_output();
    let s0 = match enc_len(&with_coin(&o, 0)) {
        Some(l) => l,
        None => return,
    };
    let cpb = (b / (160 + s0 + k)).max(1);
    let cur = match spread {
        0 => 0,
        1 => b - 1,
        2 => b + g.r.below(cpb * 12 + 2),
        _ => b.saturating_sub(g.r.below(cpb * 4 + 2)),
    };
    let o = with_coin(&o, cur);
    ctx.bucket("fn.boundary-tuned");
    check_fn(ctx, &o, cpb);
}

fn fn_random(ctx: &mut Ctx, r: &mut Rng, _i: u64) {
    let cpb = match r.below(4) {
        0 => r.wide_u64(),
        _ => *r.pick(&CPBS),
    };
    let mut g = G::new(r, 3, 6);
    let o = g.tx_output();
    check_fn(ctx, &o, cpb);
}

/// add_output must reject an explicit output just below its bound and accept one at the bound
/// the output builder's own minimum-coin helper (also behind add_mint_asset_and_output_min_required_coin):
/// the output it builds carries at least coins_per_byte x (160 + its serialized size), whatever
/// combination of datum hash / inline datum / script reference / assets it holds
fn output_builder_min_coin(ctx: &mut Ctx, r: &mut Rng, _i: u64) {
    ctx.eval();
    let cpb = *r.pick(&CPBS[1..5]);
    let mut g = G::new(r, 2, 3);
    let o = g.tx_output();
    // every address length: now and then the longest Shelley address (a pointer address with 10-byte pointers)
    let addr = if g.r.below(6) == 0 {
        let big = BigNum::from(u64::MAX - g.r.below(1000));
        PointerAddress::new(g.r.below(2) as u8, &g.credential(), &Pointer::new_pointer(&big, &big, &big)).to_address()
    } else {
        o.address()
    };
    let mut b = TransactionOutputBuilder::new().with_address(&addr);
    let mut shape = String::new();
    if let Some(d) = o.data_hash() {
        b = b.with_data_hash(&d);
        shape.push_str("+datum-hash");
    }
    if let Some(d) = o.plutus_data() {
        b = b.with_plutus_data(&d);
        shape.push_str("+inline-datum");
    }
    if let Some(sr) = o.script_ref() {
        b = b.with_script_ref(&sr);
        shape.push_str("+script-ref");
    }
    let ma = o.amount().multiasset().unwrap_or_else(MultiAsset::new);
    if ma.len() > 0 {
        shape.push_str("+assets");
    }
    let dc = DataCost::new_coins_per_byte(&BigNum::from(cpb));
    let built = guard(|| b.next().and_then(|n| n.with_asset_and_min_required_coin_by_utxo_cost(&ma, &dc)).and_then(|n| n.build()));
    let out = match built {
        Ok(Ok(o)) => o,
        Ok(Err(_)) => {
            ctx.bucket("output-builder.refused");
            return;
        }
        Err(p) => {
            // a panic while building / serializing is judged by C01 / C02 (the checked build meets the known
            // cbor_event negation overflow on a datum holding -2^63 here), not by the minimum-ADA property
            ctx.panic_seen(&p);
            return;
        }
    };
    let ob = guard(|| out.to_bytes()).unwrap_or_default();
    ctx.nontrivial_bytes("ob", &ob);
    let l = match enc_len(&out) {
        Some(l) => l,
        None => return,
    };
    let coin: u64 = out.amount().coin().into();
    if (coin as u128) < cpb as u128 * (160 + l as u128) {
        // one known cause is keyed by itself: the helper sizes the output with the calculator's 57-byte
        // placeholder address instead of the output's own, so a longer address is under-funded by
        // coins_per_byte x (extra address bytes) (+ the width feedback of the coin itself)
        let alen = guard(|| out.address().to_bytes().len()).unwrap_or(0) as u128;
        let short = cpb as u128 * (160 + l as u128) - coin as u128;
        let by_address = alen > 57 && short <= cpb as u128 * (alen - 57 + 4);
        let cls = if by_address {
            "address-longer-than-the-57-byte-placeholder".to_string()
        } else if shape.is_empty() {
            "plain".to_string()
        } else {
            shape[1..].to_string()
        };
        ctx.violation(
            &format!("with_asset_and_min_required_coin_by_utxo_cost/built-output-below-min-ada/{}", cls),
            json!({"output": hx(&ob), "coins_per_byte": cpb, "coin": coin.to_string(), "needs": (cpb as u128 * (160 + l as u128)).to_string()}),
        );
    } else {
        ctx.bucket(&format!("output-builder.ok.{}", if shape.is_empty() { "plain" } else { &shape[1..] }));
    }
}

fn add_output_edge(ctx: &mut Ctx, r: &mut Rng, _i: u64) {
    ctx.eval();
    let cpb = *r.pick(&[1u64, 4310, 34_482]);
    let cfg = TransactionBuilderConfigBuilder::new()
        .fee_algo(&LinearFee::new(&BigNum::from(44u64), &BigNum::from(155_381u64)))
        .pool_deposit(&BigNum::from(500_000_000u64))
        .key_deposit(&BigNum::from(2_000_000u64))
        .max_value_size(5000)
        .max_tx_size(16384)
        .coins_per_utxo_byte(&BigNum::from(cpb))
        .build()
        .unwrap();
    let mut g = G::new(r, 2, 3);
    let o = g.tx_output();
    // the exact threshold by our own measurement: smallest coin c with c >= cpb*(160+len(o with coin c))
    let mut c: u64 = 0;
    for _ in 0..6 {
        let l = match enc_len(&with_coin(&o, c)) {
            Some(l) => l,
            None => return,
        };
        let need = cpb as u128 * (160 + l as u128);
        if need > u64::MAX as u128 {
            return;
        }
        if need as u64 == c {
            break;
        }
        c = need as u64;
    }
    let delta = g.r.below(3) as i64 - 1; // -1, 0, +1
    let coin = (c as i64 + delta).max(0) as u64;
    let cand = with_coin(&o, coin);
    let l = match enc_len(&cand) {
        Some(l) => l,
        None => return,
    };
    let satisfies = coin as u128 >= cpb as u128 * (160 + l as u128);
    let vlen = guard(|| cand.amount().to_bytes().len()).unwrap_or(0);
    let cb = guard(|| cand.to_bytes()).unwrap_or_default();
    ctx.nontrivial_bytes("addout", &cb);
    let mut tb = TransactionBuilder::new(&cfg);
    if g.r.below(3) == 0 {
        // the same candidate offered as the collateral return (a full output: datum hash / inline
        // datum / script reference count towards its size exactly as for an ordinary output)
        let kh = g.keyhash();
        let addr = EnterpriseAddress::new(0, &Credential::from_keyhash(&kh)).to_address();
        let input = TransactionInput::new(&TransactionHash::from_bytes(g.hash32()).unwrap(), 0);
        let in_val = match guard(|| cand.amount().checked_add(&Value::new(&BigNum::from(5_000_000u64)))) {
            Ok(Ok(v)) => v,
            _ => return,
        };
        let mut cbld = TxInputsBuilder::new();
        if !matches!(guard(|| cbld.add_regular_input(&addr, &input, &in_val)), Ok(Ok(()))) {
            return;
        }
        tb.set_collateral(&cbld);
        match guard(|| tb.set_collateral_return_and_total(&cand)) {
            Ok(Ok(())) => {
                if !satisfies {
                    ctx.violation("set_collateral_return_and_total/accepted-return-below-min-ada", json!({"output": hx(&cb), "coins_per_byte": cpb}));
                } else {
                    ctx.bucket("collateral_return.accepted-at-or-above-min");
                }
            }
            Ok(Err(_)) => ctx.bucket(if satisfies { "collateral_return.rejected-although-bound-met" } else { "collateral_return.rejected-below-min" }),
            Err(p) => ctx.panic_seen(&p), // judged by C02 (see output_builder_min_coin)
        }
        return;
    }
    match guard(|| tb.add_output(&cand)) {
        Ok(Ok(())) => {
            if !satisfies {
                ctx.violation("add_output/accepted-output-below-min-ada", json!({"output": hx(&cb), "coins_per_byte": cpb}));
            } else {
                ctx.bucket("add_output.accepted-at-or-above-min");
            }
        }
        Ok(Err(_)) => {
            if satisfies && vlen <= 5000 {
                // rejecting an output that meets the bound is stricter than needed but not a violation of the property
                ctx.bucket("add_output.rejected-although-bound-met");
            } else {
                ctx.bucket("add_output.rejected-below-min");
            }
        }
        Err(p) => ctx.panic_seen(&p), // judged by C02
    }
}
