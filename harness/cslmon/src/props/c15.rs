//! C15 — stand-alone fee functions equal the ledger definitions.
//! Oracle: exact rationals (num-rational over num-bigint); the reference-script fee is computed
//! by the ledger's tier-by-tier recursion, a different algorithm from the library's closed form.

use crate::fw::*;
use cardano_serialization_lib as csl;
use csl::*;
use num_bigint::BigInt as NB;
use num_rational::BigRational as Q;
use num_traits::{One, ToPrimitive, Zero};
use serde_json::json;
use vkit::rng::Rng;

pub fn def() -> PropDef {
    PropDef {
        id: "C15",
        rule: "cases are argument tuples for min_fee / min_fee_for_size / calculate_ex_units_ceil_cost / min_script_fee / min_ref_script_fee: every size within +-2 bytes of each of the first 10 tier edges exhaustively, then seeded sizes, coefficients, price fractions and unit totals biased to width boundaries; non-trivial = result or exact reference > 0 or an error is expected; distinct by hash of the arguments",
        assumptions: &[
            "num-rational / num-bigint are trusted for the exact reference",
            "zero denominators are not generated (not a fraction)",
            "redeemer sets whose summed units exceed 2^64-1 are not generated",
        ],
        streams,
        floors: &[("linear.ok", 200), ("linear.err-expected", 50), ("exunits.ok", 200), ("exunits.err-expected", 20), ("ref.ok", 200), ("ref.tier-edge", 40), ("txfee.ok", 100)],
        init: None,
    }
}

fn streams() -> Vec<Stream> {
    vec![
        Stream { name: "ref-tier-edges", count: (11 * 5 * 6, 11 * 5 * 6), exhaustive: true, run: ref_edges },
        Stream { name: "ref-random", count: (60_000, 1_500_000), exhaustive: false, run: ref_random },
        Stream { name: "ref-large", count: (16, 400), exhaustive: false, run: ref_large },
        Stream { name: "linear", count: (300_000, 6_000_000), exhaustive: false, run: linear },
        Stream { name: "exunits", count: (200_000, 4_000_000), exhaustive: false, run: exunits },
        Stream { name: "tx-fees", count: (20_000, 400_000), exhaustive: false, run: tx_fees },
    ]
}

fn q(n: u64, d: u64) -> Q {
    Q::new(NB::from(n), NB::from(d))
}

/// the ledger's tierRefScriptFee: go acc price n
fn ref_fee_reference(size: u64, price: &Q) -> NB {
    let mut acc = Q::zero();
    let mut p = price.clone();
    let mut n = size;
    let mult = q(12, 10);
    let tier = NB::from(25_600u64);
    while n >= 25_600 {
        acc += &p * Q::from_integer(tier.clone());
        p = &p * &mult;
        n -= 25_600;
    }
    (acc + p * Q::from_integer(NB::from(n))).floor().to_integer()
}

const PRICES: [(u64, u64); 6] = [(15, 1), (0, 1), (1, 3), (30, 2), (44, 1000), (721, 10_000_000)];

fn check_ref(ctx: &mut Ctx, size: u64, pn: u64, pd: u64) {
    ctx.eval();
    let want = ref_fee_reference(size, &q(pn, pd));
    let fits = want <= NB::from(u64::MAX);
    let ui = UnitInterval::new(&BigNum::from(pn), &BigNum::from(pd));
    let got = guard(|| min_ref_script_fee(size as usize, &ui));
    if !want.is_zero() || !fits {
        let mut v = size.to_le_bytes().to_vec();
        v.extend_from_slice(&pn.to_le_bytes());
        v.extend_from_slice(&pd.to_le_bytes());
        ctx.nontrivial_bytes("ref", &v);
    }
    let detail = json!({"size": size, "price": format!("{}/{}", pn, pd), "want": want.to_string()});
    match got {
        Ok(Ok(v)) => {
            ctx.bucket("ref.ok");
            if !fits {
                ctx.violation("min_ref_script_fee/overflow-not-reported", detail);
            } else if NB::from(u64::from(v)) != want {
                let mut d = detail;
                d["got"] = json!(u64::from(v).to_string());
                ctx.violation("min_ref_script_fee/differs-from-tier-recursion", d);
            }
        }
        Ok(Err(_)) => {
            ctx.bucket("ref.err");
            if fits {
                ctx.violation("min_ref_script_fee/spurious-error", detail);
            }
        }
        Err(p) => {
            let mut d = detail;
            d["msg"] = json!(p.msg);
            ctx.violation(&format!("min_ref_script_fee/{}", p.sig()), d);
        }
    }
    ctx.sample("ref", || json!({"fn": "min_ref_script_fee", "size": size, "price": format!("{}/{}", pn, pd), "exact": want.to_string()}));
}

fn ref_edges(ctx: &mut Ctx, _r: &mut Rng, i: u64) {
    let tier = i / 30; // 0..=10
    let off = (i % 30) / 6; // 0..5 -> -2..=2
    let pr = PRICES[(i % 6) as usize];
    let edge = tier * 25_600;
    let size = (edge + off).saturating_sub(2);
    ctx.bucket("ref.tier-edge");
    check_ref(ctx, size, pr.0, pr.1);
}

fn gen_price(r: &mut Rng) -> (u64, u64) {
    match r.below(8) {
        0 => *r.pick(&PRICES),
        1 => (0, 1 + r.below(1000)),
        2 => {
            // non-reduced
            let k = 1 + r.below(1000);
            (15 * k, k)
        }
        3 => (r.below(1 << 20), 1 + r.below(1 << 40)),
        4 => (r.wide_u64(), r.wide_u64().max(1)),
        5 => (1 + r.below(100), u64::MAX - r.below(3)),
        _ => (r.below(100), 1 + r.below(10)),
    }
}

fn ref_random(ctx: &mut Ctx, r: &mut Rng, _i: u64) {
    let size = match r.below(6) {
        0 => r.below(25_600 * 12),
        1 => {
            let t = r.below(40);
            (t * 25_600 + r.below(5)).saturating_sub(2)
        }
        2 => r.below(200_000),
        3 => r.below(1 << 20),
        _ => r.below(25_600 * 3),
    };
    let (n, d) = gen_price(r);
    check_ref(ctx, size, n, d);
}

/// sizes up to 2^32 (big rationals: milliseconds to seconds each)
fn ref_large(ctx: &mut Ctx, r: &mut Rng, i: u64) {
    let max_tiers = if ctx.quick() { 600 } else { 6000 };
    let t = if i == 0 { max_tiers } else { r.below(max_tiers) };
    let size = t * 25_600 + r.below(25_600);
    let (n, d) = *r.pick(&[(15u64, 1u64), (1, 1000), (0, 1), (1, u64::MAX)]);
    ctx.bucket("ref.large");
    check_ref(ctx, size, n, d);
}

fn linear(ctx: &mut Ctx, r: &mut Rng, _i: u64) {
    ctx.eval();
    let size = match r.below(5) {
        0 => r.below(16_384),
        1 => r.wide_u64() & 0xffff_ffff,
        2 => r.wide_u64(),
        _ => r.below(1 << 20),
    };
    let (a, b) = match r.below(5) {
        0 => (44, 155_381),
        1 => (r.wide_u64(), r.wide_u64()),
        2 => {
            // steer the product to the 64-bit edge
            let a = 1 + r.below(1 << 32);
            (a, r.below(10))
        }
        3 => (0, r.wide_u64()),
        _ => (r.below(1000), r.below(1_000_000)),
    };
    let size = if r.chance(1, 6) && a != 0 { (u64::MAX / a).wrapping_add(r.below(3)).wrapping_sub(1) } else { size };
    let want = NB::from(a) * NB::from(size) + NB::from(b);
    let fits = want <= NB::from(u64::MAX);
    if !want.is_zero() {
        let mut v = size.to_le_bytes().to_vec();
        v.extend_from_slice(&a.to_le_bytes());
        v.extend_from_slice(&b.to_le_bytes());
        ctx.nontrivial_bytes("lin", &v);
    }
    let lf = LinearFee::new(&BigNum::from(a), &BigNum::from(b));
    let detail = json!({"size": size.to_string(), "a": a.to_string(), "b": b.to_string(), "want": want.to_string()});
    match guard(|| min_fee_for_size(size as usize, &lf)) {
        Ok(Ok(v)) => {
            ctx.bucket("linear.ok");
            if !fits {
                ctx.violation("min_fee_for_size/overflow-not-reported", detail);
            } else if NB::from(u64::from(v)) != want {
                ctx.violation("min_fee_for_size/wrong", detail);
            }
        }
        Ok(Err(_)) => {
            if fits {
                ctx.violation("min_fee_for_size/spurious-error", detail);
            } else {
                ctx.bucket("linear.err-expected");
            }
        }
        Err(p) => ctx.violation(&format!("min_fee_for_size/{}", p.sig()), detail),
    }
    if lf.coefficient() != BigNum::from(a) || lf.constant() != BigNum::from(b) {
        ctx.violation("LinearFee/getters-swapped", json!({"a": a.to_string(), "b": b.to_string()}));
    }
    ctx.sample("linear", || json!({"fn": "min_fee_for_size", "size": size.to_string(), "a": a.to_string(), "b": b.to_string(), "exact": want.to_string()}));
}

fn exunits(ctx: &mut Ctx, r: &mut Rng, _i: u64) {
    ctx.eval();
    let (mem, steps) = match r.below(4) {
        0 => (r.below(14_000_000), r.below(10_000_000_000)),
        1 => (r.wide_u64(), r.wide_u64()),
        2 => (u64::MAX - r.below(2), r.below(3)),
        _ => (r.below(1 << 32), r.below(1 << 40)),
    };
    let (mn, md) = match r.below(3) {
        0 => (577, 10_000),
        _ => gen_price(r),
    };
    let (sn, sd) = match r.below(3) {
        0 => (721, 10_000_000),
        _ => gen_price(r),
    };
    let exact = (q(mn, md) * Q::from_integer(NB::from(mem)) + q(sn, sd) * Q::from_integer(NB::from(steps))).ceil().to_integer();
    let fits = exact <= NB::from(u64::MAX);
    if !exact.is_zero() {
        ctx.nontrivial_bytes("exu", format!("{} {} {} {} {} {}", mem, steps, mn, md, sn, sd).as_bytes());
    }
    let prices = ExUnitPrices::new(
        &UnitInterval::new(&BigNum::from(mn), &BigNum::from(md)),
        &UnitInterval::new(&BigNum::from(sn), &BigNum::from(sd)),
    );
    let eu = ExUnits::new(&BigNum::from(mem), &BigNum::from(steps));
    let detail = json!({"mem": mem.to_string(), "steps": steps.to_string(), "mem_price": format!("{}/{}", mn, md), "step_price": format!("{}/{}", sn, sd), "want": exact.to_string()});
    match guard(|| calculate_ex_units_ceil_cost(&eu, &prices)) {
        Ok(Ok(v)) => {
            ctx.bucket("exunits.ok");
            if !fits {
                ctx.violation("calculate_ex_units_ceil_cost/overflow-not-reported", detail);
            } else if NB::from(u64::from(v)) != exact {
                let mut d = detail;
                d["got"] = json!(u64::from(v).to_string());
                ctx.violation("calculate_ex_units_ceil_cost/wrong", d);
            }
        }
        Ok(Err(_)) => {
            if fits {
                ctx.violation("calculate_ex_units_ceil_cost/spurious-error", detail);
            } else {
                ctx.bucket("exunits.err-expected");
            }
        }
        Err(p) => ctx.violation(&format!("calculate_ex_units_ceil_cost/{}", p.sig()), detail),
    }
    ctx.sample("exunits", || json!({"fn": "calculate_ex_units_ceil_cost", "mem": mem.to_string(), "steps": steps.to_string(), "prices": [format!("{}/{}", mn, md), format!("{}/{}", sn, sd)], "exact": exact.to_string()}));
}

/// min_fee(tx) and min_script_fee(tx) on real transactions: size measured by our own CBOR reader,
/// units summed from the emitted redeemer bytes.
fn tx_fees(ctx: &mut Ctx, r: &mut Rng, _i: u64) {
    ctx.eval();
    // body with a few inputs/outputs
    let mut ins = TransactionInputs::new();
    for _ in 0..1 + r.below(4) {
        ins.add(&TransactionInput::new(&TransactionHash::from_bytes(r.bytes(32)).unwrap(), r.below(300) as u32));
    }
    let mut outs = TransactionOutputs::new();
    let addr = EnterpriseAddress::new(0, &Credential::from_keyhash(&Ed25519KeyHash::from_bytes(r.bytes(28)).unwrap())).to_address();
    for _ in 0..r.below(5) {
        outs.add(&TransactionOutput::new(&addr, &Value::new(&BigNum::from(r.wide_u64()))));
    }
    let body = TransactionBody::new_tx_body(&ins, &outs, &BigNum::from(r.wide_u64()));
    let mut ws = TransactionWitnessSet::new();
    let nred = r.below(5);
    let mut reds = Redeemers::new();
    let mut budget_mem = u64::MAX;
    let mut budget_steps = u64::MAX;
    let (mut tot_mem, mut tot_steps) = (0u128, 0u128);
    for k in 0..nred {
        let mem = match r.below(3) {
            0 => r.below(14_000_000),
            1 => r.wide_u64() / 8,
            _ => r.below(budget_mem / 2 + 1),
        }
        .min(budget_mem);
        let steps = match r.below(3) {
            0 => r.below(10_000_000_000),
            1 => r.wide_u64() / 8,
            _ => r.below(budget_steps / 2 + 1),
        }
        .min(budget_steps);
        budget_mem -= mem;
        budget_steps -= steps;
        tot_mem += mem as u128;
        tot_steps += steps as u128;
        let tag = match k % 4 {
            0 => RedeemerTag::new_spend(),
            1 => RedeemerTag::new_mint(),
            2 => RedeemerTag::new_cert(),
            _ => RedeemerTag::new_reward(),
        };
        reds.add(&Redeemer::new(
            &tag,
            &BigNum::from(k),
            &PlutusData::new_integer(&BigInt::from_str(&r.below(1000).to_string()).unwrap()),
            &ExUnits::new(&BigNum::from(mem), &BigNum::from(steps)),
        ));
    }
    if nred > 0 {
        ws.set_redeemers(&reds);
    }
    let mut tx = Transaction::new(&body, &ws, None);
    // the fee formulas do not consult the phase-2 validity flag
    if r.below(4) == 0 {
        tx.set_is_valid(false);
        ctx.bucket("tx.is_valid-false");
    }
    let bytes = tx.to_bytes();
    let parsed = match vkit::cbor::parse(&bytes) {
        Ok(p) => p,
        Err(e) => {
            ctx.violation("tx-fees/tx-bytes-malformed", json!({"tx": hx(&bytes), "err": format!("{:?}", e)}));
            return;
        }
    };
    let size = (parsed.end - parsed.start) as u64;
    let (a, b) = if r.bool() { (44u64, 155_381u64) } else { (r.below(1 << 30), r.wide_u64() / 2) };
    let want = NB::from(a) * NB::from(size) + NB::from(b);
    let lf = LinearFee::new(&BigNum::from(a), &BigNum::from(b));
    ctx.nontrivial_bytes("txfee", &bytes);
    match guard(|| min_fee(&tx, &lf)) {
        Ok(Ok(v)) => {
            ctx.bucket("txfee.ok");
            if NB::from(u64::from(v)) != want {
                ctx.violation("min_fee/wrong", json!({"tx": hx(&bytes), "a": a.to_string(), "b": b.to_string(), "want": want.to_string(), "got": u64::from(v).to_string()}));
            }
        }
        Ok(Err(_)) => {
            if want <= NB::from(u64::MAX) {
                ctx.violation("min_fee/spurious-error", json!({"tx": hx(&bytes), "a": a.to_string(), "b": b.to_string()}));
            }
        }
        Err(p) => ctx.violation(&format!("min_fee/{}", p.sig()), json!({"tx": hx(&bytes)})),
    }
    // script fee: units re-read from the emitted witness set (key 5), map or array form
    let mut sum_mem: u128 = 0;
    let mut sum_steps: u128 = 0;
    if let Some(wsi) = parsed.as_arr().and_then(|a| a.get(1)) {
        if let Some(red) = wsi.map_get(5) {
            match &red.v {
                vkit::cbor::V::M(entries) => {
                    for (_, v) in entries {
                        if let Some(arr) = v.as_arr() {
                            if let Some(eu) = arr.get(1).and_then(|x| x.as_arr()) {
                                sum_mem += eu[0].as_u64().unwrap_or(0) as u128;
                                sum_steps += eu[1].as_u64().unwrap_or(0) as u128;
                            }
                        }
                    }
                }
                vkit::cbor::V::A(entries) => {
                    for e in entries {
                        if let Some(eu) = e.as_arr().and_then(|a| a.get(3)).and_then(|x| x.as_arr()) {
                            sum_mem += eu[0].as_u64().unwrap_or(0) as u128;
                            sum_steps += eu[1].as_u64().unwrap_or(0) as u128;
                        }
                    }
                }
                _ => {}
            }
        }
    }
    if sum_mem != tot_mem || sum_steps != tot_steps {
        ctx.violation("tx-fees/emitted-redeemer-units-differ-from-set", json!({"tx": hx(&bytes)}));
    }
    let (mn, md) = gen_price(r);
    let (sn, sd) = gen_price(r);
    let exact = (q(mn, md) * Q::from_integer(NB::from(sum_mem)) + q(sn, sd) * Q::from_integer(NB::from(sum_steps))).ceil().to_integer();
    let prices = ExUnitPrices::new(
        &UnitInterval::new(&BigNum::from(mn), &BigNum::from(md)),
        &UnitInterval::new(&BigNum::from(sn), &BigNum::from(sd)),
    );
    let detail = json!({"tx": hx(&bytes), "mem_price": format!("{}/{}", mn, md), "step_price": format!("{}/{}", sn, sd), "want": exact.to_string()});
    match guard(|| min_script_fee(&tx, &prices)) {
        Ok(Ok(v)) => {
            ctx.bucket("scriptfee.ok");
            if exact.to_u64().is_none() {
                ctx.violation("min_script_fee/overflow-not-reported", detail);
            } else if NB::from(u64::from(v)) != exact {
                ctx.violation("min_script_fee/wrong", detail);
            }
        }
        Ok(Err(_)) => {
            if exact.to_u64().is_some() {
                ctx.violation("min_script_fee/spurious-error", detail);
            }
        }
        Err(p) => ctx.violation(&format!("min_script_fee/{}", p.sig()), detail),
    }
    let _ = One::is_one(&NB::one());
}
