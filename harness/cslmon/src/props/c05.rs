//! C05 — built transactions conserve value exactly (ledger preservation-of-value on emitted bytes).
use super::bld::*;
use crate::fw::*;
use crate::scen::Focus;
use vkit::rng::Rng;

pub fn def() -> PropDef {
    PropDef {
        id: "C05",
        rule: "cases are seed-derived builder histories (scenario engine: parameters, key ring, UTxO table, operation list over the public TransactionBuilder API, balancing call, build_tx); judged: every history in which balancing and build_tx reported success; non-trivial = a transaction was built; distinct by hash of the built transaction bytes",
        assumptions: ASSUMPTIONS,
        streams,
        floors: &[("outcome.built", 3_000), ("c05.balanced", 3_000), ("change.single-ada", 200), ("change.none", 20), ("feature.mint", 100), ("feature.burn", 30), ("feature.withdrawals", 100), ("feature.donation", 50), ("fee.set_fee", 20), ("fee.set_min_fee", 50)],
        init: Some(binit),
    }
}

pub const ASSUMPTIONS: &[&str] = &[
    "one owner, one value, one datum, one script_ref per outpoint for the whole scenario",
    "a script hash is supplied in exactly one manner per scenario (inline or one declared reference input)",
    "sizes / languages declared for reference scripts are consistent with the scenario's UTxO table",
    "no zero quantities or empty policy bundles in UTxOs or requested outputs",
    "certificate kinds 5 and 6 are not generated for builder scenarios",
    "the ledger rules are the harness's transcription (spec/ledger_rules.md)",
];

pub fn binit(ctx: &mut Ctx) {
    init(ctx);
    set_ring_static(ring(ctx));
}

fn streams() -> Vec<Stream> {
    vec![
        Stream { name: "scenarios", count: (40_000, 1_500_000), exhaustive: false, run: |c, r, _| scenario(c, r, Focus::default(), c05_monitor) },
        Stream { name: "scenarios-tuned-change", count: (24_000, 800_000), exhaustive: false, run: |c, r, _| scenario_tuned(c, r, Focus { coin_select: 3, ..Focus::default() }, c05_monitor) },
        Stream { name: "scenarios-assets", count: (15_000, 500_000), exhaustive: false, run: assets },
        Stream { name: "scenarios-deposits", count: (15_000, 500_000), exhaustive: false, run: deposits },
    ]
}

fn assets(c: &mut Ctx, r: &mut Rng, _i: u64) {
    let f = Focus { assets: 12, many_assets: 8, small_limits: 8, mint: 8, plutus: 1, ..Focus::default() };
    scenario(c, r, f, c05_monitor)
}
fn deposits(c: &mut Ctx, r: &mut Rng, _i: u64) {
    let f = Focus { certs: 14, withdrawals: 10, proposals: 8, plutus: 1, ..Focus::default() };
    scenario(c, r, f, c05_monitor)
}
