//! C20 — deposit and refund helpers agree with the ledger and with the builder.
//!
//! Oracle: a third certificate-to-amount table written from spec/ledger_rules.md section 1, applied
//! to the *emitted* transaction-body bytes as re-read by vkit::cbor (body key 4 certificates, key 5
//! withdrawals, key 20 proposals), on u128 arithmetic; cross-checked against the generator's own
//! description of the case. No library deposit / refund code is used to compute expected values.
//!
//! Observed: `get_deposit(body, pool_dep, key_dep)`, `get_implicit_input(body, ..)` and, for the same
//! certificates / withdrawals / proposals loaded into a `TransactionBuilder` configured with the same
//! deposit parameters, `TransactionBuilder::get_deposit / get_implicit_input` (through the
//! CertificatesBuilder / WithdrawalsBuilder / VotingProposalBuilder and through the deprecated
//! `set_certs` / `set_withdrawals`).
//!
//! Cause classes in signatures are computed from observations: for every item class present in the
//! refuting body (certificate wire kind, withdrawal, voting proposal) the same function is run on a
//! body holding only the first item of that class and compared with the table.

use crate::fw::*;
use cardano_serialization_lib as csl;
use csl::*;
use serde_json::json;
use vkit::cbor;
use vkit::rng::{Rng, LATTICE};

const N_CERT_KINDS: u64 = 19;
/// item classes: 0..=18 certificate wire tags, 19 withdrawal, 20 voting proposal
const CL_WD: u8 = 19;
const CL_PROP: u8 = 20;
const N_CLASSES: u64 = 21;
const MAX64: u128 = u64::MAX as u128;

const PARAMS_SINGLE: [(u64, u64); 6] = [
    (500_000_000, 2_000_000),
    (0, 0),
    (u64::MAX, u64::MAX),
    (1, 1u64 << 63),
    (0x1_0000_0000, 0xffff_ffff),
    (2_000_000, 500_000_000),
];
const PARAMS_PAIR: [(u64, u64); 4] = [(500_000_000, 2_000_000), (u64::MAX, 1u64 << 63), (1u64 << 63, u64::MAX), (0, 1)];
const AMOUNT_PAIRS: [(u64, u64); 6] = [
    (1_000_000, 2_000_000),
    (u64::MAX, 1),
    (u64::MAX - 1, 1),
    (1u64 << 63, 1u64 << 63),
    ((1u64 << 63) - 1, 1u64 << 63),
    (0, 0),
];

pub fn def() -> PropDef {
    PropDef {
        id: "C20",
        rule: "a case is (pool_deposit, key_deposit, certificate sequence of length 0..=8 over the 19 certificate wire kinds built through the public constructors with key or script credentials and explicit or parameter-based amounts, 0..=4 withdrawals, 0..=3 voting proposals over the 7 governance actions); streams: every kind alone x credential kind x amount lattice x 6 parameter pairs (exhaustive), every ordered pair of kinds x 6 amount pairs x 4 parameter pairs (exhaustive), seeded random sequences, and sequences whose deposit or implicit-input total is steered to within 3 units of 2^64-1 on either side; non-trivial = the emitted body carries at least one certificate, withdrawal or proposal; distinct by hash of (emitted body bytes, pool_deposit, key_deposit)",
        assumptions: &[
            "the ledger table is spec/ledger_rules.md section 1: stated coins are taken as stated, pool registrations count as first registrations, pool retirement pays nothing inside the transaction",
            "expected totals are computed from the emitted body bytes re-read with vkit::cbor and cross-checked against the generator's description; cases where the two disagree are reported under their own signature and judged by the emitted bytes",
            "exact duplicates of a certificate / proposal and repeated reward addresses collapse in the library's set types; the oracle follows what was emitted",
            "script-credential items are loaded into the builder with a trivial native-script or Plutus witness (witness content plays no part in the figures)",
            "an Err from a builder loader (duplicate certificate, script credential through the deprecated setters) is documented behaviour and only narrows what is compared",
        ],
        streams,
        floors: &[
            ("kind.stake-registration-legacy", 100),
            ("kind.stake-deregistration-legacy", 100),
            ("kind.stake-delegation", 100),
            ("kind.pool-registration", 100),
            ("kind.pool-retirement", 100),
            ("kind.genesis-key-delegation", 100),
            ("kind.move-instantaneous-rewards", 100),
            ("kind.stake-registration-explicit", 100),
            ("kind.stake-deregistration-explicit", 100),
            ("kind.vote-delegation", 100),
            ("kind.stake-and-vote-delegation", 100),
            ("kind.stake-registration-and-delegation", 100),
            ("kind.vote-registration-and-delegation", 100),
            ("kind.stake-vote-registration-and-delegation", 100),
            ("kind.committee-hot-auth", 100),
            ("kind.committee-cold-resign", 100),
            ("kind.drep-registration", 100),
            ("kind.drep-deregistration", 100),
            ("kind.drep-update", 100),
            ("body.with-proposals", 1000),
            ("body.with-withdrawals", 1000),
            ("deposit.ok", 1000),
            ("deposit.err-expected", 200),
            ("implicit.ok", 1000),
            ("implicit.err-expected", 200),
            ("near.deposit.below", 200),
            ("near.deposit.above", 200),
            ("near.implicit.below", 200),
            ("near.implicit.above", 200),
            ("builder.compared", 1000),
            ("legacy-setters.compared", 300),
            ("decoded-body.compared", 1000),
        ],
        init: None,
    }
}

fn streams() -> Vec<Stream> {
    let single = N_CLASSES * 2 * LATTICE.len() as u64 * PARAMS_SINGLE.len() as u64;
    let pairs = N_CLASSES * N_CLASSES * AMOUNT_PAIRS.len() as u64 * PARAMS_PAIR.len() as u64;
    vec![
        Stream { name: "single-kind", count: (single, single), exhaustive: true, run: single_kind },
        Stream { name: "kind-pairs", count: (pairs, pairs), exhaustive: true, run: kind_pairs },
        Stream { name: "random", count: (400_000, 8_000_000), exhaustive: false, run: random_case },
        Stream { name: "near-2^64", count: (200_000, 4_000_000), exhaustive: false, run: near_case },
    ]
}

// ------------------------------------------------------------------------------------------------
// case description (generator side)

#[derive(Clone, Debug, PartialEq)]
struct CertSpec {
    /// certificate wire kind 0..=18
    tag: u8,
    /// script credential (where the kind has one)
    script: bool,
    /// selects all hashes of the certificate
    id: u64,
    /// the stated coin for kinds 7, 8, 11, 12, 13, 16, 17; a distractor amount otherwise
    amt: u64,
    /// sub-variant (DRep kind, anchor, alternative constructor, MIR shape)
    var: u8,
}

#[derive(Clone, Debug, PartialEq)]
struct WdSpec {
    script: bool,
    id: u64,
    net: u8,
    amt: u64,
}

#[derive(Clone, Debug, PartialEq)]
struct PropSpec {
    /// 0 parameter change, 1 hard fork, 2 treasury withdrawals, 3 no confidence, 4 update committee,
    /// 5 new constitution, 6 info
    action: u8,
    var: u8,
    id: u64,
    deposit: u64,
    /// distractor amount (treasury withdrawal / key_deposit update)
    amt: u64,
}

#[derive(Clone, Debug)]
struct Case {
    pool_dep: u64,
    key_dep: u64,
    certs: Vec<CertSpec>,
    wds: Vec<WdSpec>,
    props: Vec<PropSpec>,
}

fn kind_name(class: u8) -> &'static str {
    match class {
        0 => "stake-registration-legacy",
        1 => "stake-deregistration-legacy",
        2 => "stake-delegation",
        3 => "pool-registration",
        4 => "pool-retirement",
        5 => "genesis-key-delegation",
        6 => "move-instantaneous-rewards",
        7 => "stake-registration-explicit",
        8 => "stake-deregistration-explicit",
        9 => "vote-delegation",
        10 => "stake-and-vote-delegation",
        11 => "stake-registration-and-delegation",
        12 => "vote-registration-and-delegation",
        13 => "stake-vote-registration-and-delegation",
        14 => "committee-hot-auth",
        15 => "committee-cold-resign",
        16 => "drep-registration",
        17 => "drep-deregistration",
        18 => "drep-update",
        19 => "withdrawal",
        20 => "voting-proposal",
        _ => "unknown-kind",
    }
}

// ------------------------------------------------------------------------------------------------
// the ledger table (spec/ledger_rules.md section 1) — third implementation

/// (deposit, refund) the ledger charges / pays inside the transaction for one certificate
fn ledger_cert(tag: u64, stated: Option<u64>, pool_dep: u64, key_dep: u64) -> Option<(u128, u128)> {
    Some(match tag {
        0 => (key_dep as u128, 0),
        1 => (0, key_dep as u128),
        3 => (pool_dep as u128, 0),
        7 | 11 | 12 | 13 | 16 => (stated? as u128, 0),
        8 | 17 => (0, stated? as u128),
        // delegations, pool retirement (refund is paid at the retirement epoch, not in the tx),
        // genesis delegation, MIR, committee certificates, DRep update
        2 | 4 | 5 | 6 | 9 | 10 | 14 | 15 | 18 => (0, 0),
        _ => return None,
    })
}

/// (array length, position of the stated coin) per certificate wire kind (Conway CDDL)
fn cert_shape(tag: u64) -> Option<(usize, Option<usize>)> {
    Some(match tag {
        0 | 1 => (2, None),
        2 | 4 => (3, None),
        3 => (10, None),
        5 => (4, None),
        6 => (2, None),
        7 | 8 => (3, Some(2)),
        9 => (3, None),
        10 => (4, None),
        11 | 12 => (4, Some(3)),
        13 => (5, Some(4)),
        14 | 15 | 18 => (3, None),
        16 => (4, Some(2)),
        17 => (3, Some(2)),
        _ => return None,
    })
}

fn has_stated(tag: u8) -> bool {
    matches!(tag, 7 | 8 | 11 | 12 | 13 | 16 | 17)
}

#[derive(Clone, Debug, Default, PartialEq)]
struct ReadBack {
    /// (wire tag, stated coin) in emitted order
    certs: Vec<(u64, Option<u64>)>,
    /// (reward account bytes, coin)
    wds: Vec<(Vec<u8>, u64)>,
    /// proposal deposits in emitted order
    props: Vec<u64>,
}

fn read_body(bytes: &[u8]) -> Result<ReadBack, String> {
    let it = cbor::parse(bytes).map_err(|e| format!("cbor: {:?}", e))?;
    if it.as_map().is_none() {
        return Err("body is not a map".into());
    }
    let mut rb = ReadBack::default();
    if let Some(c) = it.map_get(4) {
        let arr = c.untag(258).as_arr().ok_or("key 4 is not an array")?;
        for cert in arr {
            let f = cert.as_arr().ok_or("certificate is not an array")?;
            let tag = f.first().and_then(|x| x.as_u64()).ok_or("certificate without tag")?;
            let (len, pos) = cert_shape(tag).ok_or_else(|| format!("unknown certificate tag {}", tag))?;
            if f.len() != len {
                return Err(format!("certificate tag {} has {} fields", tag, f.len()));
            }
            let stated = match pos {
                Some(p) => Some(f.get(p).and_then(|x| x.as_u64()).ok_or("stated coin is not a uint")?),
                None => None,
            };
            rb.certs.push((tag, stated));
        }
    }
    if let Some(w) = it.map_get(5) {
        let m = w.as_map().ok_or("key 5 is not a map")?;
        for (k, v) in m {
            let addr = k.as_bytes().ok_or("withdrawal key is not bytes")?;
            let amt = v.as_u64().ok_or("withdrawal amount is not a uint")?;
            rb.wds.push((addr.to_vec(), amt));
        }
    }
    if let Some(p) = it.map_get(20) {
        let arr = p.untag(258).as_arr().ok_or("key 20 is not an array")?;
        for prop in arr {
            let f = prop.as_arr().ok_or("proposal is not an array")?;
            if f.len() != 4 {
                return Err(format!("proposal has {} fields", f.len()));
            }
            rb.props.push(f[0].as_u64().ok_or("proposal deposit is not a uint")?);
        }
    }
    Ok(rb)
}

#[derive(Clone, Copy, Debug, Default, PartialEq)]
struct Totals {
    dep_certs: u128,
    dep_props: u128,
    refunds: u128,
    wd: u128,
}

impl Totals {
    fn deposit(&self) -> u128 {
        self.dep_certs.saturating_add(self.dep_props)
    }
    fn implicit(&self) -> u128 {
        self.refunds.saturating_add(self.wd)
    }
}

fn totals_of(rb: &ReadBack, pool_dep: u64, key_dep: u64) -> Option<Totals> {
    let mut t = Totals::default();
    for (tag, stated) in &rb.certs {
        let (d, r) = ledger_cert(*tag, *stated, pool_dep, key_dep)?;
        t.dep_certs = t.dep_certs.saturating_add(d);
        t.refunds = t.refunds.saturating_add(r);
    }
    for (_, a) in &rb.wds {
        t.wd = t.wd.saturating_add(*a as u128);
    }
    for d in &rb.props {
        t.dep_props = t.dep_props.saturating_add(*d as u128);
    }
    Some(t)
}

/// the description reduced to the fields that reach the built certificate (see build_cert)
fn norm_cert(s: &CertSpec) -> CertSpec {
    let drep_bits = ((s.var >> 1) % 4) << 1;
    let (script, id, amt, var) = match s.tag {
        0 | 1 | 2 => (s.script, s.id, 0, 0),
        3 => (s.script, s.id, s.amt, s.var & 0x83),
        4 => (false, s.id, s.amt & 0xffff_ffff, 0),
        5 => (false, s.id, 0, 0),
        6 if s.var % 3 < 2 => (false, 0, s.amt, s.var % 3),
        6 => (s.script, s.id, s.amt, 2),
        7 | 8 | 11 | 17 => (s.script, s.id, s.amt, 0),
        9 | 10 => (s.script, s.id, 0, drep_bits),
        12 | 13 => (s.script, s.id, s.amt, drep_bits),
        14 => (s.script, s.id, 0, s.var & 2),
        15 | 18 => (s.script, s.id, 0, s.var & 1),
        16 => (s.script, s.id, s.amt, s.var & 1),
        _ => (s.script, s.id, s.amt, s.var),
    };
    CertSpec { tag: s.tag, script, id, amt, var }
}

/// do two descriptions build the same certificate?
fn same_cert(a: &CertSpec, b: &CertSpec) -> bool {
    norm_cert(a) == norm_cert(b)
}

/// what the generator expects the body to contain, after the collapsing the set types perform
fn intent_readback(case: &Case) -> ReadBack {
    let mut rb = ReadBack::default();
    let mut seen: Vec<&CertSpec> = vec![];
    for c in &case.certs {
        if seen.iter().any(|s| same_cert(s, c)) {
            continue;
        }
        seen.push(c);
        rb.certs.push((c.tag as u64, if has_stated(c.tag) { Some(c.amt) } else { None }));
    }
    for w in &case.wds {
        let addr = reward_addr_bytes(w.script, w.id, w.net);
        if let Some(e) = rb.wds.iter_mut().find(|(a, _)| *a == addr) {
            e.1 = w.amt;
        } else {
            rb.wds.push((addr, w.amt));
        }
    }
    let mut seenp: Vec<&PropSpec> = vec![];
    for p in &case.props {
        if seenp.iter().any(|s| **s == *p) {
            continue;
        }
        seenp.push(p);
        rb.props.push(p.deposit);
    }
    rb
}

fn same_contents(a: &ReadBack, b: &ReadBack) -> bool {
    let norm = |r: &ReadBack| {
        let mut c = r.certs.clone();
        c.sort();
        let mut w = r.wds.clone();
        w.sort();
        let mut p = r.props.clone();
        p.sort();
        (c, w, p)
    };
    norm(a) == norm(b)
}

// ------------------------------------------------------------------------------------------------
// building library objects from the description

fn hbytes(id: u64, salt: u8, n: usize) -> Vec<u8> {
    let mut r = Rng::new(id ^ ((salt as u64).wrapping_add(1)).wrapping_mul(0x9e37_79b9_7f4a_7c15));
    r.bytes(n)
}

fn reward_addr_bytes(script: bool, id: u64, net: u8) -> Vec<u8> {
    let mut v = vec![(if script { 0xf0 } else { 0xe0 }) | (net & 0x0f)];
    v.extend_from_slice(&hbytes(id, 0, 28));
    v
}

fn keyhash(id: u64, salt: u8) -> Ed25519KeyHash {
    Ed25519KeyHash::from_bytes(hbytes(id, salt, 28)).unwrap()
}
fn scripthash(id: u64, salt: u8) -> ScriptHash {
    ScriptHash::from_bytes(hbytes(id, salt, 28)).unwrap()
}
fn cred(script: bool, id: u64, salt: u8) -> Credential {
    if script {
        Credential::from_scripthash(&scripthash(id, salt))
    } else {
        Credential::from_keyhash(&keyhash(id, salt))
    }
}
fn drep(var: u8, id: u64) -> DRep {
    match (var >> 1) % 4 {
        0 => DRep::new_key_hash(&keyhash(id, 2)),
        1 => DRep::new_script_hash(&scripthash(id, 2)),
        2 => DRep::new_always_abstain(),
        _ => DRep::new_always_no_confidence(),
    }
}
fn anchor(id: u64) -> Anchor {
    let url = URL::new(format!("https://example.org/{}", id % 10_000)).unwrap();
    Anchor::new(&url, &AnchorDataHash::from_bytes(hbytes(id, 3, 32)).unwrap())
}
fn coin(x: u64) -> BigNum {
    BigNum::from(x)
}

fn build_cert(s: &CertSpec) -> Certificate {
    let c = cred(s.script, s.id, 0);
    let pool = keyhash(s.id, 1);
    let with_anchor = s.var & 1 == 1;
    match s.tag {
        0 => Certificate::new_stake_registration(&StakeRegistration::new(&c)),
        1 => Certificate::new_stake_deregistration(&StakeDeregistration::new(&c)),
        2 => Certificate::new_stake_delegation(&StakeDelegation::new(&c, &pool)),
        3 => {
            let mut owners = Ed25519KeyHashes::new();
            owners.add(&keyhash(s.id, 4));
            let mut relays = Relays::new();
            if s.var & 2 == 2 {
                if let Ok(d) = DNSRecordAorAAAA::new("relay.example.org".to_string()) {
                    relays.add(&Relay::new_single_host_name(&SingleHostName::new(Some(3001), &d)));
                }
            }
            let md = if with_anchor {
                URL::new("https://pool.example.org/m.json".to_string())
                    .ok()
                    .map(|u| PoolMetadata::new(&u, &PoolMetadataHash::from_bytes(hbytes(s.id, 5, 32)).unwrap()))
            } else {
                None
            };
            let params = PoolParams::new(
                &pool,
                &VRFKeyHash::from_bytes(hbytes(s.id, 6, 32)).unwrap(),
                &coin(s.amt),
                &coin(s.amt >> 3),
                &UnitInterval::new(&coin(1), &coin(100)),
                &RewardAddress::new(s.var >> 7, &c),
                &owners,
                &relays,
                md,
            );
            Certificate::new_pool_registration(&PoolRegistration::new(&params))
        }
        4 => Certificate::new_pool_retirement(&PoolRetirement::new(&pool, (s.amt & 0xffff_ffff) as u32)),
        5 => Certificate::new_genesis_key_delegation(&GenesisKeyDelegation::new(
            &GenesisHash::from_bytes(hbytes(s.id, 0, 28)).unwrap(),
            &GenesisDelegateHash::from_bytes(hbytes(s.id, 1, 28)).unwrap(),
            &VRFKeyHash::from_bytes(hbytes(s.id, 6, 32)).unwrap(),
        )),
        6 => {
            let mir = match s.var % 3 {
                0 => MoveInstantaneousReward::new_to_other_pot(MIRPot::Reserves, &coin(s.amt)),
                1 => MoveInstantaneousReward::new_to_other_pot(MIRPot::Treasury, &coin(s.amt)),
                _ => {
                    let mut m = MIRToStakeCredentials::new();
                    m.insert(&c, &Int::new(&coin(s.amt)));
                    MoveInstantaneousReward::new_to_stake_creds(MIRPot::Reserves, &m)
                }
            };
            Certificate::new_move_instantaneous_rewards_cert(&MoveInstantaneousRewardsCert::new(&mir))
        }
        7 => {
            let r = StakeRegistration::new_with_explicit_deposit(&c, &coin(s.amt));
            if with_anchor {
                Certificate::new_reg_cert(&r).unwrap_or_else(|_| Certificate::new_stake_registration(&r))
            } else {
                Certificate::new_stake_registration(&r)
            }
        }
        8 => {
            let r = StakeDeregistration::new_with_explicit_refund(&c, &coin(s.amt));
            if with_anchor {
                Certificate::new_unreg_cert(&r).unwrap_or_else(|_| Certificate::new_stake_deregistration(&r))
            } else {
                Certificate::new_stake_deregistration(&r)
            }
        }
        9 => Certificate::new_vote_delegation(&VoteDelegation::new(&c, &drep(s.var, s.id))),
        10 => Certificate::new_stake_and_vote_delegation(&StakeAndVoteDelegation::new(&c, &pool, &drep(s.var, s.id))),
        11 => Certificate::new_stake_registration_and_delegation(&StakeRegistrationAndDelegation::new(&c, &pool, &coin(s.amt))),
        12 => Certificate::new_vote_registration_and_delegation(&VoteRegistrationAndDelegation::new(
            &c,
            &drep(s.var, s.id),
            &coin(s.amt),
        )),
        13 => Certificate::new_stake_vote_registration_and_delegation(&StakeVoteRegistrationAndDelegation::new(
            &c,
            &pool,
            &drep(s.var, s.id),
            &coin(s.amt),
        )),
        14 => Certificate::new_committee_hot_auth(&CommitteeHotAuth::new(&c, &cred(s.var & 2 == 2, s.id, 7))),
        15 => Certificate::new_committee_cold_resign(&if with_anchor {
            CommitteeColdResign::new_with_anchor(&c, &anchor(s.id))
        } else {
            CommitteeColdResign::new(&c)
        }),
        16 => Certificate::new_drep_registration(&if with_anchor {
            DRepRegistration::new_with_anchor(&c, &coin(s.amt), &anchor(s.id))
        } else {
            DRepRegistration::new(&c, &coin(s.amt))
        }),
        17 => Certificate::new_drep_deregistration(&DRepDeregistration::new(&c, &coin(s.amt))),
        _ => Certificate::new_drep_update(&if with_anchor { DRepUpdate::new_with_anchor(&c, &anchor(s.id)) } else { DRepUpdate::new(&c) }),
    }
}

fn prop_has_policy(p: &PropSpec) -> bool {
    (p.action == 0 || p.action == 2) && p.var & 4 == 4
}

fn build_prop(p: &PropSpec) -> VotingProposal {
    let action = match p.action {
        0 => {
            let mut ppu = ProtocolParamUpdate::new();
            if p.var & 1 == 1 {
                ppu.set_key_deposit(&coin(p.amt));
            }
            if p.var & 2 == 2 {
                ppu.set_pool_deposit(&coin(p.amt));
            }
            let a = if prop_has_policy(p) {
                ParameterChangeAction::new_with_policy_hash(&ppu, &scripthash(p.id, 8))
            } else {
                ParameterChangeAction::new(&ppu)
            };
            GovernanceAction::new_parameter_change_action(&a)
        }
        1 => GovernanceAction::new_hard_fork_initiation_action(&HardForkInitiationAction::new(&ProtocolVersion::new(10 + (p.var as u32 & 3), 0))),
        2 => {
            let mut w = TreasuryWithdrawals::new();
            w.insert(&RewardAddress::new(p.var & 1, &cred(p.var & 2 == 2, p.id, 9)), &coin(p.amt));
            let a = if prop_has_policy(p) {
                TreasuryWithdrawalsAction::new_with_policy_hash(&w, &scripthash(p.id, 8))
            } else {
                TreasuryWithdrawalsAction::new(&w)
            };
            GovernanceAction::new_treasury_withdrawals_action(&a)
        }
        3 => GovernanceAction::new_no_confidence_action(&NoConfidenceAction::new()),
        4 => {
            let mut committee = Committee::new(&UnitInterval::new(&coin(2), &coin(3)));
            committee.add_member(&cred(p.var & 1 == 1, p.id, 10), 500);
            let mut remove = Credentials::new();
            if p.var & 2 == 2 {
                remove.add(&cred(false, p.id, 11));
            }
            GovernanceAction::new_new_committee_action(&UpdateCommitteeAction::new(&committee, &remove))
        }
        5 => GovernanceAction::new_new_constitution_action(&NewConstitutionAction::new(&Constitution::new(&anchor(p.id ^ 1)))),
        _ => GovernanceAction::new_info_action(&InfoAction::new()),
    };
    VotingProposal::new(&action, &anchor(p.id), &RewardAddress::new(p.var >> 7, &cred(p.var & 8 == 8, p.id, 12)), &coin(p.deposit))
}

struct Built {
    certs: Vec<Certificate>,
    wds: Vec<(RewardAddress, BigNum)>,
    props: Vec<VotingProposal>,
    cert_set: Certificates,
    wd_map: Withdrawals,
    body: TransactionBody,
    bytes: Vec<u8>,
}

/// all library calls; run inside guard
fn build(case: &Case) -> Built {
    let certs: Vec<Certificate> = case.certs.iter().map(build_cert).collect();
    let wds: Vec<(RewardAddress, BigNum)> =
        case.wds.iter().map(|w| (RewardAddress::new(w.net, &cred(w.script, w.id, 0)), coin(w.amt))).collect();
    let props: Vec<VotingProposal> = case.props.iter().map(build_prop).collect();
    let mut ins = TransactionInputs::new();
    ins.add(&TransactionInput::new(&TransactionHash::from_bytes(vec![0x11; 32]).unwrap(), 0));
    let outs = TransactionOutputs::new();
    let mut body = TransactionBody::new_tx_body(&ins, &outs, &coin(170_000));
    let mut cert_set = Certificates::new();
    for c in &certs {
        cert_set.add(c);
    }
    let mut wd_map = Withdrawals::new();
    for (a, c) in &wds {
        wd_map.insert(a, c);
    }
    let mut prop_set = VotingProposals::new();
    for p in &props {
        prop_set.add(p);
    }
    // an absent field and an empty collection are both exercised
    let set_empty = case.pool_dep & 1 == 1;
    if !certs.is_empty() || set_empty {
        body.set_certs(&cert_set);
    }
    if !wds.is_empty() || set_empty {
        body.set_withdrawals(&wd_map);
    }
    if !props.is_empty() || set_empty {
        body.set_voting_proposals(&prop_set);
    }
    let bytes = body.to_bytes();
    let _ = &prop_set;
    Built { certs, wds, props, cert_set, wd_map, body, bytes }
}

// ------------------------------------------------------------------------------------------------
// observations

#[derive(Clone, Debug)]
enum Fig {
    Val(u64),
    /// an implicit-input Value that carries assets
    Assets(u64),
    Err(String),
    Panic(String, String),
}

impl Fig {
    fn same(&self, o: &Fig) -> bool {
        match (self, o) {
            (Fig::Val(a), Fig::Val(b)) => a == b,
            (Fig::Assets(a), Fig::Assets(b)) => a == b,
            (Fig::Err(_), Fig::Err(_)) => true,
            _ => false,
        }
    }
    fn is_panic(&self) -> bool {
        matches!(self, Fig::Panic(_, _))
    }
    fn show(&self) -> String {
        match self {
            Fig::Val(v) => format!("Ok({})", v),
            Fig::Assets(v) => format!("Ok(coin {} with assets)", v),
            Fig::Err(e) => format!("Err({})", e),
            Fig::Panic(s, m) => format!("panic {} {}", s, m),
        }
    }
}

fn fig_coin(r: Result<Result<BigNum, JsError>, PanicRec>) -> Fig {
    match r {
        Ok(Ok(v)) => Fig::Val(v.into()),
        Ok(Err(e)) => Fig::Err(e.to_string()),
        Err(p) => Fig::Panic(p.sig(), p.msg),
    }
}

fn fig_value(r: Result<Result<Value, JsError>, PanicRec>) -> Fig {
    match r {
        Ok(Ok(v)) => {
            let c: u64 = v.coin().into();
            let assets = guard(|| v.multiasset().map(|m| m.len() > 0).unwrap_or(false)).unwrap_or(true);
            if assets {
                Fig::Assets(c)
            } else {
                Fig::Val(c)
            }
        }
        Ok(Err(e)) => Fig::Err(e.to_string()),
        Err(p) => Fig::Panic(p.sig(), p.msg),
    }
}

fn helper_figs(b: &Built, case: &Case) -> (Fig, Fig) {
    let (pd, kd) = (coin(case.pool_dep), coin(case.key_dep));
    let dep = fig_coin(guard(|| get_deposit(&b.body, &pd, &kd)));
    let imp = fig_value(guard(|| get_implicit_input(&b.body, &pd, &kd)));
    (dep, imp)
}

fn trivial_native() -> NativeScriptSource {
    NativeScriptSource::new(&NativeScript::new_timelock_start(&TimelockStart::new_timelockstart(&coin(1))))
}

fn trivial_plutus(tag: &RedeemerTag) -> PlutusWitness {
    let red = Redeemer::new(tag, &coin(0), &PlutusData::new_bytes(vec![]), &ExUnits::new(&coin(0), &coin(0)));
    PlutusWitness::new_without_datum(&PlutusScript::new_v2(vec![0x4e, 0x4d, 0x01, 0x00, 0x00]), &red)
}

fn new_builder(case: &Case) -> Result<TransactionBuilder, String> {
    let cfg = TransactionBuilderConfigBuilder::new()
        .fee_algo(&LinearFee::new(&coin(44), &coin(155_381)))
        .pool_deposit(&coin(case.pool_dep))
        .key_deposit(&coin(case.key_dep))
        .max_value_size(5000)
        .max_tx_size(16384)
        .coins_per_utxo_byte(&coin(4310))
        .build()
        .map_err(|e| e.to_string())?;
    Ok(TransactionBuilder::new(&cfg))
}

#[derive(Default)]
struct LoadNotes {
    dup_cert_refused: u64,
}

/// load through the three sub-builders; Err(reason) = an explicit refusal by a loader. Run inside guard.
fn load_builder(b: &Built, case: &Case, notes: &mut LoadNotes) -> Result<TransactionBuilder, String> {
    let mut tb = new_builder(case)?;
    let set_empty = case.key_dep & 1 == 1;
    let mut cb = CertificatesBuilder::new();
    for (i, c) in b.certs.iter().enumerate() {
        let spec = &case.certs[i];
        let r = if c.has_required_script_witness() {
            if spec.var & 0x30 == 0x30 {
                cb.add_with_plutus_witness(c, &trivial_plutus(&RedeemerTag::new_cert()))
            } else {
                cb.add_with_native_script(c, &trivial_native())
            }
        } else {
            cb.add(c)
        };
        if let Err(e) = r {
            if case.certs[..i].iter().any(|s| same_cert(s, spec)) {
                notes.dup_cert_refused += 1;
            } else {
                return Err(format!("CertificatesBuilder: {}", e));
            }
        }
    }
    if !b.certs.is_empty() || set_empty {
        tb.set_certs_builder(&cb);
    }
    let mut wb = WithdrawalsBuilder::new();
    for (i, (a, c)) in b.wds.iter().enumerate() {
        let r = if case.wds[i].script {
            if case.wds[i].net & 1 == 1 && case.wds[i].amt & 1 == 1 {
                wb.add_with_plutus_witness(a, c, &trivial_plutus(&RedeemerTag::new_reward()))
            } else {
                wb.add_with_native_script(a, c, &trivial_native())
            }
        } else {
            wb.add(a, c)
        };
        r.map_err(|e| format!("WithdrawalsBuilder: {}", e))?;
    }
    if !b.wds.is_empty() || set_empty {
        tb.set_withdrawals_builder(&wb);
    }
    let mut pb = VotingProposalBuilder::new();
    for (i, p) in b.props.iter().enumerate() {
        let r = if prop_has_policy(&case.props[i]) {
            pb.add_with_plutus_witness(p, &trivial_plutus(&RedeemerTag::new_voting_proposal()))
        } else {
            pb.add(p)
        };
        r.map_err(|e| format!("VotingProposalBuilder: {}", e))?;
    }
    if !b.props.is_empty() || set_empty {
        tb.set_voting_proposal_builder(&pb);
    }
    Ok(tb)
}

/// load certificates and withdrawals through the deprecated setters. Run inside guard.
#[allow(deprecated)]
fn load_legacy(b: &Built, case: &Case) -> Result<TransactionBuilder, String> {
    let mut tb = new_builder(case)?;
    tb.set_certs(&b.cert_set).map_err(|e| format!("set_certs: {}", e))?;
    tb.set_withdrawals(&b.wd_map).map_err(|e| format!("set_withdrawals: {}", e))?;
    let mut pb = VotingProposalBuilder::new();
    for (i, p) in b.props.iter().enumerate() {
        let r = if prop_has_policy(&case.props[i]) {
            pb.add_with_plutus_witness(p, &trivial_plutus(&RedeemerTag::new_voting_proposal()))
        } else {
            pb.add(p)
        };
        r.map_err(|e| format!("VotingProposalBuilder: {}", e))?;
    }
    tb.set_voting_proposal_builder(&pb);
    Ok(tb)
}

fn builder_figs(tb: &TransactionBuilder) -> (Fig, Fig) {
    (fig_coin(guard(|| tb.get_deposit())), fig_value(guard(|| tb.get_implicit_input())))
}

// ------------------------------------------------------------------------------------------------
// cause attribution by single-item probes

#[derive(Clone, Copy, PartialEq)]
enum Which {
    Deposit,
    Implicit,
}

impl Which {
    fn helper_name(self) -> &'static str {
        match self {
            Which::Deposit => "get_deposit",
            Which::Implicit => "get_implicit_input",
        }
    }
}

#[derive(Clone)]
struct Probe {
    class: u8,
    want: (u128, u128),
    helper: (Fig, Fig),
    builder: Option<(Fig, Fig)>,
}

fn sub_case(case: &Case, class: u8) -> Option<Case> {
    let mut c = Case { pool_dep: case.pool_dep, key_dep: case.key_dep, certs: vec![], wds: vec![], props: vec![] };
    // the item of the class with the largest amount (a zero amount cannot show a miscount)
    match class {
        CL_WD => c.wds.push(case.wds.iter().max_by_key(|w| w.amt)?.clone()),
        CL_PROP => c.props.push(case.props.iter().max_by_key(|p| p.deposit)?.clone()),
        t => c.certs.push(case.certs.iter().filter(|s| s.tag == t).max_by_key(|s| s.amt)?.clone()),
    }
    Some(c)
}

fn classes_present(case: &Case) -> Vec<u8> {
    let mut v: Vec<u8> = case.certs.iter().map(|c| c.tag).collect();
    if !case.wds.is_empty() {
        v.push(CL_WD);
    }
    if !case.props.is_empty() {
        v.push(CL_PROP);
    }
    v.sort();
    v.dedup();
    v
}

fn run_probes(case: &Case) -> Vec<Probe> {
    let mut out = vec![];
    for class in classes_present(case) {
        let sc = match sub_case(case, class) {
            Some(s) => s,
            None => continue,
        };
        let t = match totals_of(&intent_readback(&sc), sc.pool_dep, sc.key_dep) {
            Some(t) => t,
            None => continue,
        };
        let built = match guard(|| build(&sc)) {
            Ok(b) => b,
            Err(_) => continue,
        };
        let helper = helper_figs(&built, &sc);
        let mut notes = LoadNotes::default();
        let builder = match guard(|| load_builder(&built, &sc, &mut notes)) {
            Ok(Ok(tb)) => Some(builder_figs(&tb)),
            _ => None,
        };
        out.push(Probe { class, want: (t.deposit(), t.implicit()), helper, builder });
    }
    out
}

fn pick(which: Which, f: &(Fig, Fig)) -> &Fig {
    match which {
        Which::Deposit => &f.0,
        Which::Implicit => &f.1,
    }
}

fn pick_want(which: Which, w: &(u128, u128)) -> u128 {
    match which {
        Which::Deposit => w.0,
        Which::Implicit => w.1,
    }
}

fn direction(which: Which, class: u8, got: &Fig, want: u128) -> Option<String> {
    let noun = match (which, class) {
        (Which::Deposit, _) => "deposit",
        (Which::Implicit, CL_WD) => "amount",
        (Which::Implicit, _) => "refund",
    };
    let k = kind_name(class);
    match got {
        Fig::Val(v) if *v as u128 == want => None,
        Fig::Val(v) if want == 0 && *v > 0 => Some(format!("{}-counted-as-{}", k, noun)),
        Fig::Val(v) if want > 0 && *v == 0 => Some(format!("{}-{}-omitted", k, noun)),
        Fig::Val(_) => Some(format!("{}-{}-wrong-amount", k, noun)),
        Fig::Assets(_) => Some(format!("{}-carries-assets", k)),
        Fig::Err(_) => Some(format!("{}-error-on-single-item", k)),
        Fig::Panic(_, _) => Some(format!("{}-panic-on-single-item", k)),
    }
}

/// cause classes for "helper figure differs from the ledger table"
fn causes_vs_ledger(probes: &[Probe], which: Which) -> Vec<String> {
    let mut v: Vec<String> =
        probes.iter().filter_map(|p| direction(which, p.class, pick(which, &p.helper), pick_want(which, &p.want))).collect();
    if v.is_empty() {
        v.push("combination-only".into());
    }
    v
}

/// cause classes for "builder figure differs from helper figure"
fn causes_vs_builder(probes: &[Probe], which: Which) -> Vec<String> {
    let mut v = vec![];
    for p in probes {
        let b = match &p.builder {
            Some(b) => pick(which, b),
            None => continue,
        };
        let h = pick(which, &p.helper);
        if h.same(b) {
            continue;
        }
        let want = pick_want(which, &p.want);
        let h_ok = matches!(h, Fig::Val(x) if *x as u128 == want);
        let b_ok = matches!(b, Fig::Val(x) if *x as u128 == want);
        let who = match (h_ok, b_ok) {
            (false, true) => "helper-off-ledger",
            (true, false) => "builder-off-ledger",
            _ => "both-off-ledger",
        };
        v.push(format!("{}/{}", kind_name(p.class), who));
    }
    if v.is_empty() {
        v.push("combination-only".into());
    }
    v
}

// ------------------------------------------------------------------------------------------------
// the check

fn case_json(case: &Case, bytes: Option<&[u8]>) -> serde_json::Value {
    json!({
        "pool_deposit": case.pool_dep.to_string(),
        "key_deposit": case.key_dep.to_string(),
        "certs": case.certs.iter().map(|c| format!("{:?}", c)).collect::<Vec<_>>(),
        "withdrawals": case.wds.iter().map(|c| format!("{:?}", c)).collect::<Vec<_>>(),
        "proposals": case.props.iter().map(|c| format!("{:?}", c)).collect::<Vec<_>>(),
        "body": bytes.map(hx),
    })
}

fn judge_vs_ledger(ctx: &mut Ctx, case: &Case, bytes: &[u8], which: Which, got: &Fig, want: u128, probes: &mut Option<Vec<Probe>>) {
    ctx.eval();
    let name = which.helper_name();
    let short = if which == Which::Deposit { "deposit" } else { "implicit" };
    let fits = want <= MAX64;
    let clause = match got {
        Fig::Panic(sig, msg) => {
            let mut d = case_json(case, Some(bytes));
            d["msg"] = json!(msg);
            ctx.violation(&format!("{}/{}", name, sig), d);
            return;
        }
        Fig::Assets(_) => Some("carries-assets"),
        Fig::Val(v) => {
            if !fits {
                Some("overflow-not-reported")
            } else if *v as u128 != want {
                Some("differs-from-ledger")
            } else {
                ctx.bucket(&format!("{}.ok", short));
                None
            }
        }
        Fig::Err(_) => {
            if fits {
                Some("spurious-error")
            } else {
                ctx.bucket(&format!("{}.err-expected", short));
                None
            }
        }
    };
    if let Some(clause) = clause {
        if probes.is_none() {
            *probes = Some(run_probes(case));
        }
        let causes = causes_vs_ledger(probes.as_deref().unwrap_or(&[]), which);
        let mut d = case_json(case, Some(bytes));
        d["want"] = json!(want.to_string());
        d["got"] = json!(got.show());
        d["causes"] = json!(causes);
        for c in &causes {
            ctx.violation(&format!("{}/{}/{}", name, clause, c), d.clone());
        }
    }
}

fn judge_vs_helper(ctx: &mut Ctx, case: &Case, bytes: &[u8], which: Which, helper: &Fig, builder: &Fig, want: u128, probes: &mut Option<Vec<Probe>>) {
    ctx.eval();
    let name = format!("TransactionBuilder.{}", if which == Which::Deposit { "get_deposit" } else { "get_implicit_input" });
    if let Fig::Panic(sig, msg) = builder {
        let mut d = case_json(case, Some(bytes));
        d["msg"] = json!(msg);
        ctx.violation(&format!("{}/{}", name, sig), d);
        return;
    }
    if helper.is_panic() {
        return; // reported by judge_vs_ledger
    }
    if let Fig::Assets(_) = builder {
        ctx.violation(&format!("{}/carries-assets", name), case_json(case, Some(bytes)));
        return;
    }
    if helper.same(builder) {
        ctx.bucket("builder.agrees-with-helper");
        return;
    }
    if probes.is_none() {
        *probes = Some(run_probes(case));
    }
    let causes = causes_vs_builder(probes.as_deref().unwrap_or(&[]), which);
    let mut d = case_json(case, Some(bytes));
    d["ledger"] = json!(want.to_string());
    d["helper"] = json!(helper.show());
    d["builder"] = json!(builder.show());
    d["causes"] = json!(causes);
    for c in &causes {
        ctx.violation(&format!("{}/differs-from-helper/{}", name, c), d.clone());
    }
}

fn check(ctx: &mut Ctx, case: &Case, sample_key: &str) {
    // ---- build and emit
    let built = match guard(|| build(case)) {
        Ok(b) => b,
        Err(p) => {
            let mut d = case_json(case, None);
            d["msg"] = json!(p.msg);
            ctx.violation(&format!("construct-body/{}", p.sig()), d);
            return;
        }
    };
    let bytes = built.bytes.clone();
    // ---- oracle: re-read the emitted bytes
    let rb = match read_body(&bytes) {
        Ok(rb) => rb,
        Err(why) => {
            ctx.bucket("skipped.emitted-body-unreadable");
            ctx.sample("unreadable-body", || json!({"why": why, "input": case_json(case, Some(&bytes))}));
            return;
        }
    };
    let intent = intent_readback(case);
    if !same_contents(&rb, &intent) {
        let mut d = case_json(case, Some(&bytes));
        d["read_back"] = json!(format!("{:?}", rb));
        d["constructed"] = json!(format!("{:?}", intent));
        ctx.violation("harness-crosscheck/emitted-body-contents-differ-from-constructed", d);
    }
    let t = match totals_of(&rb, case.pool_dep, case.key_dep) {
        Some(t) => t,
        None => {
            ctx.bucket("skipped.table-undefined");
            return;
        }
    };
    let (want_dep, want_imp) = (t.deposit(), t.implicit());

    // ---- coverage from what was emitted
    {
        let mut tags: Vec<u64> = rb.certs.iter().map(|c| c.0).collect();
        tags.sort();
        tags.dedup();
        for tg in tags {
            ctx.bucket(&format!("kind.{}", kind_name(tg as u8)));
        }
        if !rb.certs.is_empty() {
            ctx.bucket("body.with-certs");
        }
        if !rb.props.is_empty() {
            ctx.bucket("body.with-proposals");
        }
        if !rb.wds.is_empty() {
            ctx.bucket("body.with-withdrawals");
        }
        if rb.certs.is_empty() && rb.props.is_empty() && rb.wds.is_empty() {
            ctx.bucket("body.empty");
        } else {
            let mut v = bytes.clone();
            v.extend_from_slice(&case.pool_dep.to_le_bytes());
            v.extend_from_slice(&case.key_dep.to_le_bytes());
            ctx.nontrivial_bytes("c20", &v);
        }
        if rb.certs.len() < intent_len(case) {
            ctx.bucket("body.duplicate-certificate-collapsed");
        }
        for (short, w) in [("deposit", want_dep), ("implicit", want_imp)] {
            if w <= MAX64 && w.saturating_add(8) > MAX64 {
                ctx.bucket(&format!("near.{}.below", short));
            } else if w > MAX64 && w <= MAX64.saturating_add(8) {
                ctx.bucket(&format!("near.{}.above", short));
            }
            if w > MAX64 {
                ctx.bucket(&format!("exact.{}.exceeds-64-bits", short));
            }
        }
    }

    // ---- helpers against the ledger table
    let mut probes: Option<Vec<Probe>> = None;
    let (h_dep, h_imp) = helper_figs(&built, case);
    judge_vs_ledger(ctx, case, &bytes, Which::Deposit, &h_dep, want_dep, &mut probes);
    judge_vs_ledger(ctx, case, &bytes, Which::Implicit, &h_imp, want_imp, &mut probes);

    // ---- the same body after a round trip through its bytes is also "a transaction body"
    match guard(|| TransactionBody::from_bytes(bytes.clone())) {
        Ok(Ok(body2)) => {
            let (pd, kd) = (coin(case.pool_dep), coin(case.key_dep));
            let d2 = fig_coin(guard(|| get_deposit(&body2, &pd, &kd)));
            let i2 = fig_value(guard(|| get_implicit_input(&body2, &pd, &kd)));
            ctx.bucket("decoded-body.compared");
            ctx.evals_n(2);
            for (nm, a, b) in [("get_deposit", &h_dep, &d2), ("get_implicit_input", &h_imp, &i2)] {
                if let Fig::Panic(sig, msg) = b {
                    let mut d = case_json(case, Some(&bytes));
                    d["msg"] = json!(msg);
                    ctx.violation(&format!("{}(decoded body)/{}", nm, sig), d);
                } else if !a.is_panic() && !a.same(b) {
                    let mut d = case_json(case, Some(&bytes));
                    d["on_constructed_body"] = json!(a.show());
                    d["on_decoded_body"] = json!(b.show());
                    ctx.violation(&format!("{}/decoded-body-figure-differs-from-constructed-body", nm), d);
                }
            }
        }
        Ok(Err(e)) => {
            ctx.bucket("skipped.body-from-bytes-error");
            ctx.sample("body-from-bytes-error", || json!({"err": format!("{:?}", e), "input": case_json(case, Some(&bytes))}));
        }
        Err(_) => ctx.bucket("skipped.body-from-bytes-panic"),
    }

    // ---- the builder, loaded through its sub-builders
    let mut notes = LoadNotes::default();
    let mut b_figs: Option<(Fig, Fig)> = None;
    match guard(|| load_builder(&built, case, &mut notes)) {
        Ok(Ok(tb)) => {
            ctx.bucket("builder.compared");
            if notes.dup_cert_refused > 0 {
                ctx.bucket("builder.duplicate-certificate-refused");
            }
            let (b_dep, b_imp) = builder_figs(&tb);
            judge_vs_helper(ctx, case, &bytes, Which::Deposit, &h_dep, &b_dep, want_dep, &mut probes);
            judge_vs_helper(ctx, case, &bytes, Which::Implicit, &h_imp, &b_imp, want_imp, &mut probes);
            b_figs = Some((b_dep, b_imp));
        }
        Ok(Err(why)) => {
            ctx.bucket("skipped.builder-load-refused");
            ctx.sample("builder-load-refused", || json!({"why": why, "input": case_json(case, Some(&bytes))}));
        }
        Err(p) => {
            let mut d = case_json(case, Some(&bytes));
            d["msg"] = json!(p.msg);
            ctx.violation(&format!("TransactionBuilder.load/{}", p.sig()), d);
        }
    }

    // ---- the deprecated setters must lead to the same figures
    match guard(|| load_legacy(&built, case)) {
        Ok(Ok(tb)) => {
            let (l_dep, l_imp) = builder_figs(&tb);
            if let Some((b_dep, b_imp)) = &b_figs {
                ctx.bucket("legacy-setters.compared");
                ctx.evals_n(2);
                for (nm, l, b) in [("get_deposit", &l_dep, b_dep), ("get_implicit_input", &l_imp, b_imp)] {
                    if let Fig::Panic(sig, msg) = l {
                        let mut d = case_json(case, Some(&bytes));
                        d["msg"] = json!(msg);
                        ctx.violation(&format!("TransactionBuilder(set_certs,set_withdrawals).{}/{}", nm, sig), d);
                    } else if !b.is_panic() && !l.same(b) {
                        let mut d = case_json(case, Some(&bytes));
                        d["via_deprecated_setters"] = json!(l.show());
                        d["via_sub_builders"] = json!(b.show());
                        ctx.violation(&format!("TransactionBuilder(set_certs,set_withdrawals).{}/differs-from-sub-builder-path", nm), d);
                    }
                }
            }
        }
        Ok(Err(_)) => ctx.bucket("legacy-setters.refused"),
        Err(p) => {
            let mut d = case_json(case, Some(&bytes));
            d["msg"] = json!(p.msg);
            ctx.violation(&format!("TransactionBuilder.load-deprecated/{}", p.sig()), d);
        }
    }

    ctx.sample(sample_key, || {
        json!({
            "input": case_json(case, Some(&bytes)),
            "read_back": format!("{:?}", rb),
            "ledger_deposit": want_dep.to_string(),
            "ledger_implicit_input": want_imp.to_string(),
            "get_deposit": h_dep.show(),
            "get_implicit_input": h_imp.show(),
            "builder": b_figs.as_ref().map(|(d, i)| json!([d.show(), i.show()])),
        })
    });
    if want_dep > MAX64 || want_imp > MAX64 {
        ctx.sample("err-expected", || {
            json!({
                "input": case_json(case, Some(&bytes)),
                "ledger_deposit": want_dep.to_string(),
                "ledger_implicit_input": want_imp.to_string(),
                "get_deposit": h_dep.show(),
                "get_implicit_input": h_imp.show(),
            })
        });
    }
}

fn intent_len(case: &Case) -> usize {
    case.certs.len()
}

// ------------------------------------------------------------------------------------------------
// streams

fn item_into(case: &mut Case, class: u8, script: bool, id: u64, amt: u64, var: u8) {
    match class {
        CL_WD => case.wds.push(WdSpec { script, id, net: var & 1, amt }),
        CL_PROP => case.props.push(PropSpec { action: var % 7, var: var / 7, id, deposit: amt, amt: amt ^ 0x5555 }),
        t => case.certs.push(CertSpec { tag: t, script, id, amt, var }),
    }
}

/// every kind alone: class x credential kind x amount lattice x parameter pair
fn single_kind(ctx: &mut Ctx, _r: &mut Rng, i: u64) {
    let np = PARAMS_SINGLE.len() as u64;
    let nl = LATTICE.len() as u64;
    let p = (i % np) as usize;
    let a = ((i / np) % nl) as usize;
    let script = (i / (np * nl)) % 2 == 1;
    let class = ((i / (np * nl * 2)) % N_CLASSES) as u8;
    let (pool_dep, key_dep) = PARAMS_SINGLE[p];
    let mut case = Case { pool_dep, key_dep, certs: vec![], wds: vec![], props: vec![] };
    // the amount index doubles as sub-variant selector (anchor, DRep kind, governance action, ...)
    item_into(&mut case, class, script, 1000 + i, LATTICE[a], (a as u8).wrapping_mul(37).wrapping_add(p as u8));
    ctx.bucket("stream.single-kind");
    check(ctx, &case, "single-kind");
}

/// every ordered pair of kinds x amount pair x parameter pair
fn kind_pairs(ctx: &mut Ctx, _r: &mut Rng, i: u64) {
    let np = PARAMS_PAIR.len() as u64;
    let na = AMOUNT_PAIRS.len() as u64;
    let p = (i % np) as usize;
    let a = ((i / np) % na) as usize;
    let k2 = ((i / (np * na)) % N_CLASSES) as u8;
    let k1 = ((i / (np * na * N_CLASSES)) % N_CLASSES) as u8;
    let (pool_dep, key_dep) = PARAMS_PAIR[p];
    let (a1, a2) = AMOUNT_PAIRS[a];
    let mut case = Case { pool_dep, key_dep, certs: vec![], wds: vec![], props: vec![] };
    let var = (i % 251) as u8;
    item_into(&mut case, k1, a % 3 == 1, 1, a1, var);
    item_into(&mut case, k2, a % 3 == 2, 2, a2, var.wrapping_mul(3));
    ctx.bucket("stream.kind-pairs");
    check(ctx, &case, "kind-pairs");
}

fn gen_params(r: &mut Rng) -> (u64, u64) {
    match r.below(5) {
        0 | 1 => (500_000_000, 2_000_000),
        2 => (*r.pick(&LATTICE), *r.pick(&LATTICE)),
        3 => (r.wide_u64(), r.wide_u64()),
        _ => (r.below(1 << 40), r.below(1 << 32)),
    }
}

/// mode 0: small amounts, 1: width-biased, 2: lattice
fn gen_amount(r: &mut Rng, mode: u64, key_dep: u64) -> u64 {
    match mode {
        0 => match r.below(4) {
            0 => 2_000_000,
            1 => key_dep,
            _ => r.below(1 << 40),
        },
        1 => r.wide_u64(),
        _ => *r.pick(&LATTICE),
    }
}

fn gen_cert(r: &mut Rng, tag: u8, mode: u64, key_dep: u64) -> CertSpec {
    CertSpec { tag, script: r.chance(1, 3), id: r.u64(), amt: gen_amount(r, mode, key_dep), var: r.below(256) as u8 }
}

fn gen_wd(r: &mut Rng, mode: u64, key_dep: u64) -> WdSpec {
    WdSpec { script: r.chance(1, 4), id: r.u64(), net: r.below(2) as u8, amt: gen_amount(r, mode, key_dep) }
}

fn gen_prop(r: &mut Rng, mode: u64) -> PropSpec {
    let deposit = match (mode, r.below(3)) {
        (0, 0) => 100_000_000_000,
        (0, _) => r.below(1 << 40),
        (1, _) => r.wide_u64(),
        _ => *r.pick(&LATTICE),
    };
    PropSpec { action: r.below(7) as u8, var: r.below(256) as u8, id: r.u64(), deposit, amt: r.wide_u64() }
}

fn random_case(ctx: &mut Ctx, r: &mut Rng, _i: u64) {
    let (pool_dep, key_dep) = gen_params(r);
    let mode = match r.below(10) {
        0..=3 => 0,
        4..=7 => 1,
        _ => 2,
    };
    let mut case = Case { pool_dep, key_dep, certs: vec![], wds: vec![], props: vec![] };
    let nc = r.below(9);
    for _ in 0..nc {
        if !case.certs.is_empty() && r.chance(1, 14) {
            // an exact duplicate, or the same credential under another kind
            let prev = r.pick(&case.certs).clone();
            if r.bool() {
                case.certs.push(prev);
            } else {
                let tag = r.below(N_CERT_KINDS) as u8;
                let mut c = gen_cert(r, tag, mode, key_dep);
                if c.tag != prev.tag {
                    c.id = prev.id;
                    c.script = prev.script;
                }
                case.certs.push(c);
            }
        } else {
            let m = if r.chance(1, 8) { r.below(3) } else { mode };
            let tag = r.below(N_CERT_KINDS) as u8;
            case.certs.push(gen_cert(r, tag, m, key_dep));
        }
    }
    let nw = r.below(5);
    for _ in 0..nw {
        let mut w = gen_wd(r, mode, key_dep);
        if !case.wds.is_empty() && r.chance(1, 12) {
            // same reward account again: the later amount replaces the earlier one
            let prev = r.pick(&case.wds).clone();
            w.id = prev.id;
            w.script = prev.script;
            w.net = prev.net;
        }
        case.wds.push(w);
    }
    let np = r.below(4);
    for _ in 0..np {
        if !case.props.is_empty() && r.chance(1, 12) {
            let prev = r.pick(&case.props).clone();
            case.props.push(prev);
        } else {
            case.props.push(gen_prop(r, mode));
        }
    }
    ctx.bucket("stream.random");
    check(ctx, &case, "random");
}

/// split `total` into `m` u64 amounts (None if impossible)
fn split(r: &mut Rng, total: u128, m: usize) -> Option<Vec<u64>> {
    if m == 0 || total > MAX64.saturating_mul(m as u128) {
        return None;
    }
    let mut rem = total;
    let mut out = Vec::with_capacity(m);
    for i in 0..m {
        let left = (m - 1 - i) as u128;
        if left == 0 {
            out.push(rem.min(MAX64) as u64);
            break;
        }
        let lo = rem.saturating_sub(left.saturating_mul(MAX64));
        let hi = rem.min(MAX64);
        let span = hi.saturating_sub(lo);
        let a = lo.saturating_add(match r.below(5) {
            0 => 0,
            1 => span,
            2 => (r.wide_u64() as u128).min(span),
            _ => r.range(0, span.min(MAX64) as u64) as u128,
        });
        out.push(a.min(MAX64) as u64);
        rem = rem.saturating_sub(a);
    }
    r.shuffle(&mut out);
    Some(out)
}

/// totals steered to within 3 units of 2^64-1 on either side
fn near_case(ctx: &mut Ctx, r: &mut Rng, _i: u64) {
    let on_deposit = r.bool();
    let target: u128 = (MAX64 - 3).saturating_add(r.below(7) as u128);
    // contributing slots: parameter-based kinds first
    let (param_kinds, explicit_kinds): (&[u8], &[u8]) =
        if on_deposit { (&[0, 3], &[7, 11, 12, 13, 16, CL_PROP]) } else { (&[1], &[8, 17, CL_WD]) };
    let n_param = match r.below(4) {
        0 => 1,
        1 => 2,
        _ => 0,
    };
    let mut n_explicit = 1 + r.usize(4);
    let mut key_dep = match r.below(4) {
        0 => 2_000_000,
        1 => r.below(1 << 62),
        2 => r.wide_u64() >> 2,
        _ => r.below(1 << 32),
    };
    let mut pool_dep = match r.below(4) {
        0 => 500_000_000,
        1 => r.below(1 << 62),
        2 => r.wide_u64() >> 2,
        _ => r.below(1 << 40),
    };
    if r.chance(1, 10) {
        // the parameter itself carries most of the total
        if r.bool() {
            key_dep = u64::MAX - r.below(1 << 20);
        } else {
            pool_dep = u64::MAX - r.below(1 << 20);
        }
    }
    let mut case = Case { pool_dep, key_dep, certs: vec![], wds: vec![], props: vec![] };
    let mut param_total: u128 = 0;
    for _ in 0..n_param {
        let k = *r.pick(param_kinds);
        let amt = if k == 3 { pool_dep } else { key_dep };
        if param_total.saturating_add(amt as u128) > target {
            continue;
        }
        param_total = param_total.saturating_add(amt as u128);
        let c = gen_cert(r, k, 0, key_dep);
        case.certs.push(c);
    }
    let rest = target.saturating_sub(param_total);
    if rest > MAX64.saturating_mul(n_explicit as u128) {
        n_explicit += 1;
    }
    let shares = split(r, rest, n_explicit).unwrap_or_default();
    let (mut n_props, mut n_wds) = (0, 0);
    for a in shares {
        let mut k = *r.pick(explicit_kinds);
        if k == CL_PROP && n_props >= 3 {
            k = 7;
        }
        if k == CL_WD && n_wds >= 4 {
            k = 8;
        }
        if k == CL_PROP {
            n_props += 1;
        }
        if k == CL_WD {
            n_wds += 1;
        }
        item_into(&mut case, k, r.chance(1, 4), r.u64(), a, r.below(256) as u8);
    }
    // bystanders: kinds that contribute nothing to the steered figure, with small amounts on the other
    let n_by = r.below(4);
    for _ in 0..n_by {
        if case.certs.len() >= 8 {
            break;
        }
        let k = if on_deposit {
            *r.pick(&[1u8, 2, 4, 5, 6, 8, 9, 10, 14, 15, 17, 18])
        } else {
            *r.pick(&[0u8, 2, 3, 4, 4, 5, 6, 7, 9, 10, 11, 12, 13, 14, 15, 16, 18])
        };
        let mut c = gen_cert(r, k, 0, key_dep);
        if r.chance(1, 4) {
            c.amt = r.wide_u64();
        }
        case.certs.push(c);
    }
    if on_deposit && r.chance(1, 3) && case.wds.len() < 4 {
        let w = gen_wd(r, 0, key_dep);
        case.wds.push(w);
    }
    if !on_deposit && r.chance(1, 3) && case.props.len() < 3 {
        let p = gen_prop(r, 0);
        case.props.push(p);
    }
    r.shuffle(&mut case.certs);
    ctx.bucket(if on_deposit { "stream.near.deposit" } else { "stream.near.implicit" });
    check(ctx, &case, if target > MAX64 { "near-above" } else { "near-below" });
}
