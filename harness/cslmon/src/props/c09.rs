//! C09 — script-integrity and auxiliary-data hashes match what is emitted.
use super::bld::*;
use super::c05::{binit, ASSUMPTIONS};
use crate::fw::*;
use crate::scen::Focus;
use vkit::rng::Rng;

pub fn def() -> PropDef {
    PropDef {
        id: "C09",
        rule: "cases are seed-derived builder histories (scenario engine: parameters, key ring, UTxO table, operation list over the public TransactionBuilder API, balancing call, build_tx); judged: every history in which balancing and build_tx reported success; non-trivial = a transaction was built; distinct by hash of the built transaction bytes; hashes recomputed from the emitted witness-set / auxiliary-data bytes with an own language-view encoder",
        assumptions: ASSUMPTIONS,
        streams,
        floors: &[("outcome.built", 2_000), ("c09.aux-hash-ok", 300), ("c09.script-hash-ok.redeemers+datums", 100), ("c09.script-hash-ok.redeemers-only", 100), ("c09.script-hash-ok.datums-only", 20), ("helper.hash_script_data.ok", 2_000), ("helper.hash_auxiliary_data.ok", 2_000), ("helper.hash_plutus_data.ok", 2_000)],
        init: Some(binit),
    }
}

fn streams() -> Vec<Stream> {
    vec![
        Stream { name: "scenarios-plutus", count: (40_000, 1_500_000), exhaustive: false, run: pl },
        Stream { name: "helpers", count: (40_000, 1_500_000), exhaustive: false, run: helpers },
    ]
}
fn pl(c: &mut Ctx, r: &mut Rng, _i: u64) {
    let f = Focus { plutus: 10, refs: 6, mint: 8, certs: 8, withdrawals: 8, votes: 6, proposals: 6, ..Focus::default() };
    scenario(c, r, f, c09_monitor)
}

/// the stand-alone hashing helpers on arbitrary generated redeemers / datums / cost models
fn helpers(ctx: &mut Ctx, r: &mut Rng, _i: u64) {
    use crate::gen::typed::G;
    use cardano_serialization_lib::*;
    use serde_json::json;
    use std::collections::BTreeMap;
    ctx.eval();
    let mut g = G::new(r, 3, 4);
    // plutus data
    let d = g.plutus_data();
    match guard(|| (hash_plutus_data(&d).to_bytes(), d.to_bytes())) {
        Ok((h, b)) => {
            ctx.nontrivial_bytes("pd", &b);
            if h != vkit::codec::blake2b256(&b) {
                ctx.violation("hash_plutus_data/differs-from-blake2b256-of-bytes", json!({"datum": hx(&b)}));
            } else {
                ctx.bucket("helper.hash_plutus_data.ok");
            }
        }
        Err(p) => ctx.violation(&format!("hash_plutus_data/{}", p.sig()), json!({})),
    }
    // auxiliary data
    let aux = g.auxiliary_data();
    match guard(|| (hash_auxiliary_data(&aux).to_bytes(), aux.to_bytes())) {
        Ok((h, b)) => {
            if h != vkit::codec::blake2b256(&b) {
                ctx.violation("hash_auxiliary_data/differs-from-blake2b256-of-bytes", json!({"aux": hx(&b)}));
            } else {
                ctx.bucket("helper.hash_auxiliary_data.ok");
            }
        }
        Err(p) => ctx.violation(&format!("hash_auxiliary_data/{}", p.sig()), json!({})),
    }
    // script data: redeemers (possibly empty), datums (optional), cost models
    let with_red = g.r.below(8) != 0;
    let with_dat = g.r.bool();
    // no redeemers: a fresh collection, or an empty one read from either wire spelling (the legacy array
    // `80`, the Conway map `a0`) - the ledger's definition does not depend on where the emptiness came from
    let reds = if with_red {
        g.redeemers(false)
    } else {
        match g.r.below(3) {
            0 => Redeemers::new(),
            1 => Redeemers::from_bytes(vec![0x80]).unwrap_or_else(|_| Redeemers::new()),
            _ => Redeemers::from_bytes(vec![0xa0]).unwrap_or_else(|_| Redeemers::new()),
        }
    };
    // datums: a typed list, the same list read back from a definite / indefinite spelling that REPEATS an
    // element (the witness set writes a set: the repeat is left out), or an explicitly empty list (not written)
    let datums = if with_dat {
        let l = g.plutus_list();
        match g.r.below(5) {
            0 if l.len() > 0 => {
                let mut items: Vec<vkit::cbor::Item> = (0..l.len()).filter_map(|i| vkit::cbor::parse(&l.get(i).to_bytes()).ok()).collect();
                if let Some(first) = items.first().cloned() {
                    items.push(first);
                }
                let arr = if g.r.bool() { vkit::cbor::Item::arr(items) } else { vkit::cbor::Item::arr(items).indef() };
                match PlutusList::from_bytes(vkit::cbor::to_vec(&arr)) {
                    Ok(p) => {
                        ctx.bucket("helper.datums-read-from-a-list-with-a-repeat");
                        Some(p)
                    }
                    Err(_) => Some(l),
                }
            }
            1 => Some(PlutusList::new()),
            _ => Some(l),
        }
    } else {
        None
    };
    let mut cm = Costmdls::new();
    let mut views: BTreeMap<u8, Vec<i128>> = BTreeMap::new();
    for l in 1u8..=3 {
        if g.r.bool() {
            let n = g.r.usize(8);
            let mut c = CostModel::new();
            let mut costs = vec![];
            for i in 0..n {
                let v = (g.r.wide_u64() >> 1) as i128;
                let neg = g.r.below(6) == 0;
                let x = if neg { Int::new_negative(&BigNum::from(v.max(1) as u64)) } else { Int::new(&BigNum::from(v as u64)) };
                let _ = c.set(i, &x);
                costs.push(if neg { -(v.max(1)) } else { v });
            }
            let lang = match l {
                1 => Language::new_plutus_v1(),
                2 => Language::new_plutus_v2(),
                _ => Language::new_plutus_v3(),
            };
            cm.insert(&lang, &c);
            views.insert(l, costs);
        }
    }
    // the bytes as a witness set emits them
    let mut ws = TransactionWitnessSet::new();
    if reds.len() > 0 {
        ws.set_redeemers(&reds);
    }
    if let Some(d) = &datums {
        if d.len() > 0 {
            ws.set_plutus_data(d);
        }
    }
    let wb = match guard(|| ws.to_bytes()) {
        Ok(b) => b,
        Err(p) => {
            ctx.panic_seen(&p);
            return;
        }
    };
    let it = match vkit::cbor::parse(&wb) {
        Ok(i) => i,
        Err(_) => return,
    };
    let red_bytes = it.map_get(5).map(|x| x.span(&wb).to_vec());
    let dat_bytes = it.map_get(4).map(|x| x.span(&wb).to_vec());
    // helper semantics for absent pieces: empty redeemers are hashed as their own encoding
    let got = match guard(|| hash_script_data(&reds, &cm, datums.clone()).to_bytes()) {
        Ok(h) => h,
        Err(p) => {
            ctx.violation(&format!("hash_script_data/{}", p.sig()), json!({"witness_set": hx(&wb)}));
            return;
        }
    };
    let cls = match (red_bytes.is_some(), dat_bytes.is_some()) {
        (true, true) => "redeemers+datums",
        (true, false) => "redeemers-only",
        (false, true) => "datums-only",
        _ => "neither",
    };
    if cls == "neither" {
        // nothing is emitted for an empty redeemer set without datums: the definition 'hash of what is
        // emitted' does not fix the helper's result here
        ctx.bucket("skipped.helper-on-empty-script-data");
        return;
    }
    if datums.as_ref().map(|d| d.len() == 0).unwrap_or(false) {
        // an explicitly empty datum list is not emitted: it contributes what an absent one does
        ctx.bucket("helper.explicitly-empty-datum-list");
    }
    let want = vkit::ledger::script_integrity_hash(red_bytes.as_deref(), dat_bytes.as_deref(), &views);
    if got != want {
        ctx.violation(&format!("hash_script_data/differs-from-definition/{}", cls), json!({"witness_set": hx(&wb), "views": format!("{:?}", views), "got": hx(&got), "want": hx(&want)}));
    } else {
        ctx.bucket("helper.hash_script_data.ok");
        ctx.bucket(&format!("helper.hash_script_data.{}", cls));
    }
}
