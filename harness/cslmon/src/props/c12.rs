//! C12 — signatures verify, derivation commutes, key encodings and encryption round-trip.
//!
//! Oracles (none of them calls the function under test):
//!  * Ed25519 verification / public keys: `cryptoxide::ed25519` called directly on raw bytes.
//!  * BIP32-Ed25519 (V2) derivation: the `ed25519-bip32` crate called directly.
//!  * hex / Bech32: `vkit::codec` (own implementation).
//!  * CBOR of witnesses and Byron address attributes: `vkit::cbor` (own implementation).
//!  * EMIP-3 container: PBKDF2-HMAC-SHA512 from cryptoxide + ChaCha20-Poly1305 composed by hand
//!    from cryptoxide's `chacha20` and `poly1305` primitives following RFC 8439, cross-checked
//!    against cryptoxide's AEAD.

use crate::fw::*;
use cardano_serialization_lib as csl;
use cryptoxide::digest::Digest;
use cryptoxide::ed25519 as ced;
use cryptoxide::mac::Mac;
use csl::{
    decrypt_with_password, encrypt_with_password, make_daedalus_bootstrap_witness, make_icarus_bootstrap_witness,
    make_vkey_witness, Bip32PrivateKey, Bip32PublicKey, BootstrapWitness, ByronAddress, Ed25519KeyHash,
    Ed25519Signature, KESSignature, KESVKey, LegacyDaedalusPrivateKey, NetworkInfo, PrivateKey, PublicKey,
    TransactionHash, VRFVKey, Vkey, Vkeywitness,
};
use ed25519_bip32 as eb;
use serde_json::json;
use std::rc::Rc;
use vkit::cbor as vc;
use vkit::codec::{bech32_decode, bech32_encode, bech32_encode_u5, blake2b256, convert_bits, crc32, hex as vhex, unhex};
use vkit::rng::Rng;

type J = serde_json::Value;

const RING: usize = 6;
const HARD: u32 = 0x8000_0000;
const LENS: u64 = 201; // wrong-length stream: lengths 0..=200

pub fn def() -> PropDef {
    PropDef {
        id: "C12",
        rule: "cases are (key, message) pairs, (hash, key, address) witness requests, (root, derivation path) pairs, (type, raw value) encoding requests, (constructor, input length / text mutation) pairs and (password, salt, nonce, plaintext, tamper) encryption requests, all seeded; keys of every kind are built from seeded bytes (BIP39 roots from a per-shard ring of 6 seeded entropies); non-trivial = at least one signature / derivation / encoding / container was produced and judged by the independent oracle; distinct by hash of (kind, key bytes, message | path | raw value | mutation | password+salt+nonce+plaintext)",
        assumptions: &[
            "cryptoxide (ed25519 verify, sha512, hmac, pbkdf2, chacha20, poly1305) and ed25519-bip32 are trusted as references when called directly",
            "extended keys are clamped (low 3 bits clear, bit 254 set, bit 255 clear); unclamped 64-byte / 96-byte legacy inputs are only observed in info.* buckets, never judged",
            "stream sign-generated uses the library's OS-entropy generators: its keys are not a function of the seed (key bytes are written into every detail instead)",
            "an explicit Err for an empty password is documented behaviour, not a refutation",
            "negative verification results hold up to the negligible forgery probability of Ed25519 / Poly1305",
        ],
        streams,
        floors: &[
            ("key.normal", 100),
            ("key.extended-clamped", 100),
            ("key.extended-of-seed", 100),
            ("key.bip32-from-bytes", 100),
            ("key.bip32-from-128-xprv", 100),
            ("key.bip32-ring-derived", 100),
            ("key.bip39-root", 6),
            ("msg.len.0", 10),
            ("msg.len.4096", 5),
            ("sign.verified", 1000),
            ("sign.negatives-refused", 5000),
            ("witness.vkey.ok", 100),
            ("witness.icarus.ok", 50),
            ("witness.daedalus.ok", 50),
            ("path.depth.6", 50),
            ("derive.soft-commutes", 500),
            ("derive.hard-pub-refused", 200),
            ("hrp.ed25519_sk", 50),
            ("hrp.ed25519e_sk", 50),
            ("hrp.ed25519_pk", 50),
            ("hrp.xprv", 50),
            ("hrp.xpub", 50),
            ("hrp.ed25519_sig", 50),
            ("foreign-hrp.refused", 500),
            ("xprv128.roundtrip-ok", 50),
            ("wrong-length.err", 3000),
            ("malformed.refused", 500),
            ("encrypt.judged", 15),
            ("encrypt.roundtrip-ok", 10),
            ("tamper.salt.refused", 10),
            ("tamper.nonce.refused", 10),
            ("tamper.tag.refused", 10),
            ("tamper.ciphertext.refused", 10),
            ("wrong-password.refused", 8),
        ],
        init: None,
    }
}

fn streams() -> Vec<Stream> {
    let nwl = (ctors().len() as u64) * LENS;
    vec![
        Stream { name: "sign-verify", count: (16_000, 320_000), exhaustive: false, run: sign_verify },
        Stream { name: "sign-generated", count: (192, 3_840), exhaustive: false, run: sign_generated },
        Stream { name: "witness", count: (6_000, 120_000), exhaustive: false, run: witness },
        Stream { name: "derive", count: (8_000, 160_000), exhaustive: false, run: derive },
        Stream { name: "encodings", count: (20_000, 400_000), exhaustive: false, run: encodings },
        Stream { name: "wrong-length", count: (nwl, nwl), exhaustive: true, run: wrong_length },
        Stream { name: "malformed-text", count: (20_000, 400_000), exhaustive: false, run: malformed_text },
        Stream { name: "enc-roundtrip", count: (192, 5_000), exhaustive: false, run: enc_roundtrip },
        Stream { name: "enc-tamper", count: (128, 4_000), exhaustive: false, run: enc_tamper },
        Stream { name: "enc-malformed", count: (4_000, 80_000), exhaustive: false, run: enc_malformed },
    ]
}

// ------------------------------------------------------------------------------------------------
// generic helpers

/// random bytes of a random length below `n`
fn upto(r: &mut Rng, n: usize) -> Vec<u8> {
    let k = r.usize(n);
    r.bytes(k)
}

fn es<E: std::fmt::Display>(e: E) -> String {
    e.to_string()
}

/// panic signature without input-specific parts: the offending character / position of a hex error
/// and the concrete slice bounds are dropped so that one defect keeps one signature
fn panic_sig(p: &PanicRec) -> String {
    let m = p.norm_msg();
    let m = if m.contains("InvalidHexCharacter") || m.contains("OddLength") || m.contains("InvalidStringLength") {
        match m.find("`Err` value: ") {
            Some(pos) => format!("{}FromHexError", &m[..pos + "`Err` value: ".len()]),
            None => "FromHexError".to_string(),
        }
    } else if m.contains("out of range for slice of length") {
        "slice index out of range".to_string()
    } else {
        m
    };
    // the framework's backtrace walk yields "extern" when the innermost frames are inlined std code:
    // fall back to the library file named by the panic location
    let site = match (p.site.as_str(), p.loc.find("/rust/src/")) {
        ("extern", Some(pos)) => format!("{}::?", p.loc[pos + "/rust/src/".len()..].split(':').next().unwrap_or("?")),
        _ => p.site.clone(),
    };
    format!("panic@{}:{}", site, m)
}

/// run a library call; a panic becomes a violation `<entry>/<panic signature>` and `None`
fn call<T>(ctx: &mut Ctx, entry: &str, det: &dyn Fn() -> J, f: impl FnOnce() -> T) -> Option<T> {
    match guard(f) {
        Ok(v) => Some(v),
        Err(p) => {
            let mut d = det();
            if let J::Object(m) = &mut d {
                m.insert("panic_msg".into(), json!(p.msg));
                m.insert("panic_loc".into(), json!(p.loc));
            }
            ctx.violation(&format!("{}/{}", entry, panic_sig(&p)), d);
            ctx.bucket("panic.observed");
            None
        }
    }
}

fn with(mut d: J, k: &str, v: J) -> J {
    if let J::Object(m) = &mut d {
        m.insert(k.to_string(), v);
    }
    d
}

fn a32(b: &[u8]) -> Option<[u8; 32]> {
    if b.len() != 32 {
        return None;
    }
    let mut a = [0u8; 32];
    a.copy_from_slice(b);
    Some(a)
}
fn a64(b: &[u8]) -> Option<[u8; 64]> {
    if b.len() != 64 {
        return None;
    }
    let mut a = [0u8; 64];
    a.copy_from_slice(b);
    Some(a)
}
fn a96(b: &[u8]) -> Option<[u8; 96]> {
    if b.len() != 96 {
        return None;
    }
    let mut a = [0u8; 96];
    a.copy_from_slice(b);
    Some(a)
}

// ------------------------------------------------------------------------------------------------
// oracles

/// cryptoxide's verifier on raw bytes (false for wrong sizes)
fn o_verify(msg: &[u8], pk: &[u8], sig: &[u8]) -> bool {
    match (a32(pk), a64(sig)) {
        (Some(p), Some(s)) => ced::verify(msg, &p, &s),
        _ => false,
    }
}
fn o_sha512(d: &[u8]) -> [u8; 64] {
    let mut h = cryptoxide::sha2::Sha512::new();
    h.input(d);
    let mut out = [0u8; 64];
    h.result(&mut out);
    out
}
fn o_hmac_sha512(key: &[u8], d: &[u8]) -> [u8; 64] {
    let mut m = cryptoxide::hmac::Hmac::new(cryptoxide::sha2::Sha512::new(), key);
    m.input(d);
    let mut out = [0u8; 64];
    m.raw_result(&mut out);
    out
}
fn o_pbkdf2(password: &[u8], salt: &[u8], iters: u32, n: usize) -> Vec<u8> {
    let mut mac = cryptoxide::hmac::Hmac::new(cryptoxide::sha2::Sha512::new(), password);
    let mut out = vec![0u8; n];
    cryptoxide::pbkdf2::pbkdf2(&mut mac, salt, iters, &mut out);
    out
}
/// standard Ed25519 clamp of the scalar half of an extended key
fn clamp_ed(b: &mut [u8]) {
    if b.len() >= 32 {
        b[0] &= 0xf8;
        b[31] &= 0x7f;
        b[31] |= 0x40;
    }
}
/// BIP32-Ed25519 root clamp (3rd highest bit cleared as well)
fn clamp_bip32(b: &mut [u8]) {
    if b.len() >= 32 {
        b[0] &= 0xf8;
        b[31] &= 0x1f;
        b[31] |= 0x40;
    }
}
/// Daedalus root key from a seed: HMAC-SHA512(seed, "Root Seed Chain n") until bit 5 of byte 31 is clear
fn o_daedalus_root(seed: &[u8]) -> [u8; 96] {
    let mut out = [0u8; 96];
    let mut iter: u32 = 1;
    loop {
        let block = o_hmac_sha512(seed, format!("Root Seed Chain {}", iter).as_bytes());
        let mut ext = o_sha512(&block[0..32]);
        ext[0] &= 248;
        ext[31] &= 63;
        ext[31] |= 64;
        if ext[31] & 0x20 == 0 || iter > 10_000 {
            out[0..64].copy_from_slice(&ext);
            out[64..96].copy_from_slice(&block[32..64]);
            return out;
        }
        iter = iter.wrapping_add(1);
    }
}
/// RFC 8439 AEAD with empty AAD, composed from chacha20 + poly1305 primitives
fn o_aead(key: &[u8], nonce: &[u8], data: &[u8]) -> (Vec<u8>, [u8; 16]) {
    let mut c = cryptoxide::chacha20::ChaCha20::new(key, nonce);
    let mut block0 = [0u8; 64];
    c.process_mut(&mut block0);
    let mut ct = data.to_vec();
    c.process_mut(&mut ct);
    let mut mac = cryptoxide::poly1305::Poly1305::new(&block0[0..32]);
    mac.input(&ct);
    let pad = (16 - ct.len() % 16) % 16;
    mac.input(&[0u8; 16][..pad]);
    mac.input(&0u64.to_le_bytes());
    mac.input(&(ct.len() as u64).to_le_bytes());
    let mut tag = [0u8; 16];
    mac.raw_result(&mut tag);
    (ct, tag)
}
/// the EMIP-3 container recomputed: salt || nonce || tag || ciphertext; None if the two reference
/// computations of the AEAD disagree (then the case is not judged)
fn o_container(password: &[u8], salt: &[u8], nonce: &[u8], data: &[u8]) -> Option<Vec<u8>> {
    let key = o_pbkdf2(password, salt, 19_162, 32);
    let (ct, tag) = o_aead(&key, nonce, data);
    let mut ct2 = vec![0u8; data.len()];
    let mut tag2 = [0u8; 16];
    cryptoxide::chacha20poly1305::ChaCha20Poly1305::new(&key, nonce, &[]).encrypt(data, &mut ct2, &mut tag2);
    if ct != ct2 || tag != tag2 {
        return None;
    }
    let mut out = Vec::with_capacity(60 + data.len());
    out.extend_from_slice(salt);
    out.extend_from_slice(nonce);
    out.extend_from_slice(&tag);
    out.extend_from_slice(&ct);
    Some(out)
}

// ------------------------------------------------------------------------------------------------
// per-shard ring of BIP39 roots (from_bip39_entropy is ~8 ms: derived once per shard)

struct Root {
    entropy: Vec<u8>,
    password: Vec<u8>,
    xprv: [u8; 96],
}
struct Shared {
    roots: Vec<Root>,
}

fn shared(ctx: &mut Ctx) -> Rc<Shared> {
    if let Some(st) = &ctx.state {
        if let Some(s) = st.downcast_ref::<Rc<Shared>>() {
            return s.clone();
        }
    }
    let mut roots = Vec::new();
    for k in 0..RING {
        let mut r = Rng::derive(ctx.seed, "C12/ring", k as u64);
        let elen = [16usize, 20, 24, 28, 32, 0][k % 6];
        let entropy = r.bytes(elen);
        let password = match k % 3 {
            0 => vec![],
            1 => r.bytes(8),
            _ => b"TREZOR".to_vec(),
        };
        ctx.eval();
        // reference: PBKDF2-HMAC-SHA512(password, salt = entropy, 4096) then root clamp
        let mut want = match a96(&o_pbkdf2(&password, &entropy, 4096, 96)) {
            Some(w) => w,
            None => [0u8; 96],
        };
        clamp_bip32(&mut want);
        let det = || json!({"entropy": hx(&entropy), "password": hx(&password), "want_xprv": hx(&want)});
        let got = call(ctx, "Bip32PrivateKey::from_bip39_entropy", &det, || Bip32PrivateKey::from_bip39_entropy(&entropy, &password).as_bytes());
        if let Some(g) = &got {
            ctx.bucket("key.bip39-root");
            if g[..] != want[..] {
                ctx.violation("Bip32PrivateKey::from_bip39_entropy/differs-from-pbkdf2-reference", with(det(), "got", json!(hx(g))));
            }
        }
        // the ring continues with the reference bytes (equal to the library's unless flagged above)
        roots.push(Root { entropy, password, xprv: want });
    }
    let s = Rc::new(Shared { roots });
    ctx.state = Some(Box::new(s.clone()));
    s
}

/// a derivation index and its class name
fn gen_index(r: &mut Rng, soft_bias: bool) -> (u32, &'static str) {
    let c = if soft_bias { [0u64, 1, 2, 3, 4, 0, 4, 4, 5, 8][r.usize(10)] } else { r.below(9) };
    match c {
        0 => (0, "0"),
        1 => (1, "1"),
        2 => (2, "2"),
        3 => (HARD - 1, "2^31-1"),
        4 => (r.below(HARD as u64) as u32, "random-soft"),
        5 => (HARD, "2^31"),
        6 => (HARD + 1, "2^31+1"),
        7 => (u32::MAX, "2^32-1"),
        _ => (HARD | (r.below(HARD as u64) as u32), "random-hard"),
    }
}

// ------------------------------------------------------------------------------------------------
// 1. sign / verify

struct KeyCase {
    kind: &'static str,
    sk: PrivateKey,
    /// bytes that rebuild the key: 32 (from_normal_bytes) or 64 (from_extended_bytes)
    raw: Vec<u8>,
    want_pk: [u8; 32],
    origin: J,
}

fn ctor_err(ctx: &mut Ctx, entry: &str, kind: &str, det: J, e: String) {
    ctx.violation(&format!("{}/spurious-error/{}", entry, kind), with(det, "err", json!(e)));
}

/// library-derive along a path, together with the ed25519-bip32 reference; returns (lib key, reference key)
fn derive_both(ctx: &mut Ctx, root: &[u8; 96], path: &[u32]) -> Option<(Bip32PrivateKey, eb::XPrv)> {
    let det = || json!({"root_xprv": hx(root), "path": path});
    let mut o = match eb::XPrv::from_bytes_verified(*root) {
        Ok(o) => o,
        Err(_) => {
            ctx.bucket("skipped.reference-rejects-root");
            return None;
        }
    };
    let mut l = match call(ctx, "Bip32PrivateKey::from_bytes", &det, || Bip32PrivateKey::from_bytes(root).map_err(es))? {
        Ok(l) => l,
        Err(e) => {
            ctor_err(ctx, "Bip32PrivateKey::from_bytes", "valid-root", det(), e);
            return None;
        }
    };
    for &ix in path {
        l = call(ctx, "Bip32PrivateKey::derive", &det, || l.derive(ix))?;
        o = o.derive(eb::DerivationScheme::V2, ix);
    }
    Some((l, o))
}

fn gen_key(ctx: &mut Ctx, r: &mut Rng, which: u64) -> Option<KeyCase> {
    match which % 6 {
        0 => {
            let seed = match r.below(32) {
                0 => vec![0u8; 32],
                1 => vec![0xffu8; 32],
                _ => r.bytes(32),
            };
            let s32 = a32(&seed)?;
            let det = || json!({"kind": "normal", "seed": hx(&seed)});
            match call(ctx, "PrivateKey::from_normal_bytes", &det, || PrivateKey::from_normal_bytes(&seed).map_err(es))? {
                Ok(sk) => Some(KeyCase { kind: "normal", sk, raw: seed.clone(), want_pk: ced::keypair(&s32).1, origin: json!("from_normal_bytes(seed)") }),
                Err(e) => {
                    ctor_err(ctx, "PrivateKey::from_normal_bytes", "normal", det(), e);
                    None
                }
            }
        }
        1 | 5 => {
            // extended key: clamped random 64 bytes, or the extension of a normal seed
            let (kind, ext, want) = if which % 6 == 1 {
                let mut e = r.bytes(64);
                clamp_ed(&mut e);
                let w = ced::extended_to_public(&a64(&e)?);
                ("extended-clamped", e, w)
            } else {
                let seed = a32(&r.bytes(32))?;
                let mut e = o_sha512(&seed).to_vec();
                clamp_ed(&mut e);
                ("extended-of-seed", e, ced::keypair(&seed).1)
            };
            let det = || json!({"kind": kind, "extended": hx(&ext)});
            match call(ctx, "PrivateKey::from_extended_bytes", &det, || PrivateKey::from_extended_bytes(&ext).map_err(es))? {
                Ok(sk) => Some(KeyCase { kind, sk, raw: ext.clone(), want_pk: want, origin: json!("from_extended_bytes") }),
                Err(e) => {
                    ctor_err(ctx, "PrivateKey::from_extended_bytes", kind, det(), e);
                    None
                }
            }
        }
        2 | 3 => {
            let mut b = r.bytes(96);
            if r.bool() {
                clamp_bip32(&mut b);
            } else {
                clamp_ed(&mut b); // 3rd highest bit may stay set: accepted by the verified constructor
            }
            let want = ced::extended_to_public(&a64(&b[0..64])?);
            let (kind, entry, input) = if which % 6 == 2 {
                ("bip32-from-bytes", "Bip32PrivateKey::from_bytes", b.clone())
            } else {
                let mut x = b[0..64].to_vec();
                x.extend_from_slice(&want);
                x.extend_from_slice(&b[64..96]);
                ("bip32-from-128-xprv", "Bip32PrivateKey::from_128_xprv", x)
            };
            let det = || json!({"kind": kind, "input": hx(&input)});
            let k = match call(ctx, entry, &det, || if input.len() == 96 { Bip32PrivateKey::from_bytes(&input).map_err(es) } else { Bip32PrivateKey::from_128_xprv(&input).map_err(es) })? {
                Ok(k) => k,
                Err(e) => {
                    ctor_err(ctx, entry, kind, det(), e);
                    return None;
                }
            };
            let sk = call(ctx, "Bip32PrivateKey::to_raw_key", &det, || k.to_raw_key())?;
            let raw = call(ctx, "PrivateKey::as_bytes", &det, || sk.as_bytes())?;
            if raw[..] != b[0..64] {
                ctx.violation("Bip32PrivateKey::to_raw_key/differs-from-first-64-bytes", with(det(), "got", json!(hx(&raw))));
                return None;
            }
            Some(KeyCase { kind, sk, raw, want_pk: want, origin: json!({"xprv": hx(&b)}) })
        }
        _ => {
            let sh = shared(ctx);
            let root = &sh.roots[r.usize(sh.roots.len())];
            let depth = r.usize(7);
            let path: Vec<u32> = (0..depth).map(|_| gen_index(r, false).0).collect();
            let (l, o) = derive_both(ctx, &root.xprv, &path)?;
            let det = || json!({"kind": "bip32-ring-derived", "entropy": hx(&root.entropy), "password": hx(&root.password), "root_xprv": hx(&root.xprv), "path": path});
            let sk = call(ctx, "Bip32PrivateKey::to_raw_key", &det, || l.to_raw_key())?;
            let raw = call(ctx, "PrivateKey::as_bytes", &det, || sk.as_bytes())?;
            let oref: &[u8] = o.as_ref();
            if raw[..] != oref[0..64] {
                ctx.violation("Bip32PrivateKey::derive/raw-key-differs-from-ed25519-bip32", with(det(), "got", json!(hx(&raw))));
                return None;
            }
            let want = ced::extended_to_public(&a64(&oref[0..64])?);
            Some(KeyCase { kind: "bip32-ring-derived", sk, raw, want_pk: want, origin: det() })
        }
    }
}

const MSG_LENS: [usize; 24] = [0, 1, 2, 31, 32, 33, 47, 48, 55, 56, 63, 64, 65, 79, 80, 111, 112, 127, 128, 129, 1024, 4095, 4096, 3];

fn gen_msg(r: &mut Rng, i: u64) -> Vec<u8> {
    let slot = i / 6; // key kind is i % 6: give every kind every special length
    let len = if slot < MSG_LENS.len() as u64 {
        MSG_LENS[slot as usize]
    } else {
        match r.below(8) {
            0 => *r.pick(&MSG_LENS),
            1..=3 => r.usize(4097),
            4 | 5 => r.usize(300),
            _ => r.usize(64),
        }
    };
    match r.below(16) {
        0 => vec![0u8; len],
        1 => vec![0xffu8; len],
        _ => r.bytes(len),
    }
}

fn len_class(n: usize) -> &'static str {
    match n {
        0 => "0",
        1 => "1",
        2..=31 => "2-31",
        32 => "32",
        33..=128 => "33-128",
        129..=1024 => "129-1024",
        1025..=4095 => "1025-4095",
        _ => "4096",
    }
}

/// messages different from `m`: (class, message)
fn other_messages(r: &mut Rng, m: &[u8]) -> Vec<(&'static str, Vec<u8>)> {
    let mut v = Vec::new();
    if !m.is_empty() {
        let mut f = m.to_vec();
        let p = r.usize(m.len());
        f[p] ^= 1u8 << r.below(8);
        v.push(("bit-flipped", f));
        v.push(("truncated-last-byte", m[..m.len() - 1].to_vec()));
        if m.len() > 1 {
            v.push(("truncated-first-byte", m[1..].to_vec()));
        }
    }
    let mut e = m.to_vec();
    e.push(if r.bool() { 0 } else { r.below(256) as u8 });
    v.push(("extended-by-one-byte", e));
    let mut pfx = vec![if r.bool() { 0 } else { r.below(256) as u8 }];
    pfx.extend_from_slice(m);
    v.push(("prefixed-by-one-byte", pfx));
    v
}

fn judge_sign(ctx: &mut Ctx, r: &mut Rng, kc: &KeyCase, msg: &[u8]) -> Option<()> {
    ctx.eval();
    let kind = kc.kind;
    let det = || json!({"kind": kind, "key": hx(&kc.raw), "origin": kc.origin, "msg": hx(msg), "want_pk": hx(&kc.want_pk)});
    let pk = call(ctx, "PrivateKey::to_public", &det, || kc.sk.to_public())?;
    let pkb = call(ctx, "PublicKey::as_bytes", &det, || pk.as_bytes())?;
    if pkb[..] != kc.want_pk[..] {
        ctx.violation(&format!("PrivateKey::to_public/differs-from-cryptoxide/{}", kind), with(det(), "got", json!(hx(&pkb))));
        return None;
    }
    let sig = call(ctx, "PrivateKey::sign", &det, || kc.sk.sign(msg))?;
    let sigb = call(ctx, "Ed25519Signature::to_bytes", &det, || sig.to_bytes())?;
    let sigb2 = call(ctx, "PrivateKey::sign", &det, || kc.sk.sign(msg).to_bytes())?;
    ctx.bucket(&format!("key.{}", kind));
    ctx.bucket(&format!("msg.len.{}", len_class(msg.len())));
    let mut nt = kc.raw.clone();
    nt.extend_from_slice(msg);
    ctx.nontrivial_bytes("sign", &nt);
    let dets = || with(det(), "sig", json!(hx(&sigb)));
    if sigb != sigb2 {
        ctx.violation("PrivateKey::sign/not-deterministic", with(dets(), "sig2", json!(hx(&sigb2))));
    }
    if sigb.len() != 64 {
        ctx.violation("PrivateKey::sign/signature-not-64-bytes", dets());
        return None;
    }
    // positive
    let ok_o = o_verify(msg, &pkb, &sigb);
    let ok_l = call(ctx, "PublicKey::verify", &dets, || pk.verify(msg, &sig))?;
    if !ok_o {
        ctx.violation(&format!("PrivateKey::sign/rejected-by-cryptoxide-verify/{}", kind), dets());
    }
    if !ok_l {
        ctx.violation(&format!("PrivateKey::sign/rejected-by-PublicKey::verify/{}", kind), dets());
    }
    if ok_o && ok_l {
        ctx.bucket("sign.verified");
    }
    // other messages
    for (class, m2) in other_messages(r, msg) {
        let d2 = || with(dets(), "other_msg", json!(hx(&m2)));
        let bad_o = o_verify(&m2, &pkb, &sigb);
        let bad_l = call(ctx, "PublicKey::verify", &d2, || pk.verify(&m2, &sig))?;
        if bad_o {
            ctx.violation(&format!("PrivateKey::sign/verifies-for-other-message/{}", class), d2());
        }
        if bad_l {
            ctx.violation(&format!("PublicKey::verify/accepts-other-message/{}", class), d2());
        }
        if !bad_o && !bad_l {
            ctx.bucket("sign.negatives-refused");
            ctx.bucket(&format!("neg.msg.{}", class));
        }
    }
    // bit-flipped signature
    {
        let mut s2 = sigb.clone();
        let p = r.usize(64);
        s2[p] ^= 1u8 << r.below(8);
        let d2 = || with(dets(), "flipped_sig", json!(hx(&s2)));
        let bad_o = o_verify(msg, &pkb, &s2);
        let bad_l = match call(ctx, "Ed25519Signature::from_bytes", &d2, || Ed25519Signature::from_bytes(s2.clone()).map_err(es))? {
            Ok(sg) => call(ctx, "PublicKey::verify", &d2, || pk.verify(msg, &sg))?,
            Err(e) => {
                ctx.violation("Ed25519Signature::from_bytes/spurious-error/64-bytes", with(d2(), "err", json!(e)));
                false
            }
        };
        if bad_o {
            ctx.violation("PrivateKey::sign/bit-flipped-signature-verifies", d2());
        }
        if bad_l {
            ctx.violation("PublicKey::verify/accepts-bit-flipped-signature", d2());
        }
        if !bad_o && !bad_l {
            ctx.bucket("sign.negatives-refused");
            ctx.bucket(if p < 32 { "neg.sig.R-flipped" } else { "neg.sig.S-flipped" });
        }
    }
    // another key
    {
        let seed2 = a32(&r.bytes(32))?;
        let pk2 = ced::keypair(&seed2).1;
        if pk2[..] != pkb[..] {
            let d2 = || with(dets(), "other_pk", json!(hx(&pk2)));
            let bad_o = o_verify(msg, &pk2, &sigb);
            let bad_l = match call(ctx, "PublicKey::from_bytes", &d2, || PublicKey::from_bytes(&pk2).map_err(es))? {
                Ok(p2) => call(ctx, "PublicKey::verify", &d2, || p2.verify(msg, &sig))?,
                Err(e) => {
                    ctx.violation("PublicKey::from_bytes/spurious-error/32-bytes", with(d2(), "err", json!(e)));
                    false
                }
            };
            if bad_o {
                ctx.violation("PrivateKey::sign/verifies-under-other-key", d2());
            }
            if bad_l {
                ctx.violation("PublicKey::verify/accepts-under-other-key", d2());
            }
            if !bad_o && !bad_l {
                ctx.bucket("sign.negatives-refused");
                ctx.bucket("neg.other-key");
            }
        }
    }
    ctx.sample("sign", || json!({"kind": kind, "key": hx(&kc.raw), "msg_len": msg.len(), "pk": hx(&pkb), "sig": hx(&sigb)}));
    Some(())
}

fn sign_verify(ctx: &mut Ctx, r: &mut Rng, i: u64) {
    let msg = gen_msg(r, i);
    if let Some(kc) = gen_key(ctx, r, i) {
        let _ = judge_sign(ctx, r, &kc, &msg);
        // informational only: unclamped 64-byte input accepted by from_extended_bytes (no structure check)
        if i % 64 == 1 {
            let raw = r.bytes(64);
            if let Ok(Ok(sk)) = guard(|| PrivateKey::from_extended_bytes(&raw)) {
                if let Ok((pk, sg)) = guard(|| (sk.to_public().as_bytes(), sk.sign(&msg).to_bytes())) {
                    let top = raw[31] >> 7;
                    ctx.bucket(&format!("info.unclamped-extended.bit255-{}.verify-{}", top, if o_verify(&msg, &pk, &sg) { "ok" } else { "fail" }));
                }
            }
        }
    } else {
        ctx.bucket("skipped.key-not-built");
    }
}

/// keys from the library's own OS-entropy generators (not replayable: key bytes go into the detail)
fn sign_generated(ctx: &mut Ctx, r: &mut Rng, i: u64) {
    let msg = gen_msg(r, u64::MAX);
    let det0 = || json!({"generator": i % 3});
    let kc = match i % 3 {
        0 => (|| {
            let sk = match call(ctx, "PrivateKey::generate_ed25519", &det0, || PrivateKey::generate_ed25519().map_err(es))? {
                Ok(k) => k,
                Err(_) => {
                    ctx.bucket("skipped.os-rng-unavailable");
                    return None;
                }
            };
            let raw = call(ctx, "PrivateKey::as_bytes", &det0, || sk.as_bytes())?;
            let want = ced::keypair(&a32(&raw).or_else(|| {
                ctx.violation("PrivateKey::generate_ed25519/key-not-32-bytes", json!({"key": hx(&raw)}));
                None
            })?)
            .1;
            Some(KeyCase { kind: "generated-normal", sk, raw, want_pk: want, origin: json!("generate_ed25519") })
        })(),
        1 => (|| {
            let sk = match call(ctx, "PrivateKey::generate_ed25519extended", &det0, || PrivateKey::generate_ed25519extended().map_err(es))? {
                Ok(k) => k,
                Err(_) => {
                    ctx.bucket("skipped.os-rng-unavailable");
                    return None;
                }
            };
            let raw = call(ctx, "PrivateKey::as_bytes", &det0, || sk.as_bytes())?;
            let e = a64(&raw).or_else(|| {
                ctx.violation("PrivateKey::generate_ed25519extended/key-not-64-bytes", json!({"key": hx(&raw)}));
                None
            })?;
            ctx.bucket(if e[0] & 7 == 0 && e[31] & 0xc0 == 0x40 { "generated.extended.clamped" } else { "generated.extended.unclamped" });
            Some(KeyCase { kind: "generated-extended", sk, raw, want_pk: ced::extended_to_public(&e), origin: json!("generate_ed25519extended") })
        })(),
        _ => (|| {
            let k = match call(ctx, "Bip32PrivateKey::generate_ed25519_bip32", &det0, || Bip32PrivateKey::generate_ed25519_bip32().map_err(es))? {
                Ok(k) => k,
                Err(_) => {
                    ctx.bucket("skipped.os-rng-unavailable");
                    return None;
                }
            };
            let xb = call(ctx, "Bip32PrivateKey::as_bytes", &det0, || k.as_bytes())?;
            let det = || json!({"xprv": hx(&xb)});
            // a generated key must be accepted by the verified constructor
            match call(ctx, "Bip32PrivateKey::from_bytes", &det, || Bip32PrivateKey::from_bytes(&xb).map(|x| x.as_bytes()).map_err(es))? {
                Ok(b2) => {
                    if b2 != xb {
                        ctx.violation("Bip32PrivateKey::from_bytes/bytes-round-trip-differs", det());
                    }
                }
                Err(e) => ctor_err(ctx, "Bip32PrivateKey::from_bytes", "generated-key", det(), e),
            }
            let sk = call(ctx, "Bip32PrivateKey::to_raw_key", &det, || k.to_raw_key())?;
            let raw = call(ctx, "PrivateKey::as_bytes", &det, || sk.as_bytes())?;
            let e = a64(&raw)?;
            Some(KeyCase { kind: "generated-bip32", sk, raw, want_pk: ced::extended_to_public(&e), origin: det() })
        })(),
    };
    if let Some(kc) = kc {
        let _ = judge_sign(ctx, r, &kc, &msg);
    }
}

// ------------------------------------------------------------------------------------------------
// 2. witness helpers

/// a Byron address written with our own CBOR writer; returns (address bytes, attribute map bytes)
fn build_byron(root28: &[u8], hd_payload: Option<&[u8]>, magic: Option<u32>) -> (Vec<u8>, Vec<u8>) {
    let mut entries = Vec::new();
    if let Some(p) = hd_payload {
        entries.push((vc::Item::u(1), vc::Item::bytes(p)));
    }
    if let Some(m) = magic {
        entries.push((vc::Item::u(2), vc::Item::bytes(&vc::to_vec(&vc::Item::u(m as u64)))));
    }
    let attrs = vc::Item::map(entries);
    let attr_bytes = vc::to_vec(&attrs);
    let inner = vc::to_vec(&vc::Item::arr(vec![vc::Item::bytes(root28), attrs, vc::Item::u(0)]));
    let outer = vc::Item::arr(vec![vc::Item::tag(24, vc::Item::bytes(&inner)), vc::Item::u(crc32(&inner) as u64)]);
    (vc::to_vec(&outer), attr_bytes)
}

/// the attribute map bytes as they stand inside serialized Byron address bytes (own reader)
fn extract_attrs(addr: &[u8]) -> Option<Vec<u8>> {
    let outer = vc::parse(addr).ok()?;
    let (t, inner) = outer.as_arr()?.first()?.as_tag()?;
    if t != 24 {
        return None;
    }
    let ib = inner.as_bytes()?;
    let it = vc::parse(ib).ok()?;
    let a = it.as_arr()?.get(1)?;
    Some(a.span(ib).to_vec())
}

const MAGICS: [u32; 14] = [764824073, 1097911063, 1, 2, 0, 23, 24, 42, 255, 256, 65535, 65536, u32::MAX, 633343913];

/// hashes different from `h` that a wrong implementation might sign instead
fn other_hashes(r: &mut Rng, h: &[u8]) -> Vec<(&'static str, Vec<u8>)> {
    let mut f = h.to_vec();
    if !f.is_empty() {
        let p = r.usize(f.len());
        f[p] ^= 1u8 << r.below(8);
    }
    let mut cb = vec![0x58, 0x20];
    cb.extend_from_slice(h);
    vec![
        ("bit-flipped-hash", f),
        ("hash-of-hash", blake2b256(h)),
        ("cbor-wrapped-hash", cb),
        ("hex-text-of-hash", vhex(h).into_bytes()),
        ("random-hash", r.bytes(32)),
    ]
}

fn check_witness_sig(ctx: &mut Ctx, r: &mut Rng, helper: &str, det: &dyn Fn() -> J, h: &[u8], vkey: &[u8], sig: &[u8]) -> bool {
    let mut ok = true;
    if !o_verify(h, vkey, sig) {
        ctx.violation(&format!("{}/signature-does-not-verify-over-hash-bytes", helper), det());
        ok = false;
    }
    for (class, h2) in other_hashes(r, h) {
        if o_verify(&h2, vkey, sig) {
            ctx.violation(&format!("{}/signature-verifies-over-other-data/{}", helper, class), with(det(), "other", json!(hx(&h2))));
            ok = false;
        }
    }
    ok
}

fn gen_hash(r: &mut Rng) -> Vec<u8> {
    match r.below(16) {
        0 => vec![0u8; 32],
        1 => vec![0xffu8; 32],
        _ => r.bytes(32),
    }
}

fn witness(ctx: &mut Ctx, r: &mut Rng, i: u64) {
    let _ = witness_inner(ctx, r, i);
}

fn witness_inner(ctx: &mut Ctx, r: &mut Rng, i: u64) -> Option<()> {
    let h = gen_hash(r);
    let d0 = || json!({"tx_hash": hx(&h)});
    let th = match call(ctx, "TransactionHash::from_bytes", &d0, || TransactionHash::from_bytes(h.clone()).map_err(es))? {
        Ok(t) => t,
        Err(e) => {
            ctor_err(ctx, "TransactionHash::from_bytes", "32-bytes", d0(), e);
            return None;
        }
    };
    match i % 4 {
        0 | 1 => {
            // make_vkey_witness with every private key kind
            let which = if i % 4 == 0 { 0 } else { 1 + r.below(5) };
            let kc = gen_key(ctx, r, which)?;
            ctx.eval();
            let kind = kc.kind;
            let det = || json!({"tx_hash": hx(&h), "kind": kind, "key": hx(&kc.raw), "want_vkey": hx(&kc.want_pk)});
            let w = call(ctx, "make_vkey_witness", &det, || make_vkey_witness(&th, &kc.sk))?;
            let (vk, sg, wb) = call(ctx, "Vkeywitness::getters", &det, || (w.vkey().public_key().as_bytes(), w.signature().to_bytes(), w.to_bytes()))?;
            let det = || with(with(det(), "vkey", json!(hx(&vk))), "sig", json!(hx(&sg)));
            let mut nt = kc.raw.clone();
            nt.extend_from_slice(&h);
            ctx.nontrivial_bytes("vkeywit", &nt);
            let mut ok = true;
            if vk[..] != kc.want_pk[..] {
                ctx.violation("make_vkey_witness/vkey-differs-from-public-key", det());
                ok = false;
            }
            ok &= check_witness_sig(ctx, r, "make_vkey_witness", &det, &h, &vk, &sg);
            // serialized form read by our own CBOR reader: [bytes(32) vkey, bytes(64) sig]
            let parsed = vc::parse(&wb).ok();
            let fields = parsed.as_ref().and_then(|p| p.as_arr()).map(|a| a.iter().map(|x| x.as_bytes().map(|b| b.to_vec())).collect::<Vec<_>>());
            if fields != Some(vec![Some(vk.clone()), Some(sg.clone())]) {
                ctx.violation("Vkeywitness::to_bytes/not-array-of-vkey-and-signature", with(det(), "bytes", json!(hx(&wb))));
                ok = false;
            }
            match call(ctx, "Vkeywitness::from_bytes", &det, || Vkeywitness::from_bytes(wb.clone()).map(|x| x.to_bytes()).map_err(es))? {
                Ok(b2) => {
                    if b2 != wb {
                        ctx.violation("Vkeywitness/bytes-round-trip-differs", with(det(), "bytes", json!(hx(&wb))));
                        ok = false;
                    }
                }
                Err(e) => {
                    ctx.violation("Vkeywitness::from_bytes/rejects-own-to_bytes", with(det(), "err", json!(e)));
                    ok = false;
                }
            }
            if ok {
                ctx.bucket("witness.vkey.ok");
                ctx.bucket(&format!("witness.vkey.key.{}", kind));
            }
            ctx.sample("witness.vkey", || det());
        }
        2 => {
            // make_icarus_bootstrap_witness
            let sh = shared(ctx);
            let root = &sh.roots[r.usize(sh.roots.len())];
            let depth = r.usize(6);
            let path: Vec<u32> = (0..depth).map(|_| gen_index(r, false).0).collect();
            let (l, o) = derive_both(ctx, &root.xprv, &path)?;
            ctx.eval();
            let oxpub = o.public();
            let oxpub_b: &[u8] = oxpub.as_ref();
            let want_vk = oxpub_b[0..32].to_vec();
            let want_cc = oxpub_b[32..64].to_vec();
            // address: built by the library from a key, or parsed from bytes we wrote ourselves
            let (addr, want_attrs, addr_kind): (ByronAddress, Vec<u8>, &'static str) = match r.below(3) {
                0 | 1 => {
                    let magic = match r.below(4) {
                        0 => 764824073,
                        1 => *r.pick(&MAGICS),
                        _ => r.u32(),
                    };
                    let own = r.bool();
                    let kb = if own { oxpub_b.to_vec() } else { r.bytes(64) };
                    let dk = || json!({"xpub": hx(&kb), "magic": magic});
                    let xp = match call(ctx, "Bip32PublicKey::from_bytes", &dk, || Bip32PublicKey::from_bytes(&kb).map_err(es))? {
                        Ok(x) => x,
                        Err(e) => {
                            ctor_err(ctx, "Bip32PublicKey::from_bytes", "64-bytes", dk(), e);
                            return None;
                        }
                    };
                    let a = call(ctx, "ByronAddress::icarus_from_key", &dk, || ByronAddress::icarus_from_key(&xp, magic))?;
                    let mainnet = guard(|| NetworkInfo::mainnet().protocol_magic()).unwrap_or(764824073);
                    let want = build_byron(&[0u8; 28], None, if magic == mainnet { None } else { Some(magic) }).1;
                    (a, want, if magic == mainnet { "icarus-mainnet" } else { "icarus-magic" })
                }
                _ => {
                    let payload = vc::to_vec(&vc::Item::bytes(&upto(r, 40)));
                    let magic = if r.bool() { None } else { Some(if r.bool() { *r.pick(&MAGICS) } else { r.u32() }) };
                    let (ab, attrs) = build_byron(&r.bytes(28), Some(&payload), magic);
                    let dk = || json!({"address_bytes": hx(&ab)});
                    match call(ctx, "ByronAddress::from_bytes", &dk, || ByronAddress::from_bytes(ab.clone()).map_err(es))? {
                        Ok(a) => (a, attrs, "parsed-with-derivation-path"),
                        Err(_) => {
                            ctx.bucket("skipped.own-byron-address-rejected");
                            return None;
                        }
                    }
                }
            };
            let ab = call(ctx, "ByronAddress::to_bytes", &d0, || addr.to_bytes())?;
            let det = || json!({"tx_hash": hx(&h), "root_xprv": hx(&root.xprv), "path": path, "address_bytes": hx(&ab), "want_vkey": hx(&want_vk), "want_chain_code": hx(&want_cc), "want_attributes": hx(&want_attrs)});
            let w = call(ctx, "make_icarus_bootstrap_witness", &det, || make_icarus_bootstrap_witness(&th, &addr, &l))?;
            let ok = check_bootstrap(ctx, r, "make_icarus_bootstrap_witness", &det, &w, &h, &want_vk, &want_cc, &want_attrs, &ab)?;
            let mut nt = o.as_ref().to_vec();
            nt.extend_from_slice(&h);
            nt.extend_from_slice(&ab);
            ctx.nontrivial_bytes("icarus", &nt);
            if ok {
                ctx.bucket("witness.icarus.ok");
                ctx.bucket(&format!("witness.icarus.addr.{}", addr_kind));
            }
            ctx.sample("witness.icarus", || det());
        }
        _ => {
            // make_daedalus_bootstrap_witness: root keys made from seeds by the Daedalus procedure
            let slen = if r.bool() { 32 } else { 1 + r.usize(64) };
            let seed = r.bytes(slen);
            let mut kb = o_daedalus_root(&seed);
            // keys derived with the legacy (V1) scheme are not constrained in their third-highest scalar
            // bit - the reason this key type exists: half of the cases carry it set
            if r.bool() {
                kb[31] |= 0x20;
                ctx.bucket("witness.daedalus.third-highest-bit-set");
            }
            ctx.eval();
            let want_vk = ced::extended_to_public(&a64(&kb[0..64])?).to_vec();
            let want_cc = kb[64..96].to_vec();
            let payload = vc::to_vec(&vc::Item::bytes(&upto(r, 40)));
            let magic = if r.bool() { None } else { Some(if r.bool() { *r.pick(&MAGICS) } else { r.u32() }) };
            let (ab, want_attrs) = build_byron(&r.bytes(28), if r.chance(3, 4) { Some(&payload) } else { None }, magic);
            let det = || json!({"tx_hash": hx(&h), "seed": hx(&seed), "daedalus_key": hx(&kb), "address_bytes": hx(&ab), "want_vkey": hx(&want_vk), "want_attributes": hx(&want_attrs)});
            let key = match call(ctx, "LegacyDaedalusPrivateKey::from_bytes", &det, || LegacyDaedalusPrivateKey::from_bytes(&kb).map_err(es))? {
                Ok(k) => k,
                Err(e) => {
                    ctor_err(ctx, "LegacyDaedalusPrivateKey::from_bytes", "96-bytes", det(), e);
                    return None;
                }
            };
            let (kbytes, kcc) = call(ctx, "LegacyDaedalusPrivateKey::as_bytes", &det, || (key.as_bytes(), key.chaincode()))?;
            if kbytes[..] != kb[..] || kcc[..] != kb[64..96] {
                ctx.violation("LegacyDaedalusPrivateKey/bytes-round-trip-differs", det());
            }
            let addr = match call(ctx, "ByronAddress::from_bytes", &det, || ByronAddress::from_bytes(ab.clone()).map_err(es))? {
                Ok(a) => a,
                Err(_) => {
                    ctx.bucket("skipped.own-byron-address-rejected");
                    return None;
                }
            };
            let w = call(ctx, "make_daedalus_bootstrap_witness", &det, || make_daedalus_bootstrap_witness(&th, &addr, &key))?;
            let ok = check_bootstrap(ctx, r, "make_daedalus_bootstrap_witness", &det, &w, &h, &want_vk, &want_cc, &want_attrs, &ab)?;
            let mut nt = kb.to_vec();
            nt.extend_from_slice(&h);
            nt.extend_from_slice(&ab);
            ctx.nontrivial_bytes("daedalus", &nt);
            if ok {
                ctx.bucket("witness.daedalus.ok");
            }
            ctx.sample("witness.daedalus", || det());
            // informational: arbitrary 96 bytes are accepted as a legacy key (no structure check by design)
            if i % 8 == 3 {
                let raw = r.bytes(96);
                if let Ok(Ok(k2)) = guard(|| LegacyDaedalusPrivateKey::from_bytes(&raw)) {
                    match guard(|| {
                        let w = make_daedalus_bootstrap_witness(&th, &addr, &k2);
                        (w.vkey().public_key().as_bytes(), w.signature().to_bytes())
                    }) {
                        Ok((vk, sg)) => ctx.bucket(&format!("info.unclamped-daedalus.bit255-{}.verify-{}", raw[31] >> 7, if o_verify(&h, &vk, &sg) { "ok" } else { "fail" })),
                        // whether such a signature verifies is informational; that the helper RETURNS for a key the
                        // constructor accepted is not
                        Err(p) => ctx.violation(&format!("make_daedalus_bootstrap_witness/{}", p.sig()), json!({"daedalus_key": hx(&raw), "note": "LegacyDaedalusPrivateKey::from_bytes accepted these 96 bytes"})),
                    }
                }
            }
        }
    }
    Some(())
}

#[allow(clippy::too_many_arguments)]
fn check_bootstrap(ctx: &mut Ctx, r: &mut Rng, helper: &str, det: &dyn Fn() -> J, w: &BootstrapWitness, h: &[u8], want_vk: &[u8], want_cc: &[u8], want_attrs: &[u8], addr_bytes: &[u8]) -> Option<bool> {
    let (vk, sg, cc, at, wb) = call(ctx, "BootstrapWitness::getters", det, || (w.vkey().public_key().as_bytes(), w.signature().to_bytes(), w.chain_code(), w.attributes(), w.to_bytes()))?;
    let det2 = || with(with(with(with(det(), "vkey", json!(hx(&vk))), "sig", json!(hx(&sg))), "chain_code", json!(hx(&cc))), "attributes", json!(hx(&at)));
    let mut ok = true;
    if vk[..] != want_vk[..] {
        ctx.violation(&format!("{}/vkey-differs-from-public-key", helper), det2());
        ok = false;
    }
    if cc[..] != want_cc[..] {
        ctx.violation(&format!("{}/chain-code-differs-from-key", helper), det2());
        ok = false;
    }
    if at[..] != want_attrs[..] {
        ctx.violation(&format!("{}/attributes-differ-from-address-attributes", helper), det2());
        ok = false;
    }
    match extract_attrs(addr_bytes) {
        Some(x) => {
            if x != at {
                ctx.violation(&format!("{}/attributes-differ-from-serialized-address", helper), with(det2(), "in_address", json!(hx(&x))));
                ok = false;
            }
        }
        None => ctx.bucket("skipped.address-bytes-not-readable"),
    }
    ok &= check_witness_sig(ctx, r, helper, &det2, h, &vk, &sg);
    // serialized form: [vkey, signature, chain code, attributes] as byte strings
    let parsed = vc::parse(&wb).ok();
    let fields = parsed.as_ref().and_then(|p| p.as_arr()).map(|a| a.iter().map(|x| x.as_bytes().map(|b| b.to_vec())).collect::<Vec<_>>());
    if fields != Some(vec![Some(vk.clone()), Some(sg.clone()), Some(cc.clone()), Some(at.clone())]) {
        ctx.violation("BootstrapWitness::to_bytes/not-array-of-four-fields", with(det2(), "bytes", json!(hx(&wb))));
        ok = false;
    }
    match call(ctx, "BootstrapWitness::from_bytes", &det2, || BootstrapWitness::from_bytes(wb.clone()).map(|x| x.to_bytes()).map_err(es))? {
        Ok(b2) => {
            if b2 != wb {
                ctx.violation("BootstrapWitness/bytes-round-trip-differs", with(det2(), "bytes", json!(hx(&wb))));
                ok = false;
            }
        }
        Err(e) => {
            ctx.violation("BootstrapWitness::from_bytes/rejects-own-to_bytes", with(det2(), "err", json!(e)));
            ok = false;
        }
    }
    Some(ok)
}

// ------------------------------------------------------------------------------------------------
// 3. derivation

fn derive(ctx: &mut Ctx, r: &mut Rng, i: u64) {
    let _ = derive_inner(ctx, r, i);
}

fn derive_inner(ctx: &mut Ctx, r: &mut Rng, i: u64) -> Option<()> {
    let sh = shared(ctx);
    let root = &sh.roots[(i % RING as u64) as usize];
    let depth = 1 + ((i / RING as u64) % 6) as usize;
    let soft_bias = (i / 36) % 2 == 0;
    let mut path: Vec<u32> = Vec::new();
    let mut classes: Vec<&'static str> = Vec::new();
    for _ in 0..depth {
        let (ix, c) = gen_index(r, soft_bias);
        path.push(ix);
        classes.push(c);
    }
    let det = || json!({"entropy": hx(&root.entropy), "password": hx(&root.password), "root_xprv": hx(&root.xprv), "path": path});
    let mut o_prv = match eb::XPrv::from_bytes_verified(root.xprv) {
        Ok(o) => o,
        Err(_) => {
            ctx.bucket("skipped.reference-rejects-root");
            return None;
        }
    };
    let mut l_prv = match call(ctx, "Bip32PrivateKey::from_bytes", &det, || Bip32PrivateKey::from_bytes(&root.xprv).map_err(es))? {
        Ok(l) => l,
        Err(e) => {
            ctor_err(ctx, "Bip32PrivateKey::from_bytes", "valid-root", det(), e);
            return None;
        }
    };
    // public-only chain from the root's public key, alive while every index so far is soft
    let mut l_parent_pub = call(ctx, "Bip32PrivateKey::to_public", &det, || l_prv.to_public())?;
    let mut chain: Option<Bip32PublicKey> = Some(call(ctx, "Bip32PrivateKey::to_public", &det, || l_prv.to_public())?);
    {
        let ob = o_prv.public();
        let lb = call(ctx, "Bip32PublicKey::as_bytes", &det, || l_parent_pub.as_bytes())?;
        if lb[..] != ob.as_ref()[..] {
            ctx.violation("Bip32PrivateKey::to_public/differs-from-ed25519-bip32", with(det(), "at_depth", json!(0)));
            return None;
        }
    }
    let mut nt = root.xprv.to_vec();
    for (d, (&ix, &class)) in path.iter().zip(classes.iter()).enumerate() {
        ctx.eval();
        nt.extend_from_slice(&ix.to_le_bytes());
        ctx.nontrivial_bytes("derive", &nt);
        let soft = ix < HARD;
        let dd = || with(with(det(), "at_depth", json!(d + 1)), "index", json!(ix));
        ctx.bucket(&format!("index.{}", class));
        // private child, against the reference
        let l_child = call(ctx, "Bip32PrivateKey::derive", &dd, || l_prv.derive(ix))?;
        let o_child = o_prv.derive(eb::DerivationScheme::V2, ix);
        let lcb = call(ctx, "Bip32PrivateKey::as_bytes", &dd, || l_child.as_bytes())?;
        if lcb[..] != o_child.as_ref()[..] {
            ctx.violation(&format!("Bip32PrivateKey::derive/differs-from-ed25519-bip32/{}", if soft { "soft" } else { "hardened" }), with(with(dd(), "got", json!(hx(&lcb))), "want", json!(hx(o_child.as_ref()))));
            return None;
        }
        // child public key, against the reference
        let l_child_pub = call(ctx, "Bip32PrivateKey::to_public", &dd, || l_child.to_public())?;
        let lcpb = call(ctx, "Bip32PublicKey::as_bytes", &dd, || l_child_pub.as_bytes())?;
        let o_child_pub = o_child.public();
        if lcpb[..] != o_child_pub.as_ref()[..] {
            ctx.violation("Bip32PrivateKey::to_public/differs-from-ed25519-bip32", with(with(dd(), "got", json!(hx(&lcpb))), "want", json!(hx(o_child_pub.as_ref()))));
            return None;
        }
        // public derivation from the parent's public key
        let res = call(ctx, "Bip32PublicKey::derive", &dd, || l_parent_pub.derive(ix).map(|p| p.as_bytes()).map_err(es))?;
        let o_res = o_prv.public().derive(eb::DerivationScheme::V2, ix);
        if soft {
            match res {
                Ok(pb) => {
                    let mut good = true;
                    if pb != lcpb {
                        ctx.violation("Bip32PublicKey::derive/soft-derivation-does-not-commute-with-to_public", with(with(dd(), "pub_of_child", json!(hx(&lcpb))), "child_of_pub", json!(hx(&pb))));
                        good = false;
                    }
                    match &o_res {
                        Ok(op) => {
                            if pb[..] != op.as_ref()[..] {
                                ctx.violation("Bip32PublicKey::derive/differs-from-ed25519-bip32", with(dd(), "got", json!(hx(&pb))));
                                good = false;
                            }
                        }
                        Err(_) => ctx.bucket("skipped.reference-refuses-soft-index"),
                    }
                    if good {
                        ctx.bucket("derive.soft-commutes");
                    }
                }
                Err(e) => ctx.violation("Bip32PublicKey::derive/spurious-error/soft-index", with(dd(), "err", json!(e))),
            }
        } else {
            match res {
                Ok(pb) => ctx.violation("Bip32PublicKey::derive/hardened-index-accepted", with(dd(), "got", json!(hx(&pb)))),
                Err(_) => {
                    ctx.bucket("derive.hard-pub-refused");
                    if o_res.is_ok() {
                        ctx.bucket("skipped.reference-accepts-hardened-index");
                    }
                }
            }
        }
        // whole-path public chain
        chain = match (chain, soft) {
            (Some(c), true) => match call(ctx, "Bip32PublicKey::derive", &dd, || c.derive(ix).map_err(es))? {
                Ok(n) => {
                    let nb = call(ctx, "Bip32PublicKey::as_bytes", &dd, || n.as_bytes())?;
                    if nb != lcpb {
                        ctx.violation("Bip32PublicKey::derive/public-path-differs-from-private-path", with(dd(), "got", json!(hx(&nb))));
                        None
                    } else {
                        ctx.bucket(&format!("derive.public-path-agrees.depth.{}", d + 1));
                        Some(n)
                    }
                }
                Err(_) => None,
            },
            _ => None,
        };
        ctx.bucket(&format!("path.depth.{}", d + 1));
        l_prv = l_child;
        o_prv = o_child;
        l_parent_pub = l_child_pub;
    }
    // the leaf key signs and the signature verifies under the leaf public key (reference bytes)
    let msg = upto(r, 200);
    let leaf_pub = o_prv.public();
    let sg = call(ctx, "PrivateKey::sign", &det, || l_prv.to_raw_key().sign(&msg).to_bytes())?;
    if !o_verify(&msg, &leaf_pub.as_ref()[0..32], &sg) {
        ctx.violation("PrivateKey::sign/rejected-by-cryptoxide-verify/derived-leaf", with(with(det(), "msg", json!(hx(&msg))), "sig", json!(hx(&sg))));
    } else {
        ctx.bucket("derive.leaf-signature-verified");
    }
    ctx.sample("derive", || with(det(), "leaf_xpub", json!(hx(leaf_pub.as_ref()))));
    Some(())
}

// ------------------------------------------------------------------------------------------------
// 4. encodings

#[derive(Clone, Copy, PartialEq, Debug)]
enum K {
    SkN,
    SkE,
    Pk,
    Xprv,
    Xpub,
    Sig,
}
const KS: [K; 6] = [K::SkN, K::SkE, K::Pk, K::Xprv, K::Xpub, K::Sig];
/// HRPs that are foreign to at least one of the types
const HRPS: [&str; 12] = ["ed25519_sk", "ed25519e_sk", "ed25519_pk", "xprv", "xpub", "ed25519_sig", "xsig", "legacy_xprv", "legacy_xpub", "addr", "ed25519_skx", "x"];

impl K {
    fn ty(self) -> &'static str {
        match self {
            K::SkN | K::SkE => "PrivateKey",
            K::Pk => "PublicKey",
            K::Xprv => "Bip32PrivateKey",
            K::Xpub => "Bip32PublicKey",
            K::Sig => "Ed25519Signature",
        }
    }
    fn kind(self) -> &'static str {
        match self {
            K::SkN => "PrivateKey(normal)",
            K::SkE => "PrivateKey(extended)",
            _ => self.ty(),
        }
    }
    fn hrp(self) -> &'static str {
        match self {
            K::SkN => "ed25519_sk",
            K::SkE => "ed25519e_sk",
            K::Pk => "ed25519_pk",
            K::Xprv => "xprv",
            K::Xpub => "xpub",
            K::Sig => "ed25519_sig",
        }
    }
    fn len(self) -> usize {
        match self {
            K::SkN | K::Pk => 32,
            K::SkE | K::Xpub | K::Sig => 64,
            K::Xprv => 96,
        }
    }
    fn from_raw_name(self) -> &'static str {
        match self {
            K::SkN => "from_normal_bytes",
            K::SkE => "from_extended_bytes",
            _ => "from_bytes",
        }
    }
    /// make `b` (of the right length) structurally valid for this kind
    fn fix(self, b: &mut [u8]) {
        match self {
            K::SkE | K::Xprv => clamp_ed(b),
            _ => {}
        }
    }
    fn gen(self, r: &mut Rng) -> Vec<u8> {
        let n = self.len();
        let mut b = match r.below(24) {
            0 => vec![0u8; n],
            1 => vec![0xffu8; n],
            _ => r.bytes(n),
        };
        self.fix(&mut b);
        b
    }
}

enum Obj {
    Sk(PrivateKey),
    Pk(PublicKey),
    Xprv(Bip32PrivateKey),
    Xpub(Bip32PublicKey),
    Sig(Ed25519Signature),
}
impl Obj {
    fn bytes(&self) -> Vec<u8> {
        match self {
            Obj::Sk(k) => k.as_bytes(),
            Obj::Pk(k) => k.as_bytes(),
            Obj::Xprv(k) => k.as_bytes(),
            Obj::Xpub(k) => k.as_bytes(),
            Obj::Sig(k) => k.to_bytes(),
        }
    }
    fn hex(&self) -> String {
        match self {
            Obj::Sk(k) => k.to_hex(),
            Obj::Pk(k) => k.to_hex(),
            Obj::Xprv(k) => k.to_hex(),
            Obj::Xpub(k) => k.to_hex(),
            Obj::Sig(k) => k.to_hex(),
        }
    }
    fn bech32(&self) -> String {
        match self {
            Obj::Sk(k) => k.to_bech32(),
            Obj::Pk(k) => k.to_bech32(),
            Obj::Xprv(k) => k.to_bech32(),
            Obj::Xpub(k) => k.to_bech32(),
            Obj::Sig(k) => k.to_bech32(),
        }
    }
}
fn k_from_raw(k: K, b: &[u8]) -> Result<Obj, String> {
    match k {
        K::SkN => PrivateKey::from_normal_bytes(b).map(Obj::Sk).map_err(es),
        K::SkE => PrivateKey::from_extended_bytes(b).map(Obj::Sk).map_err(es),
        K::Pk => PublicKey::from_bytes(b).map(Obj::Pk).map_err(es),
        K::Xprv => Bip32PrivateKey::from_bytes(b).map(Obj::Xprv).map_err(es),
        K::Xpub => Bip32PublicKey::from_bytes(b).map(Obj::Xpub).map_err(es),
        K::Sig => Ed25519Signature::from_bytes(b.to_vec()).map(Obj::Sig).map_err(es),
    }
}
fn k_from_hex(k: K, s: &str) -> Result<Obj, String> {
    match k {
        K::SkN | K::SkE => PrivateKey::from_hex(s).map(Obj::Sk).map_err(es),
        K::Pk => PublicKey::from_hex(s).map(Obj::Pk).map_err(es),
        K::Xprv => Bip32PrivateKey::from_hex(s).map(Obj::Xprv).map_err(es),
        K::Xpub => Bip32PublicKey::from_hex(s).map(Obj::Xpub).map_err(es),
        K::Sig => Ed25519Signature::from_hex(s).map(Obj::Sig).map_err(es),
    }
}
fn k_from_bech32(k: K, s: &str) -> Result<Obj, String> {
    match k {
        K::SkN | K::SkE => PrivateKey::from_bech32(s).map(Obj::Sk).map_err(es),
        K::Pk => PublicKey::from_bech32(s).map(Obj::Pk).map_err(es),
        K::Xprv => Bip32PrivateKey::from_bech32(s).map(Obj::Xprv).map_err(es),
        K::Xpub => Bip32PublicKey::from_bech32(s).map(Obj::Xpub).map_err(es),
        K::Sig => Ed25519Signature::from_bech32(s).map(Obj::Sig).map_err(es),
    }
}

/// decode through a text constructor and hand back (bytes, bech32 form) of what was built
fn reparse(ctx: &mut Ctx, entry: &str, det: &dyn Fn() -> J, f: impl FnOnce() -> Result<Obj, String>) -> Option<Result<(Vec<u8>, String), String>> {
    call(ctx, entry, det, || f().map(|o| (o.bytes(), o.bech32())))
}

fn enc_key(ctx: &mut Ctx, r: &mut Rng, k: K) -> Option<()> {
    ctx.eval();
    let raw = k.gen(r);
    let ty = k.ty();
    let det = || json!({"type": k.kind(), "raw": hx(&raw)});
    let e_raw = format!("{}::{}", ty, k.from_raw_name());
    let obj = match call(ctx, &e_raw, &det, || k_from_raw(k, &raw))? {
        Ok(o) => o,
        Err(e) => {
            ctor_err(ctx, &e_raw, "valid-input", det(), e);
            return None;
        }
    };
    ctx.nontrivial_bytes(k.kind(), &raw);
    let mut ok = true;
    // raw bytes
    let b = call(ctx, &format!("{}::as_bytes", ty), &det, || obj.bytes())?;
    if b != raw {
        ctx.violation(&format!("{}/bytes-round-trip-differs", ty), with(det(), "got", json!(hx(&b))));
        ok = false;
    }
    // hex
    let h = call(ctx, &format!("{}::to_hex", ty), &det, || obj.hex())?;
    if h != vhex(&raw) {
        ctx.violation(&format!("{}::to_hex/differs-from-own-hex", ty), with(det(), "got", json!(h)));
        ok = false;
    }
    match reparse(ctx, &format!("{}::from_hex", ty), &det, || k_from_hex(k, &h))? {
        Ok((b2, s2)) => {
            if b2 != raw {
                ctx.violation(&format!("{}/hex-round-trip-differs", ty), with(det(), "got", json!(hx(&b2))));
                ok = false;
            } else if bech32_decode(&s2).map(|x| x.0).ok().as_deref() != Some(k.hrp()) {
                ctx.violation(&format!("{}/hex-round-trip-changes-key-kind", ty), with(det(), "bech32_after", json!(s2)));
                ok = false;
            }
        }
        Err(e) => {
            ctx.violation(&format!("{}::from_hex/rejects-own-to_hex", ty), with(det(), "err", json!(e)));
            ok = false;
        }
    }
    // Bech32
    let s = call(ctx, &format!("{}::to_bech32", ty), &det, || obj.bech32())?;
    let ds = || with(det(), "bech32", json!(s));
    match bech32_decode(&s) {
        Ok((hrp, payload)) => {
            ctx.bucket(&format!("hrp.{}", hrp));
            if hrp != k.hrp() {
                ctx.violation(&format!("{}::to_bech32/undocumented-hrp", ty), ds());
                ok = false;
            }
            if payload != raw {
                ctx.violation(&format!("{}::to_bech32/payload-differs-from-raw-bytes", ty), ds());
                ok = false;
            }
        }
        Err(e) => {
            ctx.violation(&format!("{}::to_bech32/not-valid-bech32/{:?}", ty, e), ds());
            ok = false;
        }
    }
    match reparse(ctx, &format!("{}::from_bech32", ty), &ds, || k_from_bech32(k, &s))? {
        Ok((b2, s2)) => {
            if b2 != raw || s2 != s {
                ctx.violation(&format!("{}/bech32-round-trip-differs", ty), with(ds(), "got", json!(hx(&b2))));
                ok = false;
            }
        }
        Err(e) => {
            ctx.violation(&format!("{}::from_bech32/rejects-own-to_bech32", ty), with(ds(), "err", json!(e)));
            ok = false;
        }
    }
    // the same payload under an HRP that is not this kind's
    for _ in 0..2 {
        let foreign = *r.pick(&HRPS);
        if foreign == k.hrp() {
            continue;
        }
        let fs = bech32_encode(foreign, &raw);
        let df = || with(with(det(), "foreign_hrp", json!(foreign)), "bech32", json!(fs));
        match reparse(ctx, &format!("{}::from_bech32", ty), &df, || k_from_bech32(k, &fs))? {
            Ok((b2, s2)) => {
                ctx.violation(&format!("{}::from_bech32/foreign-hrp-accepted", ty), with(with(df(), "decoded", json!(hx(&b2))), "re_encoded", json!(s2)));
                ok = false;
            }
            Err(_) => ctx.bucket("foreign-hrp.refused"),
        }
    }
    // the all-uppercase form is the same Bech32 string (BIP-173): either refused or the same value
    if r.chance(1, 8) {
        let us = s.to_ascii_uppercase();
        let du = || with(det(), "bech32", json!(us));
        match reparse(ctx, &format!("{}::from_bech32", ty), &du, || k_from_bech32(k, &us))? {
            Ok((b2, _)) => {
                ctx.bucket("bech32.uppercase.accepted");
                if b2 != raw {
                    ctx.violation(&format!("{}::from_bech32/uppercase-form-decodes-to-other-bytes", ty), du());
                    ok = false;
                }
            }
            Err(_) => ctx.bucket("bech32.uppercase.refused"),
        }
    }
    // 128-byte extended form
    if let Obj::Xprv(x) = &obj {
        let want_pub = ced::extended_to_public(&a64(&raw[0..64])?);
        let mut want = raw[0..64].to_vec();
        want.extend_from_slice(&want_pub);
        want.extend_from_slice(&raw[64..96]);
        let x128 = call(ctx, "Bip32PrivateKey::to_128_xprv", &det, || x.to_128_xprv())?;
        let d128 = || with(det(), "xprv128", json!(hx(&x128)));
        let mut ok128 = true;
        if x128 != want {
            ctx.violation("Bip32PrivateKey::to_128_xprv/not-prv-pub-chaincode", with(d128(), "want", json!(hx(&want))));
            ok128 = false;
        }
        match call(ctx, "Bip32PrivateKey::from_128_xprv", &d128, || Bip32PrivateKey::from_128_xprv(&x128).map(|y| y.as_bytes()).map_err(es))? {
            Ok(b2) => {
                if b2 != raw {
                    ctx.violation("Bip32PrivateKey/128-xprv-round-trip-differs", with(d128(), "got", json!(hx(&b2))));
                    ok128 = false;
                }
            }
            Err(e) => {
                ctx.violation("Bip32PrivateKey::from_128_xprv/rejects-own-to_128_xprv", with(d128(), "err", json!(e)));
                ok128 = false;
            }
        }
        let (cc, pubb) = call(ctx, "Bip32PrivateKey::chaincode", &det, || (x.chaincode(), x.to_public().as_bytes()))?;
        if cc[..] != raw[64..96] || pubb[0..32] != want_pub[..] || pubb[32..64] != raw[64..96] {
            ctx.violation("Bip32PrivateKey/chaincode-or-public-differs-from-layout", det());
            ok128 = false;
        }
        if ok128 {
            ctx.bucket("xprv128.roundtrip-ok");
        }
        ok &= ok128;
    }
    if let Obj::Xpub(x) = &obj {
        let (cc, rk) = call(ctx, "Bip32PublicKey::chaincode", &det, || (x.chaincode(), x.to_raw_key().as_bytes()))?;
        if cc[..] != raw[32..64] || rk[..] != raw[0..32] {
            ctx.violation("Bip32PublicKey/chaincode-or-raw-key-differs-from-layout", det());
            ok = false;
        }
    }
    if ok {
        ctx.bucket(&format!("enc.{}.all-forms-ok", k.kind()));
    }
    ctx.sample("encoding", || with(with(det(), "hex", json!(h)), "bech32", json!(s)));
    Some(())
}

/// the raw-bytes "hash style" types that carry keys (VRF / KES verification keys, key hashes)
trait HashLike: Sized {
    const NAME: &'static str;
    const LEN: usize;
    fn fb(b: Vec<u8>) -> Result<Self, String>;
    fn tb(&self) -> Vec<u8>;
    fn th(&self) -> String;
    fn fh(s: &str) -> Result<Self, String>;
    fn tbech(&self, p: &str) -> Result<String, String>;
    fn fbech(s: &str) -> Result<Self, String>;
}
macro_rules! hash_like {
    ($t:ident, $n:expr) => {
        impl HashLike for $t {
            const NAME: &'static str = stringify!($t);
            const LEN: usize = $n;
            fn fb(b: Vec<u8>) -> Result<Self, String> {
                $t::from_bytes(b).map_err(es)
            }
            fn tb(&self) -> Vec<u8> {
                self.to_bytes()
            }
            fn th(&self) -> String {
                self.to_hex()
            }
            fn fh(s: &str) -> Result<Self, String> {
                $t::from_hex(s).map_err(es)
            }
            fn tbech(&self, p: &str) -> Result<String, String> {
                self.to_bech32(p).map_err(es)
            }
            fn fbech(s: &str) -> Result<Self, String> {
                $t::from_bech32(s).map_err(es)
            }
        }
    };
}
hash_like!(Ed25519KeyHash, 28);
hash_like!(VRFVKey, 32);
hash_like!(KESVKey, 32);
hash_like!(TransactionHash, 32);

fn enc_hash<T: HashLike>(ctx: &mut Ctx, r: &mut Rng, prefix: &str) -> Option<()> {
    ctx.eval();
    let raw = r.bytes(T::LEN);
    let ty = T::NAME;
    let det = || json!({"type": ty, "raw": hx(&raw), "prefix": prefix});
    let obj = match call(ctx, &format!("{}::from_bytes", ty), &det, || T::fb(raw.clone()))? {
        Ok(o) => o,
        Err(e) => {
            ctor_err(ctx, &format!("{}::from_bytes", ty), "valid-input", det(), e);
            return None;
        }
    };
    ctx.nontrivial_bytes(ty, &raw);
    let mut ok = true;
    let (b, h, s) = call(ctx, &format!("{}::encoders", ty), &det, || (obj.tb(), obj.th(), obj.tbech(prefix)))?;
    if b != raw {
        ctx.violation(&format!("{}/bytes-round-trip-differs", ty), det());
        ok = false;
    }
    if h != vhex(&raw) {
        ctx.violation(&format!("{}::to_hex/differs-from-own-hex", ty), with(det(), "got", json!(h)));
        ok = false;
    }
    match call(ctx, &format!("{}::from_hex", ty), &det, || T::fh(&h).map(|x| x.tb()))? {
        Ok(b2) if b2 == raw => {}
        other => {
            ctx.violation(&format!("{}/hex-round-trip-differs", ty), with(det(), "got", json!(format!("{:?}", other))));
            ok = false;
        }
    }
    match s {
        Ok(s) => {
            let ds = || with(det(), "bech32", json!(s));
            match bech32_decode(&s) {
                Ok((hrp, payload)) if hrp == prefix && payload == raw => {}
                other => {
                    ctx.violation(&format!("{}::to_bech32/own-decoder-disagrees", ty), with(ds(), "own", json!(format!("{:?}", other))));
                    ok = false;
                }
            }
            match call(ctx, &format!("{}::from_bech32", ty), &ds, || T::fbech(&s).map(|x| x.tb()))? {
                Ok(b2) if b2 == raw => {}
                other => {
                    ctx.violation(&format!("{}/bech32-round-trip-differs", ty), with(ds(), "got", json!(format!("{:?}", other))));
                    ok = false;
                }
            }
        }
        Err(e) => {
            ctx.violation(&format!("{}::to_bech32/spurious-error", ty), with(det(), "err", json!(e)));
            ok = false;
        }
    }
    if ok {
        ctx.bucket(&format!("enc.{}.all-forms-ok", ty));
    }
    Some(())
}

fn enc_vkey(ctx: &mut Ctx, r: &mut Rng) -> Option<()> {
    ctx.eval();
    let raw = r.bytes(32);
    let det = || json!({"type": "Vkey", "raw": hx(&raw)});
    let pk = match call(ctx, "PublicKey::from_bytes", &det, || PublicKey::from_bytes(&raw).map_err(es))? {
        Ok(p) => p,
        Err(e) => {
            ctor_err(ctx, "PublicKey::from_bytes", "valid-input", det(), e);
            return None;
        }
    };
    ctx.nontrivial_bytes("Vkey", &raw);
    let vk = call(ctx, "Vkey::new", &det, || Vkey::new(&pk))?;
    let (b, h, j) = call(ctx, "Vkey::encoders", &det, || (vk.to_bytes(), vk.to_hex(), vk.to_json().map_err(es)))?;
    let mut want = vec![0x58, 0x20];
    want.extend_from_slice(&raw);
    let mut ok = true;
    if b != want {
        ctx.violation("Vkey::to_bytes/not-cbor-byte-string-of-key", with(det(), "got", json!(hx(&b))));
        ok = false;
    }
    if h != vhex(&want) {
        ctx.violation("Vkey::to_hex/differs-from-own-hex", with(det(), "got", json!(h)));
        ok = false;
    }
    match call(ctx, "Vkey::from_bytes", &det, || Vkey::from_bytes(b.clone()).map(|v| v.public_key().as_bytes()).map_err(es))? {
        Ok(b2) if b2 == raw => {}
        other => {
            ctx.violation("Vkey/bytes-round-trip-differs", with(det(), "got", json!(format!("{:?}", other))));
            ok = false;
        }
    }
    match call(ctx, "Vkey::from_hex", &det, || Vkey::from_hex(&h).map(|v| v.public_key().as_bytes()).map_err(es))? {
        Ok(b2) if b2 == raw => {}
        other => {
            ctx.violation("Vkey/hex-round-trip-differs", with(det(), "got", json!(format!("{:?}", other))));
            ok = false;
        }
    }
    match j {
        Ok(js) => {
            // JSON form is the Bech32 public key as a string
            let inner: Option<String> = serde_json::from_str::<J>(&js).ok().and_then(|v| v.as_str().map(|s| s.to_string()));
            match inner.as_deref().map(bech32_decode) {
                Some(Ok((hrp, payload))) if hrp == "ed25519_pk" && payload == raw => {}
                other => {
                    ctx.violation("Vkey::to_json/not-bech32-public-key-string", with(det(), "json", json!(format!("{} / {:?}", js, other))));
                    ok = false;
                }
            }
            match call(ctx, "Vkey::from_json", &det, || Vkey::from_json(&js).map(|v| v.public_key().as_bytes()).map_err(es))? {
                Ok(b2) if b2 == raw => {}
                other => {
                    ctx.violation("Vkey/json-round-trip-differs", with(det(), "got", json!(format!("{:?}", other))));
                    ok = false;
                }
            }
        }
        Err(e) => {
            ctx.violation("Vkey::to_json/spurious-error", with(det(), "err", json!(e)));
            ok = false;
        }
    }
    if ok {
        ctx.bucket("enc.Vkey.all-forms-ok");
    }
    Some(())
}

fn enc_kes(ctx: &mut Ctx, r: &mut Rng) -> Option<()> {
    ctx.eval();
    let raw = r.bytes(448);
    let det = || json!({"type": "KESSignature", "raw": hx(&raw)});
    match call(ctx, "KESSignature::from_bytes", &det, || KESSignature::from_bytes(raw.clone()).map(|k| k.to_bytes()).map_err(es))? {
        Ok(b) if b == raw => ctx.bucket("enc.KESSignature.all-forms-ok"),
        other => ctx.violation("KESSignature/bytes-round-trip-differs", with(det(), "got", json!(format!("{:?}", other)))),
    }
    ctx.nontrivial_bytes("KESSignature", &raw);
    Some(())
}

fn enc_legacy(ctx: &mut Ctx, r: &mut Rng) -> Option<()> {
    ctx.eval();
    let raw = if r.bool() { o_daedalus_root(&r.bytes(32)).to_vec() } else { r.bytes(96) };
    let det = || json!({"type": "LegacyDaedalusPrivateKey", "raw": hx(&raw)});
    match call(ctx, "LegacyDaedalusPrivateKey::from_bytes", &det, || LegacyDaedalusPrivateKey::from_bytes(&raw).map(|k| (k.as_bytes(), k.chaincode())).map_err(es))? {
        Ok((b, cc)) if b == raw && cc[..] == raw[64..96] => ctx.bucket("enc.LegacyDaedalusPrivateKey.all-forms-ok"),
        other => ctx.violation("LegacyDaedalusPrivateKey/bytes-round-trip-differs", with(det(), "got", json!(format!("{:?}", other)))),
    }
    ctx.nontrivial_bytes("LegacyDaedalusPrivateKey", &raw);
    Some(())
}

fn encodings(ctx: &mut Ctx, r: &mut Rng, i: u64) {
    let _ = match i % 16 {
        0..=11 => enc_key(ctx, r, KS[(i % 6) as usize]),
        12 => enc_vkey(ctx, r),
        13 => match (i / 16) % 4 {
            0 => {
                let prefix = ["addr_vkh", "stake_vkh", "pool", "drep"][r.usize(4)];
                enc_hash::<Ed25519KeyHash>(ctx, r, prefix)
            }
            1 => enc_hash::<VRFVKey>(ctx, r, "vrf_vk"),
            2 => enc_hash::<KESVKey>(ctx, r, "kes_vk"),
            _ => enc_hash::<TransactionHash>(ctx, r, "tx"),
        },
        14 => enc_legacy(ctx, r),
        _ => {
            if (i / 16) % 8 == 0 {
                enc_kes(ctx, r)
            } else {
                enc_key(ctx, r, K::Xprv)
            }
        }
    };
}

// ------------------------------------------------------------------------------------------------
// 4b. wrong lengths (exhaustive: every constructor x every length 0..=200)

struct Ctor {
    name: &'static str,
    /// input lengths (of the raw payload) for which Ok is expected
    ok: &'static [usize],
    /// clamp the scalar so that only the length decides
    clamp: bool,
    f: fn(&[u8]) -> Result<Vec<u8>, String>,
    /// bytes expected from an accepted input
    want: fn(&[u8]) -> Vec<u8>,
}

fn ident(b: &[u8]) -> Vec<u8> {
    b.to_vec()
}
fn want_128(b: &[u8]) -> Vec<u8> {
    let mut v = b.get(0..64).map(|x| x.to_vec()).unwrap_or_default();
    v.extend_from_slice(b.get(96..128).unwrap_or(&[]));
    v
}
fn cbor_bytes(b: &[u8]) -> Vec<u8> {
    vc::to_vec(&vc::Item::bytes(b))
}

fn ctors() -> Vec<Ctor> {
    fn obj(r: Result<Obj, String>) -> Result<Vec<u8>, String> {
        r.map(|o| o.bytes())
    }
    vec![
        Ctor { name: "PrivateKey::from_normal_bytes", ok: &[32], clamp: false, f: |b: &[u8]| obj(k_from_raw(K::SkN, b)), want: ident },
        Ctor { name: "PrivateKey::from_extended_bytes", ok: &[64], clamp: true, f: |b: &[u8]| obj(k_from_raw(K::SkE, b)), want: ident },
        Ctor { name: "PublicKey::from_bytes", ok: &[32], clamp: false, f: |b: &[u8]| obj(k_from_raw(K::Pk, b)), want: ident },
        Ctor { name: "Bip32PrivateKey::from_bytes", ok: &[96], clamp: true, f: |b: &[u8]| obj(k_from_raw(K::Xprv, b)), want: ident },
        Ctor { name: "Bip32PrivateKey::from_128_xprv", ok: &[128], clamp: true, f: |b: &[u8]| Bip32PrivateKey::from_128_xprv(b).map(|k| k.as_bytes()).map_err(es), want: want_128 },
        Ctor { name: "Bip32PublicKey::from_bytes", ok: &[64], clamp: false, f: |b: &[u8]| obj(k_from_raw(K::Xpub, b)), want: ident },
        Ctor { name: "Ed25519Signature::from_bytes", ok: &[64], clamp: false, f: |b: &[u8]| obj(k_from_raw(K::Sig, b)), want: ident },
        Ctor { name: "LegacyDaedalusPrivateKey::from_bytes", ok: &[96], clamp: true, f: |b: &[u8]| LegacyDaedalusPrivateKey::from_bytes(b).map(|k| k.as_bytes()).map_err(es), want: ident },
        Ctor { name: "PrivateKey::from_hex", ok: &[32, 64], clamp: true, f: |b: &[u8]| obj(k_from_hex(K::SkN, &vhex(b))), want: ident },
        Ctor { name: "PublicKey::from_hex", ok: &[32], clamp: false, f: |b: &[u8]| obj(k_from_hex(K::Pk, &vhex(b))), want: ident },
        Ctor { name: "Bip32PrivateKey::from_hex", ok: &[96], clamp: true, f: |b: &[u8]| obj(k_from_hex(K::Xprv, &vhex(b))), want: ident },
        Ctor { name: "Bip32PublicKey::from_hex", ok: &[64], clamp: false, f: |b: &[u8]| obj(k_from_hex(K::Xpub, &vhex(b))), want: ident },
        Ctor { name: "Ed25519Signature::from_hex", ok: &[64], clamp: false, f: |b: &[u8]| obj(k_from_hex(K::Sig, &vhex(b))), want: ident },
        Ctor { name: "PrivateKey::from_bech32(ed25519_sk)", ok: &[32], clamp: false, f: |b: &[u8]| obj(k_from_bech32(K::SkN, &bech32_encode("ed25519_sk", b))), want: ident },
        Ctor { name: "PrivateKey::from_bech32(ed25519e_sk)", ok: &[64], clamp: true, f: |b: &[u8]| obj(k_from_bech32(K::SkE, &bech32_encode("ed25519e_sk", b))), want: ident },
        Ctor { name: "PublicKey::from_bech32", ok: &[32], clamp: false, f: |b: &[u8]| obj(k_from_bech32(K::Pk, &bech32_encode("ed25519_pk", b))), want: ident },
        Ctor { name: "Bip32PrivateKey::from_bech32", ok: &[96], clamp: true, f: |b: &[u8]| obj(k_from_bech32(K::Xprv, &bech32_encode("xprv", b))), want: ident },
        Ctor { name: "Bip32PublicKey::from_bech32", ok: &[64], clamp: false, f: |b: &[u8]| obj(k_from_bech32(K::Xpub, &bech32_encode("xpub", b))), want: ident },
        Ctor { name: "Ed25519Signature::from_bech32", ok: &[64], clamp: false, f: |b: &[u8]| obj(k_from_bech32(K::Sig, &bech32_encode("ed25519_sig", b))), want: ident },
        Ctor { name: "Vkey::from_bytes", ok: &[32], clamp: false, f: |b: &[u8]| Vkey::from_bytes(cbor_bytes(b)).map(|v| v.public_key().as_bytes()).map_err(es), want: ident },
        Ctor { name: "Vkey::from_hex", ok: &[32], clamp: false, f: |b: &[u8]| Vkey::from_hex(&vhex(&cbor_bytes(b))).map(|v| v.public_key().as_bytes()).map_err(es), want: ident },
        Ctor { name: "Ed25519KeyHash::from_bytes", ok: &[28], clamp: false, f: |b: &[u8]| Ed25519KeyHash::fb(b.to_vec()).map(|x| x.tb()), want: ident },
        Ctor { name: "Ed25519KeyHash::from_hex", ok: &[28], clamp: false, f: |b: &[u8]| Ed25519KeyHash::fh(&vhex(b)).map(|x| x.tb()), want: ident },
        Ctor { name: "Ed25519KeyHash::from_bech32", ok: &[28], clamp: false, f: |b: &[u8]| Ed25519KeyHash::fbech(&bech32_encode("addr_vkh", b)).map(|x| x.tb()), want: ident },
        Ctor { name: "VRFVKey::from_bytes", ok: &[32], clamp: false, f: |b: &[u8]| VRFVKey::fb(b.to_vec()).map(|x| x.tb()), want: ident },
        Ctor { name: "VRFVKey::from_bech32", ok: &[32], clamp: false, f: |b: &[u8]| VRFVKey::fbech(&bech32_encode("vrf_vk", b)).map(|x| x.tb()), want: ident },
        Ctor { name: "KESVKey::from_bytes", ok: &[32], clamp: false, f: |b: &[u8]| KESVKey::fb(b.to_vec()).map(|x| x.tb()), want: ident },
        Ctor { name: "KESVKey::from_bech32", ok: &[32], clamp: false, f: |b: &[u8]| KESVKey::fbech(&bech32_encode("kes_vk", b)).map(|x| x.tb()), want: ident },
        Ctor { name: "TransactionHash::from_bytes", ok: &[32], clamp: false, f: |b: &[u8]| TransactionHash::fb(b.to_vec()).map(|x| x.tb()), want: ident },
        Ctor { name: "KESSignature::from_bytes", ok: &[448], clamp: false, f: |b: &[u8]| KESSignature::from_bytes(b.to_vec()).map(|x| x.to_bytes()).map_err(es), want: ident },
    ]
}

fn wrong_length(ctx: &mut Ctx, r: &mut Rng, i: u64) {
    let cs = ctors();
    let c = match cs.get((i / LENS) as usize) {
        Some(c) => c,
        None => {
            ctx.bucket("skipped.no-such-constructor");
            return;
        }
    };
    let n = (i % LENS) as usize;
    let mut b = r.bytes(n);
    if c.clamp {
        clamp_ed(&mut b);
    }
    ctx.eval();
    let expect_ok = c.ok.contains(&n);
    let det = || json!({"constructor": c.name, "input_len": n, "input": hx(&b)});
    let mut nt = c.name.as_bytes().to_vec();
    nt.extend_from_slice(&(n as u32).to_le_bytes());
    ctx.nontrivial_bytes("wl", &nt);
    let f = c.f;
    let res = match call(ctx, c.name, &det, || f(&b)) {
        Some(x) => x,
        None => {
            ctx.bucket("wrong-length.panic");
            return;
        }
    };
    match (res, expect_ok) {
        (Ok(got), true) => {
            ctx.bucket("wrong-length.right-length-ok");
            if got != (c.want)(&b) {
                ctx.violation(&format!("{}/right-length-decodes-to-other-bytes", c.name), with(det(), "got", json!(hx(&got))));
            }
        }
        (Err(e), true) => ctx.violation(&format!("{}/spurious-error/right-length", c.name), with(det(), "err", json!(e))),
        (Ok(got), false) => {
            let cls = if n > *c.ok.iter().max().unwrap_or(&0) { "longer" } else { "shorter-or-between" };
            ctx.violation(&format!("{}/wrong-length-accepted/{}", c.name, cls), with(det(), "got", json!(hx(&got))));
        }
        (Err(_), false) => ctx.bucket("wrong-length.err"),
    }
}

// ------------------------------------------------------------------------------------------------
// 4c. malformed text forms (sampled)

/// a text constructor under test: name, fn(text) -> bytes of the value built
struct TextCtor {
    name: &'static str,
    hrp: Option<&'static str>, // Some for Bech32 constructors with a fixed HRP, None = any HRP / hex
    bech: bool,
    len: usize,
    clamp: bool,
    /// bytes -> the bytes that go into the text (CBOR wrapping for CBOR-hex types)
    wrap: fn(&[u8]) -> Vec<u8>,
    /// hex-valid text is only required not to panic (CBOR structure is not this property's business)
    lenient: bool,
    f: fn(&str) -> Result<Vec<u8>, String>,
}

fn wrap_vkeywitness(b: &[u8]) -> Vec<u8> {
    let it = vc::Item::arr(vec![vc::Item::bytes(b.get(0..32).unwrap_or(&[])), vc::Item::bytes(b.get(32..).unwrap_or(&[]))]);
    vc::to_vec(&it)
}
fn wrap_bootstrap(b: &[u8]) -> Vec<u8> {
    let it = vc::Item::arr(vec![
        vc::Item::bytes(b.get(0..32).unwrap_or(&[])),
        vc::Item::bytes(b.get(32..96).unwrap_or(&[])),
        vc::Item::bytes(b.get(96..128).unwrap_or(&[])),
        vc::Item::bytes(&[0xa0]),
    ]);
    vc::to_vec(&it)
}

fn text_ctors() -> Vec<TextCtor> {
    fn obj(r: Result<Obj, String>) -> Result<Vec<u8>, String> {
        r.map(|o| o.bytes())
    }
    vec![
        TextCtor { name: "PrivateKey::from_hex", hrp: None, bech: false, len: 32, clamp: false, wrap: ident, lenient: false, f: |s: &str| obj(k_from_hex(K::SkN, s)) },
        TextCtor { name: "PrivateKey::from_hex", hrp: None, bech: false, len: 64, clamp: true, wrap: ident, lenient: false, f: |s: &str| obj(k_from_hex(K::SkE, s)) },
        TextCtor { name: "PublicKey::from_hex", hrp: None, bech: false, len: 32, clamp: false, wrap: ident, lenient: false, f: |s: &str| obj(k_from_hex(K::Pk, s)) },
        TextCtor { name: "Bip32PrivateKey::from_hex", hrp: None, bech: false, len: 96, clamp: true, wrap: ident, lenient: false, f: |s: &str| obj(k_from_hex(K::Xprv, s)) },
        TextCtor { name: "Bip32PublicKey::from_hex", hrp: None, bech: false, len: 64, clamp: false, wrap: ident, lenient: false, f: |s: &str| obj(k_from_hex(K::Xpub, s)) },
        TextCtor { name: "Ed25519Signature::from_hex", hrp: None, bech: false, len: 64, clamp: false, wrap: ident, lenient: false, f: |s: &str| obj(k_from_hex(K::Sig, s)) },
        TextCtor { name: "Ed25519KeyHash::from_hex", hrp: None, bech: false, len: 28, clamp: false, wrap: ident, lenient: false, f: |s: &str| Ed25519KeyHash::fh(s).map(|x| x.tb()) },
        TextCtor { name: "VRFVKey::from_hex", hrp: None, bech: false, len: 32, clamp: false, wrap: ident, lenient: false, f: |s: &str| VRFVKey::fh(s).map(|x| x.tb()) },
        TextCtor { name: "KESVKey::from_hex", hrp: None, bech: false, len: 32, clamp: false, wrap: ident, lenient: false, f: |s: &str| KESVKey::fh(s).map(|x| x.tb()) },
        TextCtor { name: "TransactionHash::from_hex", hrp: None, bech: false, len: 32, clamp: false, wrap: ident, lenient: false, f: |s: &str| TransactionHash::fh(s).map(|x| x.tb()) },
        TextCtor { name: "Vkey::from_hex", hrp: None, bech: false, len: 32, clamp: false, wrap: cbor_bytes, lenient: true, f: |s: &str| Vkey::from_hex(s).map(|v| v.to_bytes()).map_err(es) },
        TextCtor { name: "Vkeywitness::from_hex", hrp: None, bech: false, len: 96, clamp: false, wrap: wrap_vkeywitness, lenient: true, f: |s: &str| Vkeywitness::from_hex(s).map(|v| v.to_bytes()).map_err(es) },
        TextCtor { name: "BootstrapWitness::from_hex", hrp: None, bech: false, len: 128, clamp: false, wrap: wrap_bootstrap, lenient: true, f: |s: &str| BootstrapWitness::from_hex(s).map(|v| v.to_bytes()).map_err(es) },
        TextCtor { name: "PrivateKey::from_bech32", hrp: Some("ed25519_sk"), bech: true, len: 32, clamp: false, wrap: ident, lenient: false, f: |s: &str| obj(k_from_bech32(K::SkN, s)) },
        TextCtor { name: "PrivateKey::from_bech32", hrp: Some("ed25519e_sk"), bech: true, len: 64, clamp: true, wrap: ident, lenient: false, f: |s: &str| obj(k_from_bech32(K::SkE, s)) },
        TextCtor { name: "PublicKey::from_bech32", hrp: Some("ed25519_pk"), bech: true, len: 32, clamp: false, wrap: ident, lenient: false, f: |s: &str| obj(k_from_bech32(K::Pk, s)) },
        TextCtor { name: "Bip32PrivateKey::from_bech32", hrp: Some("xprv"), bech: true, len: 96, clamp: true, wrap: ident, lenient: false, f: |s: &str| obj(k_from_bech32(K::Xprv, s)) },
        TextCtor { name: "Bip32PublicKey::from_bech32", hrp: Some("xpub"), bech: true, len: 64, clamp: false, wrap: ident, lenient: false, f: |s: &str| obj(k_from_bech32(K::Xpub, s)) },
        TextCtor { name: "Ed25519Signature::from_bech32", hrp: Some("ed25519_sig"), bech: true, len: 64, clamp: false, wrap: ident, lenient: false, f: |s: &str| obj(k_from_bech32(K::Sig, s)) },
        TextCtor { name: "Ed25519KeyHash::from_bech32", hrp: None, bech: true, len: 28, clamp: false, wrap: ident, lenient: false, f: |s: &str| Ed25519KeyHash::fbech(s).map(|x| x.tb()) },
        TextCtor { name: "VRFVKey::from_bech32", hrp: None, bech: true, len: 32, clamp: false, wrap: ident, lenient: false, f: |s: &str| VRFVKey::fbech(s).map(|x| x.tb()) },
        TextCtor { name: "KESVKey::from_bech32", hrp: None, bech: true, len: 32, clamp: false, wrap: ident, lenient: false, f: |s: &str| KESVKey::fbech(s).map(|x| x.tb()) },
        TextCtor { name: "TransactionHash::from_bech32", hrp: None, bech: true, len: 32, clamp: false, wrap: ident, lenient: false, f: |s: &str| TransactionHash::fbech(s).map(|x| x.tb()) },
    ]
}

const BAD_CHARS: [&str; 10] = ["g", "z", " ", "-", "\n", "\u{e9}", "O", "_", "\0", "\u{1F511}"];

/// (mutation class, text)
fn mutate_hex(r: &mut Rng, valid: &str) -> (&'static str, String) {
    let n = valid.len();
    match r.below(9) {
        0 if n > 0 => {
            let p = r.usize(n);
            let mut s = String::from(&valid[..p]);
            s.push_str(*r.pick(&BAD_CHARS));
            s.push_str(&valid[p + 1..]);
            ("hex.non-hex-character", s)
        }
        1 if n > 0 => ("hex.odd-length", valid[..n - 1].to_string()),
        2 => ("hex.0x-prefix", format!("0x{}", valid)),
        3 => ("hex.empty", String::new()),
        4 => ("hex.uppercase", valid.to_ascii_uppercase()),
        5 => ("hex.trailing-space", format!("{} ", valid)),
        6 if n >= 2 => ("hex.one-byte-short", valid[..n - 2].to_string()),
        7 => ("hex.one-byte-long", format!("{}00", valid)),
        _ => ("hex.single-bad-char", (*r.pick(&BAD_CHARS)).to_string()),
    }
}

fn mutate_bech32(r: &mut Rng, hrp: &str, payload: &[u8]) -> (&'static str, String) {
    let valid = bech32_encode(hrp, payload);
    let d5 = convert_bits(payload, 8, 5, true).unwrap_or_default();
    let n = valid.len();
    match r.below(12) {
        0 => {
            // substitute one data character by another charset character: checksum fails
            let p = hrp.len() + 1 + r.usize(n - hrp.len() - 1);
            let cs = b"qpzry9x8gf2tvdw0s3jn54khce6mua7l";
            let old = valid.as_bytes()[p];
            let mut c = cs[r.usize(32)];
            if c == old {
                c = if old == b'q' { b'p' } else { b'q' };
            }
            let mut b = valid.clone().into_bytes();
            b[p] = c;
            ("bech32.bad-checksum", String::from_utf8(b).unwrap_or_default())
        }
        1 => {
            let p = r.usize(n);
            let mut s = String::from(&valid[..p]);
            s.push_str(*r.pick(&BAD_CHARS));
            s.push_str(&valid[p + 1..]);
            ("bech32.bad-character", s)
        }
        2 => {
            // mixed case: uppercase one letter of the data part
            let mut b = valid.clone().into_bytes();
            let start = hrp.len() + 1;
            if let Some(p) = (start..n).find(|&p| b[p].is_ascii_lowercase()) {
                b[p] = b[p].to_ascii_uppercase();
            }
            ("bech32.mixed-case", String::from_utf8(b).unwrap_or_default())
        }
        3 | 4 => {
            // non-zero padding bits in the last 5-bit group (valid checksum)
            let padbits = (d5.len() * 5).wrapping_sub(payload.len() * 8);
            let mut d = d5.clone();
            if padbits > 0 && padbits < 5 && !d.is_empty() {
                let last = d.len() - 1;
                d[last] |= 1 + r.below((1u64 << padbits) - 1) as u8;
                ("bech32.non-zero-padding", bech32_encode_u5(hrp, &d))
            } else {
                d.push(0);
                ("bech32.extra-zero-group", bech32_encode_u5(hrp, &d))
            }
        }
        5 => {
            let mut d = d5.clone();
            d.push(0);
            ("bech32.extra-zero-group", bech32_encode_u5(hrp, &d))
        }
        6 => ("bech32.empty-payload", bech32_encode(hrp, &[])),
        7 => ("bech32.no-separator", valid.replace('1', "")),
        8 => ("bech32.hrp-only", format!("{}1", hrp)),
        9 => ("bech32.uppercase", valid.to_ascii_uppercase()),
        10 => {
            let mut d = d5.clone();
            d.pop();
            ("bech32.one-group-short", bech32_encode_u5(hrp, &d))
        }
        _ => ("bech32.truncated-text", valid[..r.usize(n)].to_string()),
    }
}

fn malformed_text(ctx: &mut Ctx, r: &mut Rng, i: u64) {
    let tcs = text_ctors();
    let t = &tcs[(i % tcs.len() as u64) as usize];
    let mut raw = r.bytes(t.len);
    if t.clamp {
        clamp_ed(&mut raw);
    }
    ctx.eval();
    let (class, text, verdict): (&'static str, String, Option<Option<Vec<u8>>>) = if t.bech {
        let hrp = t.hrp.unwrap_or("addr_vkh");
        let (class, text) = mutate_bech32(r, hrp, &raw);
        // own decoder decides: Some(Some(bytes)) = must decode to bytes, Some(None) = must be refused
        let v = match bech32_decode(&text) {
            Ok((h, p)) => {
                if p.len() == t.len && t.hrp.map(|x| x == h).unwrap_or(true) {
                    Some(Some(p))
                } else {
                    Some(None)
                }
            }
            Err(_) => Some(None),
        };
        // uppercase acceptance is not demanded by the property
        (class, text, if class == "bech32.uppercase" { None } else { v })
    } else {
        let valid = vhex(&(t.wrap)(&raw));
        let (class, text) = mutate_hex(r, &valid);
        let v = match unhex(&text) {
            None => Some(None),
            Some(b) => {
                if t.lenient {
                    None // CBOR-level validity is judged elsewhere; only panics count here
                } else if b.len() == t.len {
                    Some(Some(b))
                } else {
                    Some(None)
                }
            }
        };
        (class, text, v)
    };
    let det = || json!({"constructor": t.name, "mutation": class, "text": text, "valid_payload": hx(&raw)});
    let mut nt = t.name.as_bytes().to_vec();
    nt.extend_from_slice(text.as_bytes());
    ctx.nontrivial_bytes("mt", &nt);
    ctx.bucket(&format!("malformed.{}", class));
    let f = t.f;
    let res = match call(ctx, t.name, &det, || f(&text)) {
        Some(x) => x,
        None => return,
    };
    match (res, verdict) {
        (Ok(b), Some(Some(w))) => {
            if b != w && !t.lenient {
                ctx.violation(&format!("{}/decodes-to-other-bytes/{}", t.name, class), with(det(), "got", json!(hx(&b))));
            } else {
                ctx.bucket("malformed.still-valid.accepted");
            }
        }
        (Err(e), Some(Some(_))) => ctx.violation(&format!("{}/spurious-error/{}", t.name, class), with(det(), "err", json!(e))),
        (Ok(b), Some(None)) => ctx.violation(&format!("{}/malformed-text-accepted/{}", t.name, class), with(det(), "got", json!(hx(&b)))),
        (Err(_), Some(None)) => ctx.bucket("malformed.refused"),
        (Ok(_), None) => ctx.bucket("malformed.unjudged.accepted"),
        (Err(_), None) => ctx.bucket("malformed.unjudged.refused"),
    }
}

// ------------------------------------------------------------------------------------------------
// 5. password encryption (EMIP-3): all arguments and results are hex strings

const DATA_LENS: [usize; 16] = [0, 1, 15, 16, 17, 63, 64, 65, 2048, 2047, 255, 256, 127, 128, 129, 0];

struct EncCase {
    pw: Vec<u8>,
    salt: Vec<u8>,
    nonce: Vec<u8>,
    data: Vec<u8>,
}

fn gen_enc(r: &mut Rng, slot: u64) -> EncCase {
    let dlen = if slot < DATA_LENS.len() as u64 {
        DATA_LENS[slot as usize]
    } else {
        match r.below(8) {
            0 => *r.pick(&DATA_LENS),
            1 | 2 => r.usize(2049),
            3 => r.usize(80),
            _ => 1 + r.usize(300),
        }
    };
    let plen = match r.below(10) {
        0 => 1,
        1 => 127,
        2 => 128,
        3 => 129 + r.usize(80),
        4 => 64,
        _ => 1 + r.usize(40),
    };
    let mut pw = r.bytes(plen);
    // keep the last byte non-zero so that "pw || 00" and "pw minus last byte" are clean classes
    if let Some(l) = pw.last_mut() {
        if *l == 0 {
            *l = 1;
        }
    }
    let salt = match r.below(12) {
        0 => vec![0u8; 32],
        1 => vec![0xffu8; 32],
        _ => r.bytes(32),
    };
    let nonce = match r.below(12) {
        0 => vec![0u8; 12],
        1 => vec![0xffu8; 12],
        _ => r.bytes(12),
    };
    EncCase { pw, salt, nonce, data: r.bytes(dlen) }
}

fn data_class(n: usize) -> &'static str {
    match n {
        0 => "0",
        1 => "1",
        2..=15 => "2-15",
        16 => "16",
        17..=63 => "17-63",
        64 => "64",
        65..=2047 => "65-2047",
        _ => "2048",
    }
}

fn enc_det(c: &EncCase) -> J {
    json!({"password_hex": hx(&c.pw), "salt_hex": hx(&c.salt), "nonce_hex": hx(&c.nonce), "data_hex": hx(&c.data)})
}

/// encrypt through the library and compare with the recomputed container; returns the library's container bytes
fn enc_and_check(ctx: &mut Ctx, c: &EncCase) -> Option<Vec<u8>> {
    let det = || enc_det(c);
    let (p, s, n, d) = (vhex(&c.pw), vhex(&c.salt), vhex(&c.nonce), vhex(&c.data));
    let out = match call(ctx, "encrypt_with_password", &det, || encrypt_with_password(&p, &s, &n, &d).map_err(es))? {
        Ok(o) => o,
        Err(e) => {
            ctx.violation("encrypt_with_password/spurious-error", with(det(), "err", json!(e)));
            return None;
        }
    };
    let got = match unhex(&out) {
        Some(g) => g,
        None => {
            ctx.violation("encrypt_with_password/output-not-hex", with(det(), "out", json!(out)));
            return None;
        }
    };
    match o_container(&c.pw, &c.salt, &c.nonce, &c.data) {
        None => ctx.bucket("skipped.reference-aead-computations-disagree"),
        Some(want) => {
            if got != want {
                let region = if got.len() != want.len() {
                    "length"
                } else if got[0..32] != want[0..32] {
                    "salt"
                } else if got[32..44] != want[32..44] {
                    "nonce"
                } else if got[44..60] != want[44..60] {
                    "tag"
                } else {
                    "ciphertext"
                };
                ctx.violation(&format!("encrypt_with_password/container-differs-from-reference/{}", region), with(with(det(), "got", json!(hx(&got))), "want", json!(hx(&want))));
            } else {
                ctx.bucket("encrypt.container-matches-reference");
            }
        }
    }
    Some(got)
}

fn enc_roundtrip(ctx: &mut Ctx, r: &mut Rng, i: u64) {
    let _ = enc_roundtrip_inner(ctx, r, i);
}

fn enc_roundtrip_inner(ctx: &mut Ctx, r: &mut Rng, i: u64) -> Option<()> {
    let c = gen_enc(r, i);
    ctx.eval();
    let det = || enc_det(&c);
    let cont = enc_and_check(ctx, &c)?;
    let ch = vhex(&cont);
    let mut nt = c.pw.clone();
    nt.extend_from_slice(&c.salt);
    nt.extend_from_slice(&c.nonce);
    nt.extend_from_slice(&c.data);
    ctx.nontrivial_bytes("enc", &nt);
    ctx.bucket("encrypt.judged");
    ctx.bucket(&format!("encrypt.len.{}", data_class(c.data.len())));
    let dc = || with(det(), "container_hex", json!(ch));
    // right password
    let p = vhex(&c.pw);
    let mut decryptable = false;
    match call(ctx, "decrypt_with_password", &dc, || decrypt_with_password(&p, &ch).map_err(es))? {
        Ok(pt) => {
            decryptable = true;
            if unhex(&pt).as_deref() != Some(&c.data[..]) {
                ctx.violation("decrypt_with_password/plaintext-differs", with(dc(), "got", json!(pt)));
            } else {
                ctx.bucket("encrypt.roundtrip-ok");
            }
        }
        Err(e) => {
            let cls = if c.data.is_empty() { "empty-plaintext" } else { "non-empty-plaintext" };
            ctx.violation(&format!("decrypt_with_password/right-password-rejected/{}", cls), with(dc(), "err", json!(e)));
        }
    }
    if !decryptable {
        // a refusal under another password would say nothing about the password
        ctx.bucket("skipped.other-password-on-undecryptable-container");
        return Some(());
    }
    // another password
    let (cls, pw2): (&'static str, Vec<u8>) = match (i / 3) % 6 {
        0 => {
            let mut q = c.pw.clone();
            let k = r.usize(q.len());
            q[k] ^= 1u8 << r.below(8);
            ("bit-flipped", q)
        }
        1 => {
            let mut q = c.pw.clone();
            q.push(1 + r.below(255) as u8);
            ("appended-non-zero-byte", q)
        }
        2 if c.pw.len() > 1 => ("last-byte-removed", c.pw[..c.pw.len() - 1].to_vec()),
        3 => {
            let mut q = upto(r, 40);
            q.push(3);
            if q == c.pw {
                q.push(7);
            }
            ("unrelated", q)
        }
        4 if c.pw.len() > 128 => ("hmac-equivalent.sha512-of-long-password", o_sha512(&c.pw).to_vec()),
        _ if c.pw.len() < 128 => {
            let mut q = c.pw.clone();
            q.push(0);
            ("hmac-equivalent.zero-byte-appended", q)
        }
        _ => {
            let mut q = c.pw.clone();
            q[0] ^= 0x80;
            ("bit-flipped", q)
        }
    };
    if !pw2.is_empty() && pw2 != c.pw {
        let p2 = vhex(&pw2);
        let d2 = || with(dc(), "other_password_hex", json!(p2));
        match call(ctx, "decrypt_with_password", &d2, || decrypt_with_password(&p2, &ch).map_err(es))? {
            Ok(pt) => {
                let same = unhex(&pt).as_deref() == Some(&c.data[..]);
                if cls.starts_with("hmac-equivalent") {
                    // PBKDF2-HMAC-SHA512 itself maps these two byte strings to the same key (keys shorter than
                    // the 128-byte block are zero-padded, longer ones are hashed first): they are the same
                    // password as far as EMIP-3 can tell. Observed, not a refutation.
                    ctx.bucket(&format!("info.same-hmac-key.{}.accepted", cls));
                } else {
                    ctx.violation(&format!("decrypt_with_password/other-password-accepted/{}", cls), with(d2(), "returns_original_plaintext", json!(same)));
                }
            }
            Err(_) => {
                ctx.bucket("wrong-password.refused");
                ctx.bucket(&format!("wrong-password.{}.refused", cls));
            }
        }
    }
    ctx.sample("encrypt", || with(dc(), "data_len", json!(c.data.len())));
    Some(())
}

fn enc_tamper(ctx: &mut Ctx, r: &mut Rng, i: u64) {
    let _ = enc_tamper_inner(ctx, r, i);
}

fn enc_tamper_inner(ctx: &mut Ctx, r: &mut Rng, i: u64) -> Option<()> {
    // plaintext never empty here: an empty plaintext has no ciphertext region (and is covered by enc-roundtrip)
    let mut c = gen_enc(r, u64::MAX);
    if c.data.is_empty() {
        c.data = upto(r, 64);
        c.data.push(9);
    }
    if i < 8 {
        c.data = r.bytes([1usize, 15, 16, 17, 63, 64, 65, 2048][i as usize]);
    }
    let det = || enc_det(&c);
    let cont = enc_and_check(ctx, &c)?;
    let p = vhex(&c.pw);
    let mut nt = c.pw.clone();
    nt.extend_from_slice(&cont);
    ctx.nontrivial_bytes("tamper", &nt);
    let n = cont.len();
    if n <= 60 {
        ctx.bucket("skipped.container-too-short");
        return None;
    }
    // one flipped bit per region: (class, byte range)
    let regions: [(&'static str, usize, usize); 4] = [("salt", 0, 32), ("nonce", 32, 44), ("tag", 44, 60), ("ciphertext", 60, n)];
    let mut mods: Vec<(String, Vec<u8>)> = Vec::new();
    for (name, lo, hi) in regions.iter() {
        let mut m = cont.clone();
        // first / last byte of the region now and then, otherwise anywhere
        let pos = match r.below(4) {
            0 => *lo,
            1 => hi - 1,
            _ => lo + r.usize(hi - lo),
        };
        m[pos] ^= 1u8 << r.below(8);
        mods.push((name.to_string(), m));
    }
    mods.push(("truncated-last-byte".to_string(), cont[..n - 1].to_vec()));
    let mut ext = cont.clone();
    ext.push(r.below(256) as u8);
    mods.push(("extended-by-one-byte".to_string(), ext));
    for (name, m) in mods {
        ctx.eval();
        let mh = vhex(&m);
        let dm = || with(with(with(det(), "container_hex", json!(hx(&cont))), "modified_container_hex", json!(mh)), "modification", json!(name));
        match call(ctx, "decrypt_with_password", &dm, || decrypt_with_password(&p, &mh).map_err(es))? {
            Ok(pt) => ctx.violation(&format!("decrypt_with_password/modified-container-accepted/{}", name), with(dm(), "got", json!(pt))),
            Err(_) => ctx.bucket(&format!("tamper.{}.refused", name)),
        }
    }
    ctx.sample("tamper", || with(det(), "container_hex", json!(hx(&cont))));
    Some(())
}

/// malformed arguments: every one of these returns before the key derivation, so they are cheap
fn enc_malformed(ctx: &mut Ctx, r: &mut Rng, i: u64) {
    ctx.eval();
    let c = gen_enc(r, u64::MAX);
    let (mut p, mut s, mut n, mut d) = (vhex(&c.pw), vhex(&c.salt), vhex(&c.nonce), vhex(&c.data[..c.data.len().min(64)]));
    let bad_hex = |r: &mut Rng, v: &str| -> String {
        match r.below(4) {
            0 if !v.is_empty() => v[..v.len() - 1].to_string(),
            1 => format!("{}{}", v, *r.pick(&BAD_CHARS)),
            2 => format!("0x{}", v),
            _ => format!("{}zz", v),
        }
    };
    let which = i % 12;
    let class: &'static str = match which {
        0 => {
            p = bad_hex(r, &p);
            "encrypt.password-not-hex"
        }
        1 => {
            s = bad_hex(r, &s);
            "encrypt.salt-not-hex"
        }
        2 => {
            n = bad_hex(r, &n);
            "encrypt.nonce-not-hex"
        }
        3 => {
            d = bad_hex(r, &d);
            "encrypt.data-not-hex"
        }
        4 => {
            let mut l = r.usize(65);
            if l == 32 {
                l = 31;
            }
            s = vhex(&r.bytes(l));
            "encrypt.salt-wrong-length"
        }
        5 => {
            let mut l = r.usize(25);
            if l == 12 {
                l = 13;
            }
            n = vhex(&r.bytes(l));
            "encrypt.nonce-wrong-length"
        }
        6 => {
            p = String::new();
            "encrypt.empty-password"
        }
        7 => "decrypt.short-container",
        8 => "decrypt.container-not-hex",
        9 => "decrypt.password-not-hex",
        10 => "decrypt.empty-strings",
        _ => "decrypt.short-container",
    };
    ctx.bucket(&format!("enc-malformed.{}", class));
    if which <= 6 {
        let det = || json!({"class": class, "password_hex": p, "salt_hex": s, "nonce_hex": n, "data_hex": d});
        ctx.nontrivial_bytes("encm", format!("{}|{}|{}|{}", p, s, n, d).as_bytes());
        if let Some(res) = call(ctx, "encrypt_with_password", &det, || encrypt_with_password(&p, &s, &n, &d).map_err(es)) {
            match res {
                Ok(o) => ctx.violation(&format!("encrypt_with_password/malformed-argument-accepted/{}", class), with(det(), "got", json!(o))),
                Err(_) => ctx.bucket("enc-malformed.refused"),
            }
        }
    } else {
        // containers no longer than the 60-byte header, or non-hex: refused before any key derivation
        let slen = match r.below(4) {
            0 => 60,
            1 => 59,
            2 => 0,
            _ => r.usize(61),
        };
        let short = r.bytes(slen);
        let (pw, cont) = match which {
            8 => (p.clone(), bad_hex(r, &vhex(&short))),
            9 => (bad_hex(r, &p), vhex(&short)),
            10 => (String::new(), String::new()),
            _ => (p.clone(), vhex(&short)),
        };
        let det = || json!({"class": class, "password_hex": pw, "container_hex": cont});
        ctx.nontrivial_bytes("decm", format!("{}|{}", pw, cont).as_bytes());
        if let Some(res) = call(ctx, "decrypt_with_password", &det, || decrypt_with_password(&pw, &cont).map_err(es)) {
            match res {
                Ok(o) => ctx.violation(&format!("decrypt_with_password/malformed-argument-accepted/{}", class), with(det(), "got", json!(o))),
                Err(_) => ctx.bucket("enc-malformed.refused"),
            }
        }
    }
}
