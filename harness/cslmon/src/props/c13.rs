//! C13 — send-all batches spend everything once and every transaction is valid.
use super::bld::*;
use super::c05::{binit, ASSUMPTIONS};
use crate::fw::*;
use crate::scen::*;
use cardano_serialization_lib as csl;
use csl::*;
use serde_json::json;
use std::collections::{BTreeMap, BTreeSet};
use vkit::ledger::{self, Tx, Val};
use vkit::rng::Rng;

pub fn def() -> PropDef {
    PropDef {
        id: "C13",
        rule: "a case = (protocol parameters incl. tiny max sizes, target address, 1-250 UTxOs: pure ADA / 1-40 policies x 1-60 assets, names of 0/1/32 bytes, dust and width-boundary amounts, key and Byron owners); create_send_all is executed 4x (quick) / 12x (thorough) per case because the batcher iterates hash containers, and every distinct result is judged: input multiset, target address, per-transaction balance against the UTxO table, fee against the really witnessed size (one witness per distinct owner), size limits, min-ADA; non-trivial = Ok batch; distinct by hash of the returned transactions",
        assumptions: ASSUMPTIONS,
        streams,
        floors: &[("ok.pure-ada", 300), ("ok.with-assets", 300), ("ok.txs-1", 200), ("ok.txs-2-5", 100), ("ok.txs-6+", 20), ("ok.byron-owner", 100), ("tx.judged", 2_000)],
        init: Some(binit),
    }
}

fn streams() -> Vec<Stream> {
    vec![
        Stream { name: "send-all", count: (6_000, 120_000), exhaustive: false, run: send_all },
        Stream { name: "send-all-large", count: (160, 1_500), exhaustive: false, run: send_all_large },
        Stream { name: "send-all-squeezed", count: (1_500, 40_000), exhaustive: false, run: squeezed },
        Stream { name: "send-all-boundary-tuned", count: (3_000, 80_000), exhaustive: false, run: boundary_tuned },
    ]
}

thread_local! {
    /// limits forced on the next case: (max_tx_size, max_value_size)
    static OVERRIDE: std::cell::Cell<(Option<u64>, Option<u64>)> = std::cell::Cell::new((None, None));
    /// what the last case measured: (largest really witnessed transaction, largest output value), in bytes
    static MEASURED: std::cell::Cell<(u64, u64)> = std::cell::Cell::new((0, 0));
    /// lovelace to take from the first pure-ADA UTxO of the next case that can spare it
    static TUNE: std::cell::Cell<i128> = std::cell::Cell::new(0);
    /// coin of the last output of the last transaction the last case returned
    static LAST_COIN: std::cell::Cell<i128> = std::cell::Cell::new(0);
}

/// the last output receives the leftover: a sweep is run once to see that output's coin, one pure-ADA UTxO is
/// then made poorer so that the coin lands within a few hundred lovelace of a CBOR width boundary (2^16,
/// 2^32) - where the size, and with it the fee and the minimum ADA, of the output changes - and the sweep is
/// run again on the same random stream
fn boundary_tuned(ctx: &mut Ctx, r: &mut Rng, i: u64) {
    let mut r1 = r.clone();
    LAST_COIN.with(|c| c.set(0));
    TUNE.with(|t| t.set(0));
    OVERRIDE.with(|o| o.set((None, None)));
    send_all_small(ctx, &mut r1);
    let c = LAST_COIN.with(|c| c.get());
    let b: i128 = if r1.bool() { 1 << 32 } else { 1 << 16 };
    let target = b + r1.below(700) as i128 - 350;
    if c <= target {
        ctx.bucket("tuned.last-coin-below-target");
        return;
    }
    ctx.bucket(if b == 1 << 32 { "tuned.around-2^32" } else { "tuned.around-2^16" });
    TUNE.with(|t| t.set(c - target));
    send_all_small(ctx, r);
    if TUNE.with(|t| t.get()) != 0 {
        ctx.bucket("tuned.no-utxo-could-spare-it");
    }
    TUNE.with(|t| t.set(0));
}

fn send_all_small(ctx: &mut Ctx, r: &mut Rng) {
    let n = 1 + r.usize(4);
    case(ctx, r, n)
}

/// the size limits are only interesting at the limit: a UTxO set is swept once to learn the largest
/// witnessed transaction S and the largest output value V it produces, then again (same random stream) with
/// max_tx_size = S - k or max_value_size = V - k: the batcher must refuse or split differently; a size
/// model that is a byte short somewhere lets S (or V) through
fn squeezed(ctx: &mut Ctx, r: &mut Rng, i: u64) {
    let mut r1 = r.clone();
    MEASURED.with(|m| m.set((0, 0)));
    OVERRIDE.with(|o| o.set((None, None)));
    send_all(ctx, &mut r1, i);
    let (s, v) = MEASURED.with(|m| m.get());
    let top = if r1.bool() { 3 } else { 40 };
    let k = 1 + r1.below(top);
    let forced = if v > k + 40 && r1.bool() {
        ctx.bucket("squeeze.max-value-size");
        (None, Some(v - k))
    } else if s > k + 300 {
        ctx.bucket("squeeze.max-tx-size");
        (Some(s - k), None)
    } else {
        ctx.bucket("squeeze.nothing-to-squeeze");
        return;
    };
    OVERRIDE.with(|o| o.set(forced));
    send_all(ctx, r, i);
    OVERRIDE.with(|o| o.set((None, None)));
}

pub fn send_all(ctx: &mut Ctx, r: &mut Rng, _i: u64) {
    let n = match r.below(6) {
        0 => 1,
        1 => 2 + r.usize(4),
        2 => 20 + r.usize(40),
        _ => 1 + r.usize(20),
    };
    case(ctx, r, n)
}
fn send_all_large(ctx: &mut Ctx, r: &mut Rng, _i: u64) {
    let n = 100 + r.usize(if ctx.quick() { 150 } else { 500 });
    case(ctx, r, n)
}

fn case(ctx: &mut Ctx, r: &mut Rng, n: usize) {
    ctx.eval();
    let ring = ring(ctx);
    let mut params = gen_params(r, &Focus { small_limits: 6, ..Focus::default() });
    params.ex_prices = None;
    params.ref_script_price = None;
    if r.below(6) == 0 {
        // a network whose minimum for a plain output lies next to 2^16 lovelace: the minimum itself moves
        // when the coin of the output crosses that width
        // (enterprise target: 333..336, base target: 291..294)
        params.coins_per_byte = if r.bool() { 333 + r.below(4) } else { 291 + r.below(4) };
    }
    if params.fee_a == 0 && r.bool() {
        params.fee_a = 44;
        params.fee_b = 155_381;
    }
    if r.below(4) == 0 {
        params.max_tx_size = 1500 + r.below(2500);
    }
    if r.below(5) == 0 {
        // value sizes that a few dozen small assets fill
        params.max_value_size = 150 + r.below(900);
    }
    let forced = OVERRIDE.with(|o| o.get());
    if let Some(x) = forced.0 {
        params.max_tx_size = x;
    }
    if let Some(x) = forced.1 {
        params.max_value_size = x;
    }
    let (cfg, _) = make_config(&params, r);
    let mut s = Scn::new(r, ring, Focus::default());
    let tk = s.key_ix();
    let target = if s.r.below(8) == 0 { ring.byron[0].addr.to_address() } else { s.key_address(tk) };
    let shape = match s.r.below(6) {
        // the dense shape costs (UTxOs x assets): kept to small sets
        5 if n > 24 => 3,
        x => x,
    }; // 0 pure ada, 1 few assets, 2 many policies, 3 many assets per policy, 4 mixed, 5 dense (many short-named assets of one policy)
    let owners = 1 + s.r.usize(5);
    let owner_keys: Vec<usize> = (0..owners).map(|_| s.key_ix()).collect();
    let mut utxos_csl = TransactionUnspentOutputs::new();
    let mut any_byron = false;
    let mut any_assets = false;
    let mut any_hollow = false;
    for j in 0..n {
        let mut v = Val::coin(match s.r.below(8) {
            0 => 1_000_000 + s.r.below(500_000),
            1 => 969_750 + s.r.below(100_000),
            2 => (1u64 << 32) + s.r.below(10_000_000),
            3 => 65_536 * (20 + s.r.below(50)),
            _ => s.ada(),
        });
        let with_assets = match shape {
            0 => false,
            1 => s.r.below(3) == 0,
            _ => s.r.below(4) != 0,
        };
        if with_assets {
            any_assets = true;
            let (npol, nas) = match shape {
                1 => (1, 1 + s.r.below(2)),
                2 => (1 + s.r.below(6), 1 + s.r.below(2)),
                3 => (1, 1 + s.r.below(40)),
                5 => (1, 24 + s.r.below(100)),
                _ => (1 + s.r.below(3), 1 + s.r.below(8)),
            };
            for p in 0..npol {
                let pol = vec![0xc0 + ((j as u64 * 7 + p) % if shape == 2 { 40 } else { 4 }) as u8; 28];
                for a in 0..nas {
                    let name = if shape == 5 {
                        // distinct 1- and 2-byte names: an output holds dozens to hundreds of them (the per-policy
                        // map head grows at 24 and 256 entries)
                        if a < 200 { vec![a as u8] } else { vec![(a >> 8) as u8 + 1, a as u8] }
                    } else { match (a + j as u64) % 3 {
                        0 => vec![],
                        1 => vec![0x30 + (a % 60) as u8],
                        _ => {
                            let mut nm = vec![0x41; 32];
                            nm[31] = a as u8;
                            nm
                        }
                    } };
                    let q = match s.r.below(4) {
                        0 => 1,
                        1 => (1i128 << 32) + s.r.below(5) as i128,
                        _ => 1 + s.r.below(100_000) as i128,
                    };
                    v.add_asset((pol.clone(), name), q);
                }
            }
            // asset-carrying UTxOs need their min ADA to exist at all
            let probe = TransactionOutput::new(&target, &val_to_csl(&v));
            if let Ok(Ok(min)) = guard(|| min_ada_for_output(&probe, &DataCost::new_coins_per_byte(&BigNum::from(params.coins_per_byte)))) {
                let min: u64 = min.into();
                if (v.coin as u64) < min {
                    v.coin = min as i128;
                }
            }
        }
        let byron = s.r.below(12) == 0;
        let addr = if byron {
            any_byron = true;
            ring.byron[s.r.usize(ring.byron.len())].addr.to_address()
        } else {
            let k = owner_keys[s.r.usize(owner_keys.len())];
            s.key_address(k)
        };
        // the tuning of a pure-ADA UTxO (boundary-tuned stream)
        if v.assets.is_empty() {
            let d = TUNE.with(|t| t.get());
            if d != 0 && v.coin - d >= if params.coins_per_byte < 1_000 { 1 } else { 1_000_000 } {
                v.coin -= d;
                TUNE.with(|t| t.set(0));
            }
        }
        let pure = v.assets.is_empty();
        let i = s.new_utxo(&addr, v);
        let mut u = s.csl_utxo(i, None, None);
        if pure && s.r.below(6) == 0 {
            // a pure-ADA value in the spelling decoded Mary-era outputs have: [coin, {}] or [coin, {policy: {}}]
            let mut val = u.output().amount();
            let mut ma = MultiAsset::new();
            if s.r.bool() {
                ma.insert(&ScriptHash::from_bytes(vec![0xd7; 28]).unwrap(), &Assets::new());
            }
            val.set_multiasset(&ma);
            let out = TransactionOutput::new(&u.output().address(), &val);
            u = TransactionUnspentOutput::new(&u.input(), &out);
            any_hollow = true;
        }
        utxos_csl.add(&u);
    }
    if any_hollow {
        ctx.bucket("utxo.pure-ada-with-hollow-multiasset");
    }
    // now and then the caller's list names a UTxO twice (two wallet queries merged): it is one UTxO, to be spent
    // and counted once
    if utxos_csl.len() >= 1 && s.r.below(12) == 0 {
        let k = s.r.usize(utxos_csl.len());
        let dup = utxos_csl.get(k);
        utxos_csl.add(&dup);
        ctx.bucket("utxo.listed-twice");
    }
    let reps = if ctx.quick() { 4 } else { 12 };
    let mut results: BTreeSet<Vec<Vec<u8>>> = BTreeSet::new();
    let mut errs = 0;
    for _ in 0..reps {
        match guard(|| create_send_all(&target, &utxos_csl, &cfg)) {
            Ok(Ok(list)) => {
                let mut txs: Vec<Vec<u8>> = vec![];
                let mut fail = false;
                for b in 0..list.len() {
                    let batch = list.get(b);
                    for t in 0..batch.len() {
                        match guard(|| batch.get(t).to_bytes()) {
                            Ok(x) => txs.push(x),
                            Err(_) => fail = true,
                        }
                    }
                }
                if !fail {
                    results.insert(txs);
                }
            }
            Ok(Err(_)) => errs += 1,
            Err(p) => {
                ctx.panic_seen(&p);
                ctx.bucket("outcome.panic");
                return;
            }
        }
    }
    if errs == reps {
        ctx.bucket("outcome.err");
        return;
    }
    if errs > 0 {
        ctx.bucket("outcome.sometimes-err-sometimes-ok");
    }
    if results.len() > 1 {
        ctx.bucket("schedules.more-than-one-distinct-result");
    }
    ctx.bucket_n("schedules.distinct-results", results.len() as u64);
    ctx.evals_n(results.len() as u64);
    let det_base = json!({"params": format!("{:?}", params), "n_utxos": n, "shape": shape, "target": hx(&target.to_bytes()),
        "utxos": s.utxos.iter().take(40).map(|u| format!("{}#{} addr={} coin={} assets={}", hx(&u.txid[..6]), u.ix, hx(&u.addr[..u.addr.len().min(6)]), u.val.coin, u.val.assets.len())).collect::<Vec<_>>()});
    for txs in &results {
        let mut hv = vec![];
        for t in txs {
            hv.extend_from_slice(t);
        }
        ctx.nontrivial_bytes("sendall", &hv);
        ctx.bucket(if any_assets { "ok.with-assets" } else { "ok.pure-ada" });
        ctx.bucket(match txs.len() {
            0 => "ok.txs-0",
            1 => "ok.txs-1",
            2..=5 => "ok.txs-2-5",
            _ => "ok.txs-6+",
        });
        if any_byron {
            ctx.bucket("ok.byron-owner");
        }
        let det = |extra: serde_json::Value| {
            let mut d = det_base.clone();
            d["txs"] = json!(txs.iter().map(|t| hx(t)).collect::<Vec<_>>());
            d["observation"] = extra;
            d
        };
        // ---- every supplied UTxO exactly once
        let mut spent: BTreeMap<(Vec<u8>, u64), u32> = BTreeMap::new();
        let mut parsed: Vec<Tx> = vec![];
        let mut bad = false;
        for t in txs {
            match Tx::parse(t) {
                Ok(tx) => parsed.push(tx),
                Err(e) => {
                    ctx.violation("send-all/tx-not-well-formed", det(json!(e.0)));
                    bad = true;
                }
            }
        }
        if bad {
            continue;
        }
        for tx in &parsed {
            for op in tx.inputs().unwrap_or_default() {
                *spent.entry(op).or_insert(0) += 1;
            }
        }
        let supplied: BTreeSet<(Vec<u8>, u64)> = s.utxos.iter().map(|u| (u.txid.clone(), u.ix)).collect();
        if spent.values().any(|c| *c > 1) {
            ctx.violation("send-all/utxo-spent-more-than-once", det(json!({})));
        }
        if spent.keys().any(|k| !supplied.contains(k)) {
            ctx.violation("send-all/spends-an-input-that-was-not-supplied", det(json!({})));
        }
        let missing = supplied.iter().filter(|k| !spent.contains_key(*k)).count();
        if missing > 0 {
            ctx.violation("send-all/supplied-utxo-not-spent", det(json!({"missing": missing})));
        }
        // ---- per transaction
        for (ti, tx) in parsed.iter().enumerate() {
            ctx.bucket("tx.judged");
            let outs = tx.outputs().unwrap_or_default();
            // cause class for arithmetic-size-model failures: widest coin head among the outputs
            let max_coin = outs.iter().filter_map(|o| ledger::output_value(o).ok()).map(|v| v.coin).max().unwrap_or(0);
            let wcls = if max_coin >= (1i128 << 32) { "output-coin-needs-9-byte-head" } else if max_coin >= (1i128 << 16) { "output-coin-5-byte-head" } else { "output-coin-small" };
            for o in &outs {
                if ledger::output_address(o).as_deref() != Some(&target.to_bytes()[..]) {
                    ctx.violation("send-all/output-pays-another-address", det(json!({"tx": ti})));
                }
                let len = (o.end - o.start) as u64;
                let coin = ledger::output_value(o).map(|v| v.coin).unwrap_or(0) as u128;
                LAST_COIN.with(|c| c.set(coin as i128));
                if coin < ledger::min_utxo(params.coins_per_byte, len) {
                    ctx.violation("send-all/output-below-min-ada", det(json!({"tx": ti, "coin": coin.to_string(), "needed": ledger::min_utxo(params.coins_per_byte, len).to_string()})));
                }
                if let Some(v) = ledger::output_value_item(o) {
                    let vl = (v.end - v.start) as u64;
                    MEASURED.with(|m| {
                        let (a, b) = m.get();
                        m.set((a, b.max(vl)));
                    });
                    if vl > params.max_value_size {
                        ctx.violation("send-all/output-value-larger-than-max-value-size", det(json!({"tx": ti, "value_size": vl})));
                    }
                }
                if let Ok(v) = ledger::output_value(o) {
                    if v.assets.values().any(|q| *q == 0) {
                        ctx.violation("send-all/zero-quantity-asset-in-output", det(json!({"tx": ti})));
                    }
                }
            }
            match ledger::consumed_produced(tx, &s.utxos, &params) {
                Ok((c, p)) => {
                    if c.normalized() != p.normalized() {
                        ctx.violation(&format!("send-all/transaction-not-balanced/{}", wcls), det(json!({"tx": ti, "diff": c.describe_diff(&p)})));
                    }
                }
                Err(e) => {
                    ctx.bucket("skipped.ledger-model-could-not-evaluate");
                    ctx.extra.insert("last_ledger_error".into(), json!(e.0));
                    continue;
                }
            }
            // really witnessed size: one vkey witness per distinct owning key, one bootstrap witness per Byron address
            let mut keys: BTreeSet<Vec<u8>> = BTreeSet::new();
            let mut byr: BTreeSet<Vec<u8>> = BTreeSet::new();
            for (t, i) in tx.inputs().unwrap_or_default() {
                if let Some(u) = ledger::find_utxo(&s.utxos, &t, i) {
                    match ledger::payment_cred(&u.addr) {
                        ledger::PayCred::Key(h) => {
                            keys.insert(h);
                        }
                        ledger::PayCred::Byron => {
                            byr.insert(u.addr.clone());
                        }
                        _ => {}
                    }
                }
            }
            let built = match guard(|| Transaction::from_bytes(tx.bytes.to_vec())) {
                Ok(Ok(t)) => t,
                _ => {
                    ctx.violation("send-all/returned-tx-does-not-decode", det(json!({"tx": ti})));
                    continue;
                }
            };
            // drop the mock witnesses: start from an empty witness set
            let bare = Transaction::new(&built.body(), &TransactionWitnessSet::new(), built.auxiliary_data());
            match guard(|| sign_tx(&bare, &keys, &byr, ring, false)) {
                Ok(Ok(stx)) => {
                    let sb = stx.to_bytes();
                    let len = sb.len() as u64;
                    let fee = tx.fee().unwrap_or(0);
                    let min = params.fee_a as u128 * len as u128 + params.fee_b as u128;
                    if (fee as u128) < min {
                        ctx.violation(&format!("send-all/fee-below-minimum-for-really-witnessed-size/{}", wcls), det(json!({"tx": ti, "fee": fee, "min": min.to_string(), "witnessed_size": len, "vkeys": keys.len(), "bootstrap": byr.len()})));
                    } else if fee as u128 == min {
                        ctx.bucket("tx.fee-exactly-minimum");
                    }
                    MEASURED.with(|m| {
                        let (a, b) = m.get();
                        m.set((a.max(len), b));
                    });
                    if len > params.max_tx_size {
                        ctx.violation("send-all/witnessed-size-above-max-tx-size", det(json!({"tx": ti, "witnessed_size": len})));
                    }
                    if len * 10 > params.max_tx_size * 8 {
                        ctx.bucket("tx.size-above-80-percent-of-limit");
                    }
                }
                _ => ctx.bucket("skipped.cannot-sign"),
            }
        }
        ctx.sample(if any_assets { "with-assets" } else { "pure-ada" }, || json!({"n_utxos": n, "params": format!("{:?}", params), "transactions": txs.len(), "first_tx": txs.first().map(|t| hx(t))}));
    }
}
