//! vkit: the oracle library of the runtime monitors. It must not depend on
//! cardano-serialization-lib or cbor_event.
pub mod cbor;
pub mod cddl;
pub mod codec;
pub mod ledger;
pub mod rng;
