//! Schema-directed validator for the Conway-era ledger CDDL (see /verif/spec/conway_subset.cddl)
//! plus the encoding discipline stated in property C03. Works on items parsed by `crate::cbor`;
//! shares no code with cardano-serialization-lib or cbor_event.

use crate::cbor::{Item, V};

#[derive(Clone, Copy, Debug, Default)]
pub struct Opts {
    /// admit pre-Conway constructs: body key 6, certificates 5/6, param-update keys 12-15, untagged sets
    pub legacy_ok: bool,
    /// builder outputs: no zero quantity, no empty policy bundle in outputs
    pub strict_output_assets: bool,
    /// check the encoding discipline (shortest definite heads, tag 258 on set fields, ...)
    pub discipline: bool,
    /// typed-API values may hold things the API does not validate; integer *range* clauses
    /// (int64 mint, uint .size n) are always checked, this flag only relaxes non-emptiness (`+` -> `*`)
    pub allow_empty_maps: bool,
}

#[derive(Clone, Debug, PartialEq)]
pub struct Finding {
    pub path: String,
    /// stable clause name, used in signatures
    pub clause: &'static str,
    pub note: String,
}

pub struct Val {
    pub o: Opts,
    pub out: Vec<Finding>,
    path: Vec<String>,
}

macro_rules! bad {
    ($s:expr, $clause:expr) => {
        $s.push($clause, String::new())
    };
    ($s:expr, $clause:expr, $($arg:tt)*) => {
        $s.push($clause, format!($($arg)*))
    };
}

impl Val {
    pub fn new(o: Opts) -> Val {
        Val { o, out: vec![], path: vec![] }
    }
    fn push(&mut self, clause: &'static str, note: String) {
        if self.out.len() < 64 {
            self.out.push(Finding { path: self.path.join("/"), clause, note });
        }
    }
    fn at<R>(&mut self, seg: &str, f: impl FnOnce(&mut Val) -> R) -> R {
        self.path.push(seg.to_string());
        let r = f(self);
        self.path.pop();
        r
    }

    // -------------------------------------------------------------------------------- discipline
    /// this item's own head must be the shortest definite form
    fn canon_head(&mut self, it: &Item) {
        if !self.o.discipline {
            return;
        }
        if it.indef {
            bad!(self, "discipline/indefinite-length-where-definite-expected");
        } else if !it.head_minimal() {
            bad!(self, "discipline/non-shortest-head");
        }
    }

    // -------------------------------------------------------------------------------- primitives
    pub fn uint(&mut self, it: &Item) -> Option<u64> {
        match it.v {
            V::U(n) => {
                self.canon_head(it);
                Some(n)
            }
            _ => {
                bad!(self, "type/uint-expected");
                None
            }
        }
    }
    fn uint_max(&mut self, it: &Item, max: u64, clause: &'static str) -> Option<u64> {
        let n = self.uint(it)?;
        if n > max {
            bad!(self, clause, "{}", n);
        }
        Some(n)
    }
    fn int(&mut self, it: &Item) -> Option<i128> {
        match it.v {
            V::U(_) | V::N(_) => {
                self.canon_head(it);
                it.as_int()
            }
            _ => {
                bad!(self, "type/int-expected");
                None
            }
        }
    }
    fn int64(&mut self, it: &Item) -> Option<i128> {
        let v = self.int(it)?;
        if v < i64::MIN as i128 || v > i64::MAX as i128 {
            bad!(self, "range/int64", "{}", v);
        }
        Some(v)
    }
    fn bytes(&mut self, it: &Item) -> Option<Vec<u8>> {
        match &it.v {
            V::B(b) => {
                self.canon_head(it);
                Some(b.clone())
            }
            _ => {
                bad!(self, "type/bytes-expected");
                None
            }
        }
    }
    fn bytes_n(&mut self, it: &Item, n: usize, clause: &'static str) {
        if let Some(b) = self.bytes(it) {
            if b.len() != n {
                bad!(self, clause, "len {}", b.len());
            }
        }
    }
    fn hash28(&mut self, it: &Item) {
        self.bytes_n(it, 28, "size/hash28")
    }
    fn hash32(&mut self, it: &Item) {
        self.bytes_n(it, 32, "size/hash32")
    }
    fn text_max(&mut self, it: &Item, max: usize, clause: &'static str) {
        match &it.v {
            V::T(b) => {
                self.canon_head(it);
                if b.len() > max {
                    bad!(self, clause, "len {}", b.len());
                }
                if std::str::from_utf8(b).is_err() {
                    bad!(self, "type/text-not-utf8");
                }
            }
            _ => bad!(self, "type/text-expected"),
        }
    }
    /// definite array with exactly one of the given lengths; returns elements
    fn arr<'a>(&mut self, it: &'a Item, lens: &[usize], clause: &'static str) -> Option<&'a Vec<Item>> {
        match &it.v {
            V::A(xs) => {
                self.canon_head(it);
                if !lens.is_empty() && !lens.contains(&xs.len()) {
                    bad!(self, clause, "len {}", xs.len());
                    return None;
                }
                Some(xs)
            }
            _ => {
                bad!(self, "type/array-expected");
                None
            }
        }
    }
    fn map<'a>(&mut self, it: &'a Item) -> Option<&'a Vec<(Item, Item)>> {
        match &it.v {
            V::M(xs) => {
                self.canon_head(it);
                // duplicate keys
                if self.o.discipline {
                    let mut keys: Vec<Vec<u8>> = xs.iter().map(|(k, _)| crate::cbor::to_vec(k)).collect();
                    keys.sort();
                    let n = keys.len();
                    keys.dedup();
                    if keys.len() != n {
                        bad!(self, "discipline/duplicate-map-key");
                    }
                }
                Some(xs)
            }
            _ => {
                bad!(self, "type/map-expected");
                None
            }
        }
    }
    fn nil_or(&mut self, it: &Item, f: impl FnOnce(&mut Val, &Item)) {
        if !it.is_null() {
            f(self, it)
        }
    }
    /// set<a> / nonempty_set<a>: `field` = true for set-typed fields the library writes (tag 258
    /// demanded by the discipline unless legacy_ok)
    fn set(&mut self, it: &Item, nonempty: bool, mut elem: impl FnMut(&mut Val, &Item)) {
        let inner = match &it.v {
            V::Tag(258, inner) => {
                self.canon_head(it);
                inner.as_ref()
            }
            V::Tag(t, _) => {
                bad!(self, "tag/258-expected", "{}", t);
                return;
            }
            _ => {
                if self.o.discipline && !self.o.legacy_ok {
                    bad!(self, "discipline/set-without-tag-258");
                }
                it
            }
        };
        if let Some(xs) = self.arr(inner, &[], "") {
            if nonempty && xs.is_empty() && !self.o.allow_empty_maps {
                bad!(self, "card/nonempty-set-is-empty");
            }
            if self.o.discipline {
                let mut enc: Vec<Vec<u8>> = xs.iter().map(crate::cbor::to_vec).collect();
                enc.sort();
                let n = enc.len();
                enc.dedup();
                if enc.len() != n {
                    bad!(self, "discipline/duplicate-set-element");
                }
            }
            for (i, x) in xs.iter().enumerate() {
                self.at(&format!("[{}]", i), |s| elem(s, x));
            }
        }
    }
    fn list(&mut self, it: &Item, mut elem: impl FnMut(&mut Val, &Item)) {
        if let Some(xs) = self.arr(it, &[], "") {
            for (i, x) in xs.iter().enumerate() {
                self.at(&format!("[{}]", i), |s| elem(s, x));
            }
        }
    }

    // -------------------------------------------------------------------------------- small rules
    pub fn unit_interval(&mut self, it: &Item) {
        match &it.v {
            V::Tag(30, inner) => {
                self.canon_head(it);
                if let Some(xs) = self.arr(inner, &[2], "arity/unit_interval") {
                    self.uint(&xs[0]);
                    self.uint(&xs[1]);
                }
            }
            _ => bad!(self, "tag/30-expected"),
        }
    }
    pub fn credential(&mut self, it: &Item) {
        if let Some(xs) = self.arr(it, &[2], "arity/credential") {
            match self.uint(&xs[0]) {
                Some(0) | Some(1) => self.hash28(&xs[1]),
                Some(_) => bad!(self, "variant/credential"),
                None => {}
            }
        }
    }
    pub fn drep(&mut self, it: &Item) {
        if let Some(xs) = self.arr(it, &[1, 2], "arity/drep") {
            match (self.uint(&xs[0]), xs.len()) {
                (Some(0), 2) | (Some(1), 2) => self.hash28(&xs[1]),
                (Some(2), 1) | (Some(3), 1) => {}
                (Some(_), _) => bad!(self, "variant/drep"),
                _ => {}
            }
        }
    }
    pub fn anchor(&mut self, it: &Item) {
        if let Some(xs) = self.arr(it, &[2], "arity/anchor") {
            self.text_max(&xs[0], 128, "size/url-128");
            self.hash32(&xs[1]);
        }
    }
    pub fn address(&mut self, it: &Item) {
        self.bytes(it);
    }
    pub fn reward_account(&mut self, it: &Item) {
        self.bytes(it);
    }
    pub fn transaction_input(&mut self, it: &Item) {
        if let Some(xs) = self.arr(it, &[2], "arity/transaction_input") {
            self.hash32(&xs[0]);
            self.uint_max(&xs[1], 65535, "range/transaction_index-uint16");
        }
    }
    pub fn gov_action_id(&mut self, it: &Item) {
        if let Some(xs) = self.arr(it, &[2], "arity/gov_action_id") {
            self.hash32(&xs[0]);
            self.uint_max(&xs[1], 65535, "range/gov_action_index-uint16");
        }
    }
    pub fn protocol_version(&mut self, it: &Item) {
        if let Some(xs) = self.arr(it, &[2], "arity/protocol_version") {
            self.uint(&xs[0]);
            self.uint(&xs[1]);
        }
    }
    pub fn ex_units(&mut self, it: &Item) {
        if let Some(xs) = self.arr(it, &[2], "arity/ex_units") {
            self.uint(&xs[0]);
            self.uint(&xs[1]);
        }
    }
    pub fn ex_unit_prices(&mut self, it: &Item) {
        if let Some(xs) = self.arr(it, &[2], "arity/ex_unit_prices") {
            self.unit_interval(&xs[0]);
            self.unit_interval(&xs[1]);
        }
    }

    // -------------------------------------------------------------------------------- value / mint
    /// multiasset; `signed` for mint. Returns nothing; findings pushed.
    fn multiasset(&mut self, it: &Item, signed: bool, strict: bool) {
        if let Some(ps) = self.map(it) {
            if ps.is_empty() && strict {
                bad!(self, "card/multiasset-empty");
            }
            for (p, assets) in ps {
                self.at("policy", |s| s.hash28(p));
                if let Some(xs) = self.map(assets) {
                    if xs.is_empty() && strict {
                        bad!(self, "card/empty-policy-bundle");
                    }
                    for (name, q) in xs {
                        if let Some(b) = self.bytes(name) {
                            if b.len() > 32 {
                                bad!(self, "size/asset_name-32");
                            }
                        }
                        if signed {
                            if let Some(v) = self.int64(q) {
                                if v == 0 {
                                    bad!(self, "range/mint-quantity-zero");
                                }
                            }
                        } else if let Some(v) = self.uint(q) {
                            if v == 0 && strict {
                                bad!(self, "range/zero-quantity-asset");
                            }
                        }
                    }
                }
            }
        }
    }
    pub fn value(&mut self, it: &Item, strict: bool) {
        match &it.v {
            V::U(_) => {
                self.uint(it);
            }
            V::A(_) => {
                if let Some(xs) = self.arr(it, &[2], "arity/value") {
                    self.uint(&xs[0]);
                    self.at("multiasset", |s| s.multiasset(&xs[1], false, strict));
                }
            }
            _ => bad!(self, "type/value"),
        }
    }
    pub fn mint(&mut self, it: &Item) {
        let strict = !self.o.allow_empty_maps;
        self.multiasset(it, true, strict);
    }

    // -------------------------------------------------------------------------------- scripts / data
    pub fn native_script(&mut self, it: &Item) {
        if let Some(xs) = self.arr(it, &[2, 3], "arity/native_script") {
            match (self.uint(&xs[0]), xs.len()) {
                (Some(0), 2) => self.hash28(&xs[1]),
                (Some(1), 2) | (Some(2), 2) => self.list(&xs[1], |s, x| s.native_script(x)),
                (Some(3), 3) => {
                    self.uint(&xs[1]);
                    self.list(&xs[2], |s, x| s.native_script(x));
                }
                (Some(4), 2) | (Some(5), 2) => {
                    self.uint(&xs[1]);
                }
                (Some(_), _) => bad!(self, "variant/native_script"),
                _ => {}
            }
        }
    }
    /// bounded bytes inside Plutus data / big ints: <= 64 definite, else indefinite 64-byte chunks
    fn bounded_bytes(&mut self, it: &Item) {
        match &it.v {
            V::B(b) => {
                if it.indef {
                    if it.chunks.iter().any(|(l, _)| *l > 64) {
                        bad!(self, "size/bounded_bytes-chunk-over-64");
                    }
                    if self.o.discipline {
                        if b.len() <= 64 {
                            bad!(self, "discipline/chunked-bytes-where-definite-expected");
                        }
                        let n = it.chunks.len();
                        for (i, (l, w)) in it.chunks.iter().enumerate() {
                            if *w != crate::cbor::min_width(*l as u64) {
                                bad!(self, "discipline/non-shortest-head");
                            }
                            if i + 1 < n && *l != 64 {
                                bad!(self, "discipline/chunk-not-64-bytes");
                            }
                        }
                    }
                } else {
                    self.canon_head(it);
                    if b.len() > 64 {
                        bad!(self, "size/bounded_bytes-over-64");
                    }
                }
            }
            _ => bad!(self, "type/bytes-expected"),
        }
    }
    fn plutus_list(&mut self, it: &Item) {
        match &it.v {
            V::A(xs) => {
                if self.o.discipline {
                    if xs.is_empty() {
                        self.canon_head(it);
                    } else if !it.indef {
                        bad!(self, "discipline/nonempty-plutus-list-definite");
                    }
                }
                for (i, x) in xs.iter().enumerate() {
                    self.at(&format!("[{}]", i), |s| s.plutus_data(x));
                }
            }
            _ => bad!(self, "type/array-expected"),
        }
    }
    pub fn plutus_data(&mut self, it: &Item) {
        match &it.v {
            V::Tag(t, inner) => {
                self.canon_head(it);
                match *t {
                    121..=127 | 1280..=1400 => self.plutus_list(inner),
                    102 => {
                        if let Some(xs) = self.arr(inner, &[2], "arity/constr-102") {
                            self.uint(&xs[0]);
                            self.plutus_list(&xs[1]);
                        }
                    }
                    2 | 3 => self.bounded_bytes(inner),
                    _ => bad!(self, "tag/plutus_data", "{}", t),
                }
            }
            V::M(_) => {
                // plutus maps may legitimately repeat keys; only head discipline applies
                if let V::M(xs) = &it.v {
                    self.canon_head(it);
                    for (k, v) in xs {
                        self.at("k", |s| s.plutus_data(k));
                        self.at("v", |s| s.plutus_data(v));
                    }
                }
            }
            V::A(_) => self.plutus_list(it),
            V::U(_) | V::N(_) => {
                self.int(it);
            }
            V::B(_) => self.bounded_bytes(it),
            _ => bad!(self, "type/plutus_data"),
        }
    }
    pub fn big_int(&mut self, it: &Item) {
        match &it.v {
            V::U(_) | V::N(_) => {
                self.int(it);
            }
            V::Tag(2, inner) | V::Tag(3, inner) => {
                self.canon_head(it);
                self.bounded_bytes(inner);
            }
            _ => bad!(self, "type/big_int"),
        }
    }
    pub fn script(&mut self, it: &Item) {
        if let Some(xs) = self.arr(it, &[2], "arity/script") {
            match self.uint(&xs[0]) {
                Some(0) => self.native_script(&xs[1]),
                Some(1) | Some(2) | Some(3) => {
                    self.bytes(&xs[1]);
                }
                Some(_) => bad!(self, "variant/script"),
                None => {}
            }
        }
    }
    /// #6.24(bytes .cbor X)
    fn wrapped(&mut self, it: &Item, what: &'static str, f: impl FnOnce(&mut Val, &Item)) {
        match &it.v {
            V::Tag(24, inner) => {
                self.canon_head(it);
                if let Some(b) = self.bytes(inner) {
                    match crate::cbor::parse(&b) {
                        Ok(x) => self.at(what, |s| f(s, &x)),
                        Err(e) => bad!(self, "wellformed/embedded-cbor", "{:?}", e),
                    }
                }
            }
            _ => bad!(self, "tag/24-expected"),
        }
    }
    pub fn script_ref(&mut self, it: &Item) {
        self.wrapped(it, "script", |s, x| s.script(x));
    }
    pub fn transaction_metadatum(&mut self, it: &Item) {
        match &it.v {
            V::M(_) => {
                if let Some(xs) = self.map(it) {
                    for (k, v) in xs {
                        self.transaction_metadatum(k);
                        self.transaction_metadatum(v);
                    }
                }
            }
            V::A(_) => self.list(it, |s, x| s.transaction_metadatum(x)),
            V::U(_) | V::N(_) => {
                self.int(it);
            }
            V::B(b) => {
                self.canon_head(it);
                if b.len() > 64 {
                    bad!(self, "size/metadatum-bytes-64");
                }
            }
            V::T(_) => self.text_max(it, 64, "size/metadatum-text-64"),
            _ => bad!(self, "type/transaction_metadatum"),
        }
    }
    pub fn metadata(&mut self, it: &Item) {
        if let Some(xs) = self.map(it) {
            for (k, v) in xs {
                self.uint(k);
                self.transaction_metadatum(v);
            }
        }
    }
    pub fn auxiliary_data(&mut self, it: &Item) {
        match &it.v {
            V::M(_) => self.metadata(it),
            V::A(_) => {
                if let Some(xs) = self.arr(it, &[2], "arity/auxiliary_data-shelley-ma") {
                    self.metadata(&xs[0]);
                    self.list(&xs[1], |s, x| s.native_script(x));
                }
            }
            V::Tag(259, inner) => {
                self.canon_head(it);
                if let Some(xs) = self.map(inner) {
                    for (k, v) in xs {
                        match self.uint(k) {
                            Some(0) => self.at("0", |s| s.metadata(v)),
                            Some(1) => self.at("1", |s| s.list(v, |s, x| s.native_script(x))),
                            Some(2) | Some(3) | Some(4) => self.at("plutus", |s| {
                                s.list(v, |s, x| {
                                    s.bytes(x);
                                })
                            }),
                            Some(_) => bad!(self, "key/auxiliary_data"),
                            None => {}
                        }
                    }
                }
            }
            _ => bad!(self, "type/auxiliary_data"),
        }
    }

    // -------------------------------------------------------------------------------- outputs
    pub fn transaction_output(&mut self, it: &Item) {
        let strict = self.o.strict_output_assets;
        match &it.v {
            V::A(_) => {
                if let Some(xs) = self.arr(it, &[2, 3], "arity/legacy-output") {
                    self.address(&xs[0]);
                    self.at("value", |s| s.value(&xs[1], strict));
                    if xs.len() == 3 {
                        self.hash32(&xs[2]);
                    }
                }
            }
            V::M(_) => {
                if let Some(xs) = self.map(it) {
                    let mut have = [false; 4];
                    for (k, v) in xs {
                        match self.uint(k) {
                            Some(0) => {
                                have[0] = true;
                                self.address(v)
                            }
                            Some(1) => {
                                have[1] = true;
                                self.at("value", |s| s.value(v, strict))
                            }
                            Some(2) => self.at("datum", |s| {
                                if let Some(d) = s.arr(v, &[2], "arity/datum_option") {
                                    match s.uint(&d[0]) {
                                        Some(0) => s.hash32(&d[1]),
                                        Some(1) => s.wrapped(&d[1], "data", |s, x| s.plutus_data(x)),
                                        Some(_) => bad!(s, "variant/datum_option"),
                                        None => {}
                                    }
                                }
                            }),
                            Some(3) => self.at("script_ref", |s| s.script_ref(v)),
                            Some(_) => bad!(self, "key/transaction_output"),
                            None => {}
                        }
                    }
                    if !have[0] || !have[1] {
                        bad!(self, "key/transaction_output-missing-required");
                    }
                }
            }
            _ => bad!(self, "type/transaction_output"),
        }
    }

    // -------------------------------------------------------------------------------- certificates
    fn relay(&mut self, it: &Item) {
        if let Some(xs) = self.arr(it, &[2, 3, 4], "arity/relay") {
            match (self.uint(&xs[0]), xs.len()) {
                (Some(0), 4) => {
                    self.nil_or(&xs[1], |s, x| {
                        s.uint_max(x, 65535, "range/port");
                    });
                    self.nil_or(&xs[2], |s, x| s.bytes_n(x, 4, "size/ipv4"));
                    self.nil_or(&xs[3], |s, x| s.bytes_n(x, 16, "size/ipv6"));
                }
                (Some(1), 3) => {
                    self.nil_or(&xs[1], |s, x| {
                        s.uint_max(x, 65535, "range/port");
                    });
                    self.text_max(&xs[2], 128, "size/dns_name-128");
                }
                (Some(2), 2) => self.text_max(&xs[1], 128, "size/dns_name-128"),
                (Some(_), _) => bad!(self, "variant/relay"),
                _ => {}
            }
        }
    }
    /// the 9 pool parameters starting at xs[off]
    fn pool_params(&mut self, xs: &[Item]) {
        if xs.len() != 9 {
            bad!(self, "arity/pool_params");
            return;
        }
        self.hash28(&xs[0]);
        self.hash32(&xs[1]);
        self.uint(&xs[2]);
        self.uint(&xs[3]);
        self.unit_interval(&xs[4]);
        self.reward_account(&xs[5]);
        self.at("owners", |s| s.set(&xs[6], false, |s, x| s.hash28(x)));
        self.at("relays", |s| s.list(&xs[7], |s, x| s.relay(x)));
        self.nil_or(&xs[8], |s, x| {
            if let Some(m) = s.arr(x, &[2], "arity/pool_metadata") {
                s.text_max(&m[0], 128, "size/url-128");
                s.hash32(&m[1]);
            }
        });
    }
    pub fn certificate(&mut self, it: &Item) {
        let xs = match self.arr(it, &[], "") {
            Some(x) => x,
            None => return,
        };
        if xs.is_empty() {
            bad!(self, "arity/certificate");
            return;
        }
        let tag = match self.uint(&xs[0]) {
            Some(t) => t,
            None => return,
        };
        let want = |n: usize| xs.len() == n;
        let arity_ok = match tag {
            0 | 1 => want(2),
            2 => want(3),
            3 => want(10),
            4 => want(3),
            5 => want(4),
            6 => want(2),
            7 | 8 | 9 => want(3),
            10 | 11 | 12 => want(4),
            13 => want(5),
            14 | 15 => want(3),
            16 => want(4),
            17 => want(3),
            18 => want(3),
            _ => {
                bad!(self, "variant/certificate", "{}", tag);
                return;
            }
        };
        if !arity_ok {
            bad!(self, "arity/certificate", "tag {} len {}", tag, xs.len());
            return;
        }
        match tag {
            0 | 1 => self.credential(&xs[1]),
            2 => {
                self.credential(&xs[1]);
                self.hash28(&xs[2]);
            }
            3 => self.pool_params(&xs[1..]),
            4 => {
                self.hash28(&xs[1]);
                self.uint(&xs[2]);
            }
            5 => {
                if !self.o.legacy_ok {
                    bad!(self, "variant/certificate-pre-conway");
                }
                self.hash28(&xs[1]);
                self.hash28(&xs[2]);
                self.hash32(&xs[3]);
            }
            6 => {
                if !self.o.legacy_ok {
                    bad!(self, "variant/certificate-pre-conway");
                }
                if let Some(m) = self.arr(&xs[1], &[2], "arity/mir") {
                    self.uint_max(&m[0], 1, "variant/mir-pot");
                    match &m[1].v {
                        V::M(_) => {
                            if let Some(es) = self.map(&m[1]) {
                                for (k, v) in es {
                                    self.credential(k);
                                    self.int(v);
                                }
                            }
                        }
                        _ => {
                            self.uint(&m[1]);
                        }
                    }
                }
            }
            7 | 8 => {
                self.credential(&xs[1]);
                self.uint(&xs[2]);
            }
            9 => {
                self.credential(&xs[1]);
                self.drep(&xs[2]);
            }
            10 => {
                self.credential(&xs[1]);
                self.hash28(&xs[2]);
                self.drep(&xs[3]);
            }
            11 => {
                self.credential(&xs[1]);
                self.hash28(&xs[2]);
                self.uint(&xs[3]);
            }
            12 => {
                self.credential(&xs[1]);
                self.drep(&xs[2]);
                self.uint(&xs[3]);
            }
            13 => {
                self.credential(&xs[1]);
                self.hash28(&xs[2]);
                self.drep(&xs[3]);
                self.uint(&xs[4]);
            }
            14 => {
                self.credential(&xs[1]);
                self.credential(&xs[2]);
            }
            15 => {
                self.credential(&xs[1]);
                self.nil_or(&xs[2], |s, x| s.anchor(x));
            }
            16 => {
                self.credential(&xs[1]);
                self.uint(&xs[2]);
                self.nil_or(&xs[3], |s, x| s.anchor(x));
            }
            17 => {
                self.credential(&xs[1]);
                self.uint(&xs[2]);
            }
            _ => {
                self.credential(&xs[1]);
                self.nil_or(&xs[2], |s, x| s.anchor(x));
            }
        }
    }

    // -------------------------------------------------------------------------------- governance
    pub fn voter(&mut self, it: &Item) {
        if let Some(xs) = self.arr(it, &[2], "arity/voter") {
            match self.uint(&xs[0]) {
                Some(0..=4) => self.hash28(&xs[1]),
                Some(_) => bad!(self, "variant/voter"),
                None => {}
            }
        }
    }
    pub fn voting_procedure(&mut self, it: &Item) {
        if let Some(xs) = self.arr(it, &[2], "arity/voting_procedure") {
            self.uint_max(&xs[0], 2, "variant/vote");
            self.nil_or(&xs[1], |s, x| s.anchor(x));
        }
    }
    pub fn voting_procedures(&mut self, it: &Item) {
        if let Some(xs) = self.map(it) {
            if xs.is_empty() && !self.o.allow_empty_maps {
                bad!(self, "card/voting_procedures-empty");
            }
            for (k, v) in xs {
                self.voter(k);
                if let Some(inner) = self.map(v) {
                    if inner.is_empty() {
                        bad!(self, "card/voter-without-votes");
                    }
                    for (id, p) in inner {
                        self.gov_action_id(id);
                        self.voting_procedure(p);
                    }
                }
            }
        }
    }
    pub fn constitution(&mut self, it: &Item) {
        if let Some(xs) = self.arr(it, &[2], "arity/constitution") {
            self.anchor(&xs[0]);
            self.nil_or(&xs[1], |s, x| s.hash28(x));
        }
    }
    pub fn gov_action(&mut self, it: &Item) {
        let xs = match self.arr(it, &[], "") {
            Some(x) if !x.is_empty() => x,
            Some(_) => {
                bad!(self, "arity/gov_action");
                return;
            }
            None => return,
        };
        let tag = match self.uint(&xs[0]) {
            Some(t) => t,
            None => return,
        };
        let ok = match tag {
            0 => xs.len() == 4,
            1 => xs.len() == 3,
            2 => xs.len() == 3,
            3 => xs.len() == 2,
            4 => xs.len() == 5,
            5 => xs.len() == 3,
            6 => xs.len() == 1,
            _ => {
                bad!(self, "variant/gov_action");
                return;
            }
        };
        if !ok {
            bad!(self, "arity/gov_action", "tag {} len {}", tag, xs.len());
            return;
        }
        match tag {
            0 => {
                self.nil_or(&xs[1], |s, x| s.gov_action_id(x));
                self.at("ppu", |s| s.protocol_param_update(&xs[2]));
                self.nil_or(&xs[3], |s, x| s.hash28(x));
            }
            1 => {
                self.nil_or(&xs[1], |s, x| s.gov_action_id(x));
                self.protocol_version(&xs[2]);
            }
            2 => {
                if let Some(m) = self.map(&xs[1]) {
                    for (k, v) in m {
                        self.reward_account(k);
                        self.uint(v);
                    }
                }
                self.nil_or(&xs[2], |s, x| s.hash28(x));
            }
            3 => self.nil_or(&xs[1], |s, x| s.gov_action_id(x)),
            4 => {
                self.nil_or(&xs[1], |s, x| s.gov_action_id(x));
                self.at("remove", |s| s.set(&xs[2], false, |s, x| s.credential(x)));
                if let Some(m) = self.map(&xs[3]) {
                    for (k, v) in m {
                        self.credential(k);
                        self.uint(v);
                    }
                }
                self.unit_interval(&xs[4]);
            }
            5 => {
                self.nil_or(&xs[1], |s, x| s.gov_action_id(x));
                self.constitution(&xs[2]);
            }
            _ => {}
        }
    }
    pub fn proposal_procedure(&mut self, it: &Item) {
        if let Some(xs) = self.arr(it, &[4], "arity/proposal_procedure") {
            self.uint(&xs[0]);
            self.reward_account(&xs[1]);
            self.at("action", |s| s.gov_action(&xs[2]));
            self.anchor(&xs[3]);
        }
    }
    fn thresholds(&mut self, it: &Item, n: usize, clause: &'static str) {
        if let Some(xs) = self.arr(it, &[n], clause) {
            for x in xs {
                self.unit_interval(x);
            }
        }
    }
    pub fn cost_models(&mut self, it: &Item) {
        if let Some(xs) = self.map(it) {
            for (k, v) in xs {
                self.uint_max(k, 255, "range/cost-model-language");
                self.list(v, |s, x| {
                    s.int64(x);
                });
            }
        }
    }
    pub fn protocol_param_update(&mut self, it: &Item) {
        let xs = match self.map(it) {
            Some(x) => x,
            None => return,
        };
        for (k, v) in xs {
            let key = match self.uint(k) {
                Some(k) => k,
                None => continue,
            };
            self.at(&format!("{}", key), |s| match key {
                0 | 1 | 5 | 6 | 16 | 17 | 30 | 31 => {
                    s.uint(v);
                }
                2 | 3 | 22 => {
                    s.uint_max(v, u32::MAX as u64, "range/uint32");
                }
                4 | 8 | 23 | 24 | 27 => {
                    s.uint_max(v, u32::MAX as u64, "range/uint32");
                }
                7 | 28 | 29 | 32 => {
                    s.uint_max(v, u32::MAX as u64, "range/epoch_interval-uint32");
                }
                9 | 10 | 11 | 33 => s.unit_interval(v),
                12 => {
                    if !s.o.legacy_ok {
                        bad!(s, "key/protocol_param_update-pre-conway");
                    }
                    s.unit_interval(v)
                }
                13 => {
                    if !s.o.legacy_ok {
                        bad!(s, "key/protocol_param_update-pre-conway");
                    }
                }
                14 => {
                    if !s.o.legacy_ok {
                        bad!(s, "key/protocol_param_update-pre-conway");
                    }
                    s.protocol_version(v)
                }
                18 => s.cost_models(v),
                19 => s.ex_unit_prices(v),
                20 | 21 => s.ex_units(v),
                25 => s.thresholds(v, 5, "arity/pool_voting_thresholds"),
                26 => s.thresholds(v, 10, "arity/drep_voting_thresholds"),
                _ => bad!(s, "key/protocol_param_update", "{}", key),
            });
        }
    }
    fn update(&mut self, it: &Item) {
        if let Some(xs) = self.arr(it, &[2], "arity/update") {
            if let Some(m) = self.map(&xs[0]) {
                for (k, v) in m {
                    self.hash28(k);
                    self.protocol_param_update(v);
                }
            }
            self.uint(&xs[1]);
        }
    }

    // -------------------------------------------------------------------------------- witnesses
    pub fn vkeywitness(&mut self, it: &Item) {
        if let Some(xs) = self.arr(it, &[2], "arity/vkeywitness") {
            self.bytes_n(&xs[0], 32, "size/vkey-32");
            self.bytes_n(&xs[1], 64, "size/signature-64");
        }
    }
    pub fn bootstrap_witness(&mut self, it: &Item) {
        if let Some(xs) = self.arr(it, &[4], "arity/bootstrap_witness") {
            self.bytes_n(&xs[0], 32, "size/vkey-32");
            self.bytes_n(&xs[1], 64, "size/signature-64");
            self.bytes_n(&xs[2], 32, "size/chain_code-32");
            self.bytes(&xs[3]);
        }
    }
    pub fn redeemers(&mut self, it: &Item) {
        match &it.v {
            V::A(_) => {
                if let Some(xs) = self.arr(it, &[], "") {
                    if xs.is_empty() && !self.o.allow_empty_maps {
                        bad!(self, "card/redeemers-empty");
                    }
                    for x in xs {
                        self.redeemer_legacy(x);
                    }
                }
            }
            V::M(_) => {
                if let Some(xs) = self.map(it) {
                    if xs.is_empty() && !self.o.allow_empty_maps {
                        bad!(self, "card/redeemers-empty");
                    }
                    for (k, v) in xs {
                        if let Some(kk) = self.arr(k, &[2], "arity/redeemer-key") {
                            self.uint_max(&kk[0], 5, "variant/redeemer_tag");
                            self.uint_max(&kk[1], u32::MAX as u64, "range/redeemer-index-uint32");
                        }
                        if let Some(vv) = self.arr(v, &[2], "arity/redeemer-value") {
                            self.at("data", |s| s.plutus_data(&vv[0]));
                            self.ex_units(&vv[1]);
                        }
                    }
                }
            }
            _ => bad!(self, "type/redeemers"),
        }
    }
    pub fn redeemer_legacy(&mut self, it: &Item) {
        if let Some(r) = self.arr(it, &[4], "arity/redeemer") {
            self.uint_max(&r[0], 5, "variant/redeemer_tag");
            self.uint_max(&r[1], u32::MAX as u64, "range/redeemer-index-uint32");
            self.at("data", |s| s.plutus_data(&r[2]));
            self.ex_units(&r[3]);
        }
    }
    pub fn transaction_witness_set(&mut self, it: &Item) {
        let xs = match self.map(it) {
            Some(x) => x,
            None => return,
        };
        for (k, v) in xs {
            let key = match self.uint(k) {
                Some(k) => k,
                None => continue,
            };
            self.at(&format!("{}", key), |s| match key {
                0 => s.set(v, true, |s, x| s.vkeywitness(x)),
                1 => s.set(v, true, |s, x| s.native_script(x)),
                2 => s.set(v, true, |s, x| s.bootstrap_witness(x)),
                3 | 6 | 7 => s.set(v, true, |s, x| {
                    s.bytes(x);
                }),
                4 => {
                    // nonempty_set<plutus_data>; the library writes it as a Plutus list (indefinite when non-empty)
                    let inner = match &v.v {
                        V::Tag(258, inner) => {
                            s.canon_head(v);
                            inner.as_ref()
                        }
                        _ => {
                            if s.o.discipline && !s.o.legacy_ok {
                                bad!(s, "discipline/set-without-tag-258");
                            }
                            v
                        }
                    };
                    match &inner.v {
                        V::A(ds) => {
                            if ds.is_empty() && !s.o.allow_empty_maps {
                                bad!(s, "card/nonempty-set-is-empty");
                            }
                            if s.o.discipline {
                                if !inner.indef && !inner.head_minimal() {
                                    bad!(s, "discipline/non-shortest-head");
                                }
                                let mut enc: Vec<Vec<u8>> = ds.iter().map(crate::cbor::to_vec).collect();
                                enc.sort();
                                let n = enc.len();
                                enc.dedup();
                                if enc.len() != n {
                                    bad!(s, "discipline/duplicate-set-element");
                                }
                            }
                            for d in ds {
                                s.plutus_data(d);
                            }
                        }
                        _ => bad!(s, "type/array-expected"),
                    }
                }
                5 => s.redeemers(v),
                _ => bad!(s, "key/transaction_witness_set", "{}", key),
            });
        }
    }

    // -------------------------------------------------------------------------------- body / tx
    pub fn transaction_body(&mut self, it: &Item) {
        let xs = match self.map(it) {
            Some(x) => x,
            None => return,
        };
        let mut have = [false; 3];
        for (k, v) in xs {
            let key = match self.uint(k) {
                Some(k) => k,
                None => continue,
            };
            if key < 3 {
                have[key as usize] = true;
            }
            self.at(&format!("{}", key), |s| match key {
                0 => s.set(v, false, |s, x| s.transaction_input(x)),
                1 => s.list(v, |s, x| s.transaction_output(x)),
                2 | 3 | 8 | 17 | 21 => {
                    s.uint(v);
                }
                4 => s.set(v, true, |s, x| s.certificate(x)),
                5 => {
                    if let Some(m) = s.map(v) {
                        if m.is_empty() && !s.o.allow_empty_maps {
                            bad!(s, "card/withdrawals-empty");
                        }
                        for (a, c) in m {
                            s.reward_account(a);
                            s.uint(c);
                        }
                    }
                }
                6 => {
                    if !s.o.legacy_ok {
                        bad!(s, "key/transaction_body-update-pre-conway");
                    }
                    s.update(v)
                }
                7 | 11 => s.hash32(v),
                9 => s.mint(v),
                13 | 18 => s.set(v, true, |s, x| s.transaction_input(x)),
                14 => s.set(v, true, |s, x| s.hash28(x)),
                15 => {
                    s.uint_max(v, 1, "range/network_id");
                }
                16 => s.transaction_output(v),
                19 => s.voting_procedures(v),
                20 => s.set(v, true, |s, x| s.proposal_procedure(x)),
                22 => {
                    if let Some(d) = s.uint(v) {
                        if d == 0 {
                            bad!(s, "range/donation-positive_coin");
                        }
                    }
                }
                _ => bad!(s, "key/transaction_body", "{}", key),
            });
        }
        if !have[0] || !have[1] || !have[2] {
            bad!(self, "key/transaction_body-missing-required");
        }
    }
    pub fn transaction(&mut self, it: &Item) {
        if let Some(xs) = self.arr(it, &[4], "arity/transaction") {
            self.at("body", |s| s.transaction_body(&xs[0]));
            self.at("wits", |s| s.transaction_witness_set(&xs[1]));
            match xs[2].v {
                V::Simple(20) | V::Simple(21) => {}
                _ => bad!(self, "type/bool-expected"),
            }
            self.at("aux", |s| s.nil_or(&xs[3], |s, x| s.auxiliary_data(x)));
        }
    }

    /// dispatch by rule name (the names used in the type registry)
    pub fn rule(&mut self, rule: &str, it: &Item) -> bool {
        match rule {
            "transaction" => self.transaction(it),
            "transaction_body" => self.transaction_body(it),
            "transaction_witness_set" => self.transaction_witness_set(it),
            "auxiliary_data" => self.auxiliary_data(it),
            "transaction_input" => self.transaction_input(it),
            "set<transaction_input>" => self.set(it, false, |s, x| s.transaction_input(x)),
            "transaction_output" => self.transaction_output(it),
            "[* transaction_output]" => self.list(it, |s, x| s.transaction_output(x)),
            "value" => {
                let st = self.o.strict_output_assets;
                self.value(it, st)
            }
            "multiasset<positive_coin>" => self.multiasset(it, false, false),
            "assets<positive_coin>" => {
                if let Some(xs) = self.map(it) {
                    for (k, v) in xs {
                        if let Some(b) = self.bytes(k) {
                            if b.len() > 32 {
                                bad!(self, "size/asset_name-32");
                            }
                        }
                        self.uint(v);
                    }
                }
            }
            "asset_name" => {
                if let Some(b) = self.bytes(it) {
                    if b.len() > 32 {
                        bad!(self, "size/asset_name-32");
                    }
                }
            }
            "mint" => self.mint(it),
            "certificate" => self.certificate(it),
            "nonempty_oset<certificate>?" => self.set(it, false, |s, x| s.certificate(x)),
            "pool_params_array" => {
                if let Some(xs) = self.arr(it, &[9], "arity/pool_params") {
                    self.pool_params(xs)
                }
            }
            "pool_metadata" => {
                if let Some(m) = self.arr(it, &[2], "arity/pool_metadata") {
                    self.text_max(&m[0], 128, "size/url-128");
                    self.hash32(&m[1]);
                }
            }
            "relay" => self.relay(it),
            "[* relay]" => self.list(it, |s, x| s.relay(x)),
            "dns_name" => self.text_max(it, 128, "size/dns_name-128"),
            "ipv4" => self.bytes_n(it, 4, "size/ipv4"),
            "ipv6" => self.bytes_n(it, 16, "size/ipv6"),
            "url128" => self.text_max(it, 128, "size/url-128"),
            "withdrawals" => {
                if let Some(m) = self.map(it) {
                    for (a, c) in m {
                        self.reward_account(a);
                        self.uint(c);
                    }
                }
            }
            "credential" => self.credential(it),
            "set<credential>" => self.set(it, false, |s, x| s.credential(x)),
            "set<addr_keyhash>" => self.set(it, false, |s, x| s.hash28(x)),
            "[* reward_account]" => self.list(it, |s, x| s.reward_account(x)),
            "[* script_hash]" => self.list(it, |s, x| s.hash28(x)),
            "unit_interval" => self.unit_interval(it),
            "anchor" => self.anchor(it),
            "drep" => self.drep(it),
            "voter" => self.voter(it),
            "voting_procedure" => self.voting_procedure(it),
            "voting_procedures" => self.voting_procedures(it),
            "proposal_procedure" => self.proposal_procedure(it),
            "nonempty_oset<proposal_procedure>?" => self.set(it, false, |s, x| s.proposal_procedure(x)),
            "gov_action" => self.gov_action(it),
            "gov_action_id" => self.gov_action_id(it),
            "constitution" => self.constitution(it),
            "protocol_param_update" => self.protocol_param_update(it),
            "protocol_version" => self.protocol_version(it),
            "drep_voting_thresholds" => self.thresholds(it, 10, "arity/drep_voting_thresholds"),
            "pool_voting_thresholds" => self.thresholds(it, 5, "arity/pool_voting_thresholds"),
            "ex_units" => self.ex_units(it),
            "ex_unit_prices" => self.ex_unit_prices(it),
            "cost_model" => self.list(it, |s, x| {
                s.int64(x);
            }),
            "cost_models" => self.cost_models(it),
            "language" => {
                self.uint_max(it, 255, "range/language");
            }
            "native_script" => self.native_script(it),
            "[* native_script]" => self.list(it, |s, x| s.native_script(x)),
            "bytes" => {
                self.bytes(it);
            }
            "[* bytes]" => self.list(it, |s, x| {
                s.bytes(x);
            }),
            "script_ref" => self.script_ref(it),
            "plutus_data" => self.plutus_data(it),
            "plutus_list" => self.plutus_list(it),
            "redeemer_legacy" => self.redeemer_legacy(it),
            "redeemers" => self.redeemers(it),
            "redeemer_tag" => {
                self.uint_max(it, 5, "variant/redeemer_tag");
            }
            "transaction_metadatum" => self.transaction_metadatum(it),
            "metadata" => self.metadata(it),
            "vkey" => self.bytes_n(it, 32, "size/vkey-32"),
            "vkeywitness" => self.vkeywitness(it),
            "set<vkeywitness>" => self.set(it, false, |s, x| s.vkeywitness(x)),
            "bootstrap_witness" => self.bootstrap_witness(it),
            "set<bootstrap_witness>" => self.set(it, false, |s, x| s.bootstrap_witness(x)),
            "uint" => {
                self.uint(it);
            }
            "int" => {
                self.int(it);
            }
            "big_int" => self.big_int(it),
            "network_id" => {
                self.uint_max(it, 1, "range/network_id");
            }
            "[transaction_input, transaction_output]" => {
                if let Some(xs) = self.arr(it, &[2], "arity/utxo") {
                    self.transaction_input(&xs[0]);
                    self.transaction_output(&xs[1]);
                }
            }
            _ => return false,
        }
        true
    }
}

/// validate `bytes` against `rule`; Err for not-well-formed CBOR
pub fn validate(rule: &str, bytes: &[u8], o: Opts) -> Result<Vec<Finding>, String> {
    let it = crate::cbor::parse(bytes).map_err(|e| format!("{:?}", e))?;
    let mut v = Val::new(o);
    if !v.rule(rule, &it) {
        return Err(format!("unknown rule {}", rule));
    }
    Ok(v.out)
}
