//! Deterministic generator for workloads: xoshiro256** seeded through SplitMix64. No OS entropy.

#[derive(Clone, Debug)]
pub struct Rng {
    s: [u64; 4],
}

fn splitmix(x: &mut u64) -> u64 {
    *x = x.wrapping_add(0x9e3779b97f4a7c15);
    let mut z = *x;
    z = (z ^ (z >> 30)).wrapping_mul(0xbf58476d1ce4e5b9);
    z = (z ^ (z >> 27)).wrapping_mul(0x94d049bb133111eb);
    z ^ (z >> 31)
}

/// 64-bit FNV-1a (used for case hashes / stream derivation; not cryptographic)
pub fn fnv64(data: &[u8]) -> u64 {
    let mut h: u64 = 0xcbf29ce484222325;
    for b in data {
        h ^= *b as u64;
        h = h.wrapping_mul(0x100000001b3);
    }
    // final avalanche
    let mut x = h;
    splitmix(&mut x)
}

/// The CBOR / amount width lattice used throughout the generators
pub const LATTICE: [u64; 19] = [
    0,
    1,
    2,
    23,
    24,
    255,
    256,
    65535,
    65536,
    65537,
    0xffff_ffff,
    0x1_0000_0000,
    0x1_0000_0001,
    (1u64 << 63) - 1,
    1u64 << 63,
    (1u64 << 63) + 1,
    u64::MAX - 1,
    u64::MAX,
    1_000_000,
];

impl Rng {
    pub fn new(seed: u64) -> Rng {
        let mut x = seed;
        let s = [splitmix(&mut x), splitmix(&mut x), splitmix(&mut x), splitmix(&mut x)];
        Rng { s }
    }
    /// independent stream derived from (seed, label, index)
    pub fn derive(seed: u64, label: &str, idx: u64) -> Rng {
        let mut v = Vec::with_capacity(label.len() + 16);
        v.extend_from_slice(&seed.to_le_bytes());
        v.extend_from_slice(label.as_bytes());
        v.extend_from_slice(&idx.to_le_bytes());
        Rng::new(fnv64(&v))
    }
    pub fn u64(&mut self) -> u64 {
        let r = self.s[1].wrapping_mul(5).rotate_left(7).wrapping_mul(9);
        let t = self.s[1] << 17;
        self.s[2] ^= self.s[0];
        self.s[3] ^= self.s[1];
        self.s[1] ^= self.s[2];
        self.s[0] ^= self.s[3];
        self.s[2] ^= t;
        self.s[3] = self.s[3].rotate_left(45);
        r
    }
    pub fn u32(&mut self) -> u32 {
        (self.u64() >> 32) as u32
    }
    /// uniform in 0..n (n > 0)
    pub fn below(&mut self, n: u64) -> u64 {
        if n <= 1 {
            return 0;
        }
        ((self.u64() as u128 * n as u128) >> 64) as u64
    }
    pub fn range(&mut self, lo: u64, hi_incl: u64) -> u64 {
        if hi_incl <= lo {
            return lo;
        }
        let span = hi_incl - lo;
        if span == u64::MAX {
            return self.u64();
        }
        lo + self.below(span + 1)
    }
    pub fn usize(&mut self, n: usize) -> usize {
        self.below(n as u64) as usize
    }
    pub fn bool(&mut self) -> bool {
        self.u64() & 1 == 1
    }
    /// true with probability num/den
    pub fn chance(&mut self, num: u64, den: u64) -> bool {
        self.below(den) < num
    }
    pub fn bytes(&mut self, n: usize) -> Vec<u8> {
        let mut v = Vec::with_capacity(n);
        while v.len() < n {
            let x = self.u64().to_le_bytes();
            let k = (n - v.len()).min(8);
            v.extend_from_slice(&x[..k]);
        }
        v
    }
    pub fn pick<'a, T>(&mut self, xs: &'a [T]) -> &'a T {
        &xs[self.usize(xs.len())]
    }
    pub fn shuffle<T>(&mut self, xs: &mut [T]) {
        for i in (1..xs.len()).rev() {
            let j = self.usize(i + 1);
            xs.swap(i, j);
        }
    }
    /// a u64 biased to width boundaries
    pub fn wide_u64(&mut self) -> u64 {
        match self.below(10) {
            0..=3 => *self.pick(&LATTICE),
            4 => {
                // near a boundary
                let b = *self.pick(&LATTICE);
                let d = self.below(5);
                if self.bool() {
                    b.saturating_add(d)
                } else {
                    b.saturating_sub(d)
                }
            }
            5 | 6 => self.below(1 << 20),
            7 => self.below(1 << 40),
            _ => {
                let bits = self.below(64) + 1;
                if bits == 64 {
                    self.u64()
                } else {
                    self.below(1u64 << bits)
                }
            }
        }
    }
}
